"""C56 — IntegratedLogicAnalyzer (luna/gateware/debug/ila.py)."""
from harness.common.framework import Case
from harness.common.rng import Rng
from harness.common import sim

PROP = "C56"
LEAN_MODULES = ["LunaVerif.Props.C56", "LunaVerif.Props.C56Stream", "LunaVerif.Props.C56Spi",
                "LunaVerif.Lemmas.C56StreamAny", "LunaVerif.Props.C56Uart", "LunaVerif.Props.C56Cdc",
                "LunaVerif.Props.C56SpiBits", "LunaVerif.Lemmas.C56UartRank", "LunaVerif.Props.C56UartLive",
                "LunaVerif.Props.C56UartMulti", "LunaVerif.Props.C56SpiProgress", "LunaVerif.Props.C56StreamLive",
                "LunaVerif.Props.C56UartChain", "LunaVerif.Props.C56SpiPins", "LunaVerif.Props.C56StreamChain", "LunaVerif.Props.C56SpiChain", "LunaVerif.Props.C56ChainAll"]
DRIVER = "Driver/C56.lean"
REQUIRED_THEOREMS = ["captures_depth_consecutive_samples", "readback_nth", "trigger_during_capture_ignored",
                     "pretrigger_delay", "stream_readout_exact", "stream_readout_complete",
                     "stream_readout_returns_idle", "spi_readout_words", "stream_readout_any", "uart_readout_exact",
                     "uart_readout_complete", "uart_readout_decoded", "decode_wave", "mb_line", "mb_bytes",
                     "queue_conservation", "cdc_readout_in_order", "cdc_readout_complete", "spi_readout_bits",
                     "rank_tstep", "live_step", "rank_zero_iff", "uart_readout_duration", "uart_readout_within",
                     "uart_readout_total", "uart_readout_total_decoded", "uart_readout_returns_idle",
                     "uart_multi_capture", "uart_multi_capture_decoded", "idle_prefix", "track_words",
                     "spi_readout_progress", "spi_readout_covers", "sending_within", "stream_readout_total",
                     "cdc_readout_counted", "cdc_readout_fair", "uart_capture_chain", "uart_capture_chain_quiet",
                     "uart_capture_chain_decoded", "uart_readout_duration_any", "uart_readout_within_any",
                     "bounded_step", "uart_capture_chain_total", "track_bits", "spi_readout_pins", "stream_capture_chain",
                     "stream_capture_chain_open", "stream_capture_nth", "stream_capture_chain_total", "cdc_capture_chain",
                     "cdc_capture_chain_complete", "cdc_capture_chain_open", "cdc_output_prefix", "cdc_chain_output_prefix",
                     "quiet_run", "capture_holds", "window_words", "window_bits", "window_pins", "rounds_idle",
                     "spi_capture_chain_words", "spi_capture_chain_bits", "spi_capture_chain_pins", "stale_window_example",
                     "spi_history_decomposes", "spi_history_pins", "stream_history_decomposes", "stream_history_frames",
                     "cdc_history_frames"]
RULE = ("cases = (sample_depth in {1,2,5,32,100} (+3,4,7,8,16,33 thorough), samples_pretrigger 0..3, domain sync/usb, "
        "three captured signals of 1+8+5 bits) x pattern: triggers sparse / held high / bursts / random incl. during "
        "capture; inputs random every cycle or a counter; captured_sample_number sweeps and random reads, also while "
        "capturing (read of a location in the cycle it is written); kind 1 = StreamILA over the same depths / pre-trigger "
        "counts x trigger patterns (also during capture and read-out, where they are blocked) x stream.ready patterns "
        "(always / 50% / 20% / long on-off bursts / 85%), several captures and read-outs per case; kind 2 = "
        "SyncSerialILA, depths {1,2,3,5,16} (+4,7,8,32 thorough) x the four SPI modes: a scripted SPI controller "
        "(random half periods 1-3 cycles) triggers, waits for the capture and reads depth-1 .. depth+2 words per "
        "chip-select window, re-reads and re-captures (plus one multi-capture case per depth: three captures - two for depth "
        ">= 16 - each read out twice, the re-read always complete: coverage tags p-judged-later-capture, p-judged-reread, "
        "p-full-readout-later-capture, p-trigger-accepted-in-window); a quarter of the windows break the read-out conditions on "
        "purpose (trigger during the read-out, chip select dropped in mid-word, short chip-select gap) and are "
        "compared against the model only; kind 3 = AsyncSerialILA, depths {1,2,3,5} (+4,8 thorough) x divisors "
        "{1,2,3} (+5,7) x probe widths 1/14/24 bits (1/2/4 bytes per sample), the four trigger patterns (also during "
        "capture and read-out) followed by a trigger-free tail long enough for the last read-out; tx, sampling, complete "
        "and the internal stream handshake between StreamILA and the UART transmitter are compared with the model; "
        "the monitor decodes tx with an independent 8N1 receiver and checks the read-out schedule (byte k of a capture "
        "accepted while the line is quiescent starts 4 - data_valid + 10*divisor*k cycles after the hand-over cycle); kind 4 = StreamILA(domain=sync, o_domain=usb) "
        "simulated with two free-running clocks (capture domain 10 ns; output domain 3 / 7 / 10 / 13 / 23 ns with "
        "fractional phase offsets so that edges never coincide), depths {1,3,40} (+2,5,16,17,20 thorough; 40 > the FIFO's "
        "depth, so w_rdy falls with a slow consumer), trigger patterns as before, output ready always / 40% / on-off "
        "bursts, trigger-free always-ready tail; one row per clock cycle of either domain in the order of the clock "
        "edges; the model's FIFO is an abstract queue with the observed w_rdy / r_rdy as oracle inputs: the comparison "
        "checks the internal stream (FIFO write port), the output stream whenever valid, and that the real FIFO never "
        "shows r_rdy when the queue of the words written and not yet read is empty")
ASSUMPTIONS = ["sample_depth >= 1", "captured_sample_number < sample_depth (addresses beyond a non-power-of-two depth are not driven)",
               "StreamILA: o_domain == domain (no clock-domain-crossing FIFO between the read-out FSM and the stream)",
               "SyncSerialILA monitor (judged chip-select windows): no capture running and no trigger from 2 cycles before "
               "chip select rises until it falls, chip select low for the 4 cycles before, SPI clock idle at the level "
               "that makes the first edge the device's output edge, SCK high/low >= 1 cycle each",
               "spi_readout_words / spi_readout_bits: bits_per_word >= 4 (the class always uses >= 32), chip select active high (the class "
               "does not forward cs_idles_high), no trigger from the end of the capture to the end of the window, chip "
               "select low for at least 4 cycles before the window",
               "spi_capture_chain_words / _bits / _pins: analyzer idle at the start (init_idle; kept by trigger-free cycles: "
               "idle_quiet_run); the history is cut at the accepted triggers into rounds = trigger cycle, depth capture cycles "
               "(anything on the pins, further triggers ignored), trigger-free cycles with ANY SPI activity (RoundsOK); the "
               "window considered and its four chip-select-low lead-in cycles lie in the trigger-free part of its round; "
               "bits_per_word >= 4, chip select active high, MSB first; _pins: sck rests before the window at the level it has "
               "after a sampling edge",
               "stream_capture_chain / cdc_capture_chain: wrapper idle at the start (WIdle: init_WIdle, stream_idle_prefix); "
               "every piece of the history starts with a trigger, its continuation starts no new capture (noRetrigger) and "
               "ends with the wrapper FSM idle (ChainOK; implied by 2*depth ready cycles per piece: ChainReady, "
               "chainReady_ok) - i.e. the history is cut at the accepted triggers; _open: the last piece may end anywhere; "
               "cdc_*: the FIFO oracle is Legal (in-order-queue contract), any interleaving of the two clocks",
               "stream_readout_exact: the trigger is seen in a wrapper-idle state (WIdle: holds at reset, is kept by idle "
               "cycles and re-established by every read-out: init_WIdle, idle_step, stream_readout_returns_idle)",
               "stream_readout_any / uart_readout_exact: after the hand-over cycle no NEW capture is started within the "
               "history considered (noRetrigger: trigger low in the cycles in which the wrapper FSM is IDLE; triggers "
               "during capture and read-out are allowed, they are blocked by the wrapper); divisor >= 1, bytes_per_sample >= 1",
               "uart_readout_complete / uart_readout_decoded: the transmitter is quiescent at the start, and the history is "
               "long enough that at its end the wrapper is idle again and the transmitter quiescent; "
               "uart_readout_duration / _within / _total / _total_decoded discharge the second half: wrapper idle and "
               "transmitter quiescent at the start (UartQuiet), no new capture started in the continuation "
               "(noRetrigger), and the continuation after the hand-over cycle has at least "
               "10*divisor*bytes_per_sample*depth + 3 cycles (exactly readoutCycles = that - data_valid are needed: "
               "proved as an iff by a ranking function that decreases by one per cycle)",
               "uart_capture_chain / _total: wrapper idle (WIdle) at the start, transmitter in any state satisfying C49's "
               "invariant (chain) resp. quiescent (total); every capture of the chain starts with a trigger, its "
               "continuation starts no new capture (noRetrigger) and ends with the wrapper FSM idle (ChainOK) - i.e. the "
               "history is cut at the accepted triggers; uart_readout_within_any: transmitter counters within their "
               "ranges (Bounded: holds at reset, kept by every cycle: bounded_init, bounded_step)",
               "stream_readout_total: as stream_readout_any, and the consumer offers at least 2*depth - data_valid ready "
               "cycles after the hand-over cycle (at any times); spi_readout_progress / spi_readout_covers: the hypotheses "
               "of spi_readout_bits; the only pace-setting quantity is the number of sampling edges of sck the controller "
               "has produced inside the chip-select window (counted on the pin from the level sck had in the last cycle "
               "before the window); spi_readout_pins: moreover sck rests before the window at the level it has after a "
               "sampling edge (the first edge in the window is an output edge), MSB first; cdc_readout_counted: FIFO empty at the start, Legal, and the consumer has received "
               "depth words; cdc_readout_fair: FIFO empty at the start, Legal, w_rdy high in at least 2*depth - "
               "data_valid capture-domain cycles after the hand-over cycle",
               "cdc_readout_in_order (StreamILA with o_domain != domain): Amaranth's AsyncFIFOBuffered behaves as an "
               "in-order queue (w_rdy / r_rdy arbitrary, r_rdy only when a word is in the queue: Legal) - library code, "
               "not proved, validated on every simulated two-clock trace; any interleaving of the two clocks' edges; "
               "o_domain must not be the literal name 'sync' when domain != 'sync' (the class's DomainRenamer would "
               "rename the FIFO's read side too)"]
PARTIAL = ("the IntegratedLogicAnalyzer core and all three read-out wrappers are modelled, co-simulated and proved: StreamILA "
           "(same clock domain), SyncSerialILA down to the sdo pin (spi_readout_bits), AsyncSerialILA down to the tx "
           "waveform (uart_readout_exact / _complete / _decoded), StreamILA with o_domain != domain down to the output-domain "
           "stream (cdc_readout_in_order / _complete). Duration / completeness: the UART read-out takes exactly "
           "10*divisor*bytes_per_sample*depth + 3 - data_valid cycles after the hand-over cycle (uart_readout_duration, an "
           "iff, all depths / widths / divisors, by a ranking function that decreases by one per cycle), so "
           "uart_readout_total / _total_decoded / uart_multi_capture / uart_capture_chain_total need no assumption on the end "
           "of the history; the "
           "StreamILA read-out is complete once the consumer has offered 2*depth - data_valid ready cycles "
           "(stream_readout_total); the SyncSerialILA read-out has completed floor(E / bits_per_word) words after E "
           "sampling edges of the controller's sck (spi_readout_progress), and the controller's sampling edge number E "
           "reads bit bits_per_word - 1 - E mod bits_per_word of recorded sample floor(E / bits_per_word) "
           "(spi_readout_pins: on the pins alone, every clock waveform whose first edge in the window is an output edge). What remains: (1) the clock-domain crossing is "
           "proved over an abstract in-order-queue model of Amaranth's AsyncFIFOBuffered (library code). Assumed of "
           "the library FIFO, for every interleaving of the two clocks: (F1) the sequence of words read (r_en & r_rdy at a "
           "read-clock edge, r_data of that cycle) is at every moment a prefix of the sequence of words written (w_en & "
           "w_rdy at a write-clock edge, w_data of that cycle): nothing lost, duplicated, reordered or altered; (F2) "
           "r_rdy is high only while a written word is still unread, and r_data then shows the oldest unread word "
           "(Legal; no assumption on depth, on when w_rdy / r_rdy rise or fall, or on synchronizer delays); (F3, "
           "liveness, needed only to discharge the hypotheses 'the consumer has received depth words' of "
           "cdc_readout_counted / 'w_rdy was high 2*depth - data_valid times' of cdc_readout_fair) with both clocks "
           "running, w_rdy rises again after a bounded number of edges whenever fewer than depth words are queued, and "
           "a written word raises r_rdy after a bounded number of read-clock edges; (F4) neither domain is reset during "
           "operation. F1 / F2 are checked on every simulated two-clock trace of the real gateware (the model's ok "
           "output and the word comparison), F3 by the monitor's end-of-trace completeness check; none of them is proved "
           "for the Gray-code implementation; (2) multi-capture: whole-history statements now exist for all three wrappers (any number of captures, the "
           "history cut at the accepted triggers): uart_capture_chain / _total; stream_capture_chain / _open / _nth / _total "
           "and cdc_capture_chain / _open / _complete / cdc_output_prefix (the StreamILA blocks triggers during capture and "
           "read-out, so every buffer is sent completely, in order, before the next capture can start: the read-out of "
           "capture k is exactly capture k's frame); spi_capture_chain_words / _bits / _pins (SyncSerialILA: in the round of "
           "capture k, every chip-select window preceded by four chip-select-low cycles - first read-out, re-read, read-out "
           "after a partial or aborted one - returns capture k's samples, never capture k-1's). The cut is no restriction: "
           "EVERY history decomposes that way (spi_history_decomposes, stream_history_decomposes), so stream_history_frames / "
           "cdc_history_frames / spi_history_pins speak about any history from an idle state. Not covered, by design of the "
           "code and stated exactly: the SyncSerialILA does not block triggers during a read-out, so a window (or its four "
           "lead-in cycles) that overlaps a capture reads the memory while it is overwritten and returns a mixture of the "
           "old and the new capture (stale_window_example: a word latched before the trigger is still shifted out after "
           "complete has risen again; co-simulated by the 'trigger during the read-out' windows); such a word was addressed "
           "before the capture completed, so this is an observation about the wrapper, not a violation of C56")

WIDTHS = [1, 8, 5]
TOTAL = sum(WIDTHS)
# output-domain clock (period, phase of the first edge) in ns; the capture domain has period 10 ns, edges at 5, 15, ...;
# the fractional phases keep the edges of the two clocks apart
CDC_CLOCKS = [(3, 1.25), (7, 2.5), (10, 7.75), (13, 0.5), (23, 11.25)]
UART_WIDTHS = [[1], [1, 8, 5], [1, 8, 5, 10]]     # bits_per_sample 1 / 16 / 32 -> 1 / 2 / 4 bytes per sample


def gen_cases(tier, rng):
    depths = [1, 2, 5, 32, 100] if tier != "thorough" else [1, 2, 3, 4, 5, 7, 8, 16, 32, 33, 100]
    per = {"quick": 5, "widen": 8, "thorough": 20}[tier]
    out = []
    k = 0
    for D in depths:
        for p in (0, 1, 2, 3):
            for _ in range(per):
                out.append({"depth": D, "pre": p, "domain": "usb" if k % 5 == 4 else "sync", "seed": rng.u64(), "k": k})
                k += 1
    # StreamILA (kind 1): the same depths / pre-trigger counts, read out through the stream
    sper = {"quick": 3, "widen": 6, "thorough": 12}[tier]
    for D in depths:
        for p in (0, 1, 2, 3):
            for _ in range(sper):
                out.append({"kind": 1, "depth": D, "pre": p, "domain": "usb" if k % 5 == 4 else "sync",
                            "seed": rng.u64(), "k": k})
                k += 1
    # SyncSerialILA (kind 2): SPI read-out, all four SPI modes
    sdepths = [1, 2, 3, 5, 16] if tier != "thorough" else [1, 2, 3, 4, 5, 7, 8, 16, 32]
    pper = {"quick": 1, "widen": 2, "thorough": 3}[tier]
    for D in sdepths:
        for mode in range(4):
            for _ in range(pper):
                out.append({"kind": 2, "depth": D, "pre": k % 4, "pol": mode >> 1, "phase": mode & 1,
                            "domain": "usb" if k % 5 == 4 else "sync", "seed": rng.u64(), "k": k})
                k += 1
        # multi-capture histories (spi_capture_chain_*): three captures (two for depth >= 16), each read out twice (read-out
        # and re-read; the first one often partial), the conditions broken on purpose only in the first window of a round
        for _ in range(pper):
            mode = k % 4
            out.append({"kind": 2, "depth": D, "pre": k % 4, "pol": mode >> 1, "phase": mode & 1, "multi": 1,
                        "domain": "usb" if k % 5 == 4 else "sync", "seed": rng.u64(), "k": k})
            k += 1
    # the as-coded behaviour outside the theorems' hypotheses (Props/C56SpiChain.lean, stale_window_example): a trigger accepted in
    # the first cycle of a chip-select window; compared with the model, not judged; tag p-stale-word-observed
    for mode in range(4):
        out.append({"kind": 2, "depth": 2, "pre": 1, "pol": mode >> 1, "phase": mode & 1, "stale_demo": 1,
                    "domain": "sync", "seed": rng.u64(), "k": k})
        k += 1
    # AsyncSerialILA (kind 3): UART read-out; probe widths 1 / 14 / 24 bits -> bytes_per_sample 1 / 2 / 4
    udepths = [1, 2, 3, 5] if tier != "thorough" else [1, 2, 3, 4, 5, 8]
    udivs = [1, 2, 3] if tier != "thorough" else [1, 2, 3, 5, 7]
    uper = {"quick": 1, "widen": 2, "thorough": 2}[tier]
    for D in udepths:
        for dv in udivs:
            for wi in range(3):
                for _ in range(uper):
                    out.append({"kind": 3, "depth": D, "pre": k % 4, "divisor": dv, "widths": UART_WIDTHS[wi],
                                "domain": "usb" if k % 5 == 4 else "sync", "seed": rng.u64(), "k": k})
                    k += 1
    # StreamILA with o_domain != domain (kind 4): two unrelated clocks, the AsyncFIFOBuffered in between
    cdepths = [1, 3, 40] if tier != "thorough" else [1, 2, 3, 5, 16, 17, 20, 40]
    cper = {"quick": 1, "widen": 2, "thorough": 2}[tier]
    for D in cdepths:
        for (po, ph) in CDC_CLOCKS:
            for rmode in range(3):
                for _ in range(cper):
                    out.append({"kind": 4, "depth": D, "pre": k % 4, "period_o": po, "phase_o": ph, "rmode": rmode,
                                "seed": rng.u64(), "k": k})
                    k += 1
    return out


def make_stimulus(D, p, rng, k):
    L = 6 * D + 60 + rng.range(0, 20)
    tmode = k % 4
    imode = (k // 4) % 2
    rows = []
    burst = 0
    sweep = 0
    for t in range(L):
        if tmode == 0:
            trig = int(rng.chance(max(1, 100 // (D + 6))))
        elif tmode == 1:
            trig = 1
        elif tmode == 2:
            if burst > 0:
                burst -= 1
                trig = 1
            else:
                trig = 0
                if rng.chance(8):
                    burst = rng.range(1, D + 3)
        else:
            trig = int(rng.chance(40))
        if t < 3 and rng.chance(50):
            trig = 0
        inputs = rng.bits(TOTAL) if imode == 0 else ((t * 37 + 5) & ((1 << TOTAL) - 1))
        if rng.chance(60):
            addr = sweep % D
            sweep += 1
        else:
            addr = rng.below(D)
        rows.append([trig, inputs, addr])
    return rows


def monitor(D, p, stim, rows):
    """The property on the real trace (timeline form)."""
    fails = []

    def fail(t, sig, what):
        fails.append({"cycle": t, "sig": sig, "what": "depth=%d pretrigger=%d cycle %d: %s" % (D, p, t, what)})

    mem = [0] * D            # what the analyzer must hold
    start = None             # first cycle of the capture in progress (cycle after the accepted trigger)
    complete = 0
    rd_expect = 0            # captured_sample of this cycle = location addressed in the previous cycle
    captures = 0
    ignored = 0
    read_during_write = False
    for t, (i, o) in enumerate(zip(stim, rows)):
        trig, addr = i[0] & 1, i[2]
        busy = start is not None and start <= t < start + D
        delayed = stim[t - p][1] if t - p >= 0 else 0
        want_sampling = int(busy)
        if o[0] != want_sampling:
            fail(t, "sampling-window", "sampling=%d, a capture lasts exactly %d cycles after the trigger: requires %d" % (o[0], D, want_sampling))
            break
        if o[1] != complete:
            fail(t, "complete-flag", "complete=%d requires %d" % (o[1], complete))
            break
        if o[2] != rd_expect:
            fail(t, "readback-sample", "captured_sample=%#x, sample %d (addressed in the previous cycle) is %#x"
                 % (o[2], stim[t - 1][2] if t else 0, rd_expect))
            break
        # clock edge at the end of cycle t
        rd_expect = mem[addr] if addr < D else None
        if rd_expect is None:
            rd_expect = o[2]
        if busy:
            n = t - start
            if addr == n:
                read_during_write = True
            mem[n] = delayed           # sample n = the (delayed) inputs of cycle start + n
            if trig:
                ignored += 1
            if n == D - 1:
                complete = 1
        elif trig:
            start = t + 1
            complete = 0
            captures += 1
    return fails, captures, ignored, read_during_write


def run_case(desc):
    if desc.get("kind", 0) == 1:
        return run_stream_case(desc)
    if desc.get("kind", 0) == 2:
        return run_spi_case(desc)
    if desc.get("kind", 0) == 3:
        return run_uart_case(desc)
    if desc.get("kind", 0) == 4:
        return run_cdc_case(desc)
    from amaranth import Signal
    from luna.gateware.debug.ila import IntegratedLogicAnalyzer
    D, p, dom = desc["depth"], desc["pre"], desc.get("domain", "sync")
    sigs = [Signal(w, name="probe%d" % j) for j, w in enumerate(WIDTHS)]
    dut = IntegratedLogicAnalyzer(signals=sigs, sample_depth=D, samples_pretrigger=p, domain=dom)
    stim = desc.get("stimulus") or make_stimulus(D, p, Rng(desc["seed"]), desc.get("k", 0))
    stim = [[r[0] & 1, r[1] & ((1 << TOTAL) - 1), r[2] % D] for r in stim]
    sim_rows = []
    for r in stim:
        v, fields = r[1], []
        for w in WIDTHS:
            fields.append(v & ((1 << w) - 1))
            v >>= w
        sim_rows.append([r[0]] + fields + [r[2]])
    rows = sim.run_cycles(dut, [dut.trigger] + sigs + [dut.captured_sample_number],
                          [dut.sampling, dut.complete, dut.captured_sample], sim_rows, domain=dom)
    fails, captures, ignored, rdw = monitor(D, p, stim, rows)
    tags = ["depth=%d" % D if D <= 5 else "depth>5", "pre=%d" % p, "domain=" + dom,
            "captures>=2" if captures >= 2 else "captures<2", "trigger-ignored" if ignored else "no-ignored-trigger",
            "read-during-write" if rdw else "no-read-during-write",
            "complete-seen" if any(r[1] for r in rows) else "complete-never"]
    return Case([0, D, p], stim, rows, fails, ["kind=core"] + tags, desc, ["trigger", "inputs", "captured_sample_number"],
                ["sampling", "complete", "captured_sample"])


# ---------------------------------------------------------------------------------------------------------------
# StreamILA: the captured samples read back through the stream interface
# ---------------------------------------------------------------------------------------------------------------

def make_stream_stimulus(D, p, rng, k):
    L = 9 * D + 90 + rng.range(0, 30)
    tmode = k % 4                 # trigger pattern
    rmode = (k // 4) % 5          # ready pattern
    imode = (k // 20) % 2
    rows = []
    burst = 0
    rburst, rval = 0, 1
    for t in range(L):
        if tmode == 0:
            trig = int(rng.chance(max(1, 100 // (D + 6))))
        elif tmode == 1:
            trig = 1
        elif tmode == 2:
            if burst > 0:
                burst -= 1
                trig = 1
            else:
                trig = 0
                if rng.chance(8):
                    burst = rng.range(1, D + 3)
        else:
            trig = int(rng.chance(40))
        if t < 3 and rng.chance(50):
            trig = 0
        if rmode == 0:
            ready = 1
        elif rmode == 1:
            ready = int(rng.chance(50))
        elif rmode == 2:
            ready = int(rng.chance(20))
        elif rmode == 3:
            if rburst == 0:
                rval = 1 - rval
                rburst = rng.range(1, 2 * D + 6)
            rburst -= 1
            ready = rval
        else:
            ready = int(rng.chance(85))
        inputs = rng.bits(TOTAL) if imode == 0 else ((t * 37 + 5) & ((1 << TOTAL) - 1))
        rows.append([trig, inputs, ready])
    return rows


def monitor_stream(D, p, stim, rows):
    """The property on the real StreamILA trace: the words transferred on the stream (valid & ready) between an
    accepted trigger and the next one are exactly the D consecutive (delayed) samples that followed the trigger,
    in order, once, the first one flagged `first` and the last one `last`; none before the capture is complete,
    none outside a read-out; and the read-out needs at most two ready cycles per word."""
    fails = []

    def fail(t, sig, what):
        fails.append({"cycle": t, "sig": sig, "what": "StreamILA depth=%d pretrigger=%d cycle %d: %s" % (D, p, t, what)})

    busy = False             # between an accepted trigger and the transfer of the last word
    start = None             # first cycle of the capture
    expected = []            # the samples of the capture in progress / being read out
    sent = 0
    complete = 0
    readys = 0               # ready cycles since the read-out could begin
    stats = {"captures": 0, "readouts": 0, "blocked": 0, "stalled_valid": 0, "max_sent": 0}
    for t, (i, o) in enumerate(zip(stim, rows)):
        trig, ready = i[0] & 1, i[2] & 1
        sampling, cpl, valid, payload, first, last = o
        capturing = busy and start <= t < start + D
        delayed = stim[t - p][1] if t - p >= 0 else 0
        if sampling != int(capturing):
            fail(t, "stream-sampling-window", "sampling=%d requires %d" % (sampling, int(capturing)))
            break
        if cpl != complete:
            fail(t, "stream-complete-flag", "complete=%d requires %d" % (cpl, complete))
            break
        xfer = valid and ready
        done_now = False
        if valid and not ready:
            stats["stalled_valid"] += 1
        if xfer:
            if not busy:
                fail(t, "stream-spurious-word", "word %#x transferred although no read-out is in progress" % payload)
                break
            if t < start + D:
                fail(t, "stream-word-before-complete", "word transferred while the capture is still running")
                break
            if payload != expected[sent]:
                fail(t, "stream-payload", "word %d of the read-out is %#x, the recorded sample %d is %#x"
                     % (sent, payload, sent, expected[sent]))
                break
            if first != int(sent == 0):
                fail(t, "stream-first-flag", "first=%d on word %d" % (first, sent))
                break
            if last != int(sent == D - 1):
                fail(t, "stream-last-flag", "last=%d on word %d of %d" % (last, sent, D))
                break
            sent += 1
            stats["max_sent"] = max(stats["max_sent"], sent)
            if sent == D:
                done_now = True
        if busy and t > start + D:
            readys += ready
            if sent < min(D, readys // 2):
                fail(t, "stream-progress", "%d ready cycles since the read-out began but only %d words transferred"
                     % (readys, sent))
                break
        # clock edge at the end of cycle t
        if capturing:
            expected.append(delayed)
            if t - start == D - 1:
                complete = 1
        if busy and trig:
            stats["blocked"] += 1
        if done_now:
            busy = False
            stats["readouts"] += 1
        elif not busy and trig:
            busy, start, expected, sent, complete, readys = True, t + 1, [], 0, 0, 0
            stats["captures"] += 1
    return fails, stats


def run_stream_case(desc):
    from amaranth import Signal
    from luna.gateware.debug.ila import StreamILA
    D, p, dom = desc["depth"], desc["pre"], desc.get("domain", "sync")
    sigs = [Signal(w, name="probe%d" % j) for j, w in enumerate(WIDTHS)]
    dut = StreamILA(signals=sigs, sample_depth=D, samples_pretrigger=p, domain=dom)
    stim = desc.get("stimulus") or make_stream_stimulus(D, p, Rng(desc["seed"]), desc.get("k", 0))
    stim = [[r[0] & 1, r[1] & ((1 << TOTAL) - 1), r[2] & 1] for r in stim]
    sim_rows = []
    for r in stim:
        v, fields = r[1], []
        for w in WIDTHS:
            fields.append(v & ((1 << w) - 1))
            v >>= w
        sim_rows.append([r[0]] + fields + [r[2]])
    st = dut.stream
    rows = sim.run_cycles(dut, [dut.trigger] + sigs + [st.ready],
                          [dut.sampling, dut.complete, st.valid, st.payload, st.first, st.last], sim_rows, domain=dom)
    fails, stats = monitor_stream(D, p, stim, rows)
    tags = ["kind=stream", "s-depth=%d" % D if D <= 5 else "s-depth>5", "s-pre=%d" % p, "s-domain=" + dom,
            "s-readouts>=2" if stats["readouts"] >= 2 else "s-readouts=%d" % stats["readouts"],
            "s-trigger-blocked" if stats["blocked"] else "s-no-blocked-trigger",
            "s-valid-stalled" if stats["stalled_valid"] else "s-never-stalled",
            "s-partial-readout-at-end" if 0 < stats["max_sent"] and stats["captures"] > stats["readouts"] else "s-clean-end"]
    return Case([1, D, p], stim, rows, fails, tags, desc, ["trigger", "inputs", "stream.ready"],
                ["sampling", "complete", "stream.valid", "stream.payload", "stream.first", "stream.last"])


# ---------------------------------------------------------------------------------------------------------------
# SyncSerialILA: the captured samples read back over SPI
# ---------------------------------------------------------------------------------------------------------------

def make_stale_demo(pol, phase, rng):
    """depth 2, pre-trigger 1: capture 1 (samples A0, A1), rest, then a chip-select window of two words in whose first cycle the
    trigger of capture 2 (samples B0, B1) arrives: the controller reads A0 (latched before the trigger) and B1."""
    sample_level = pol if phase else 1 - pol
    a0, a1, b0, b1 = [rng.bits(TOTAL) for _ in range(4)]
    rows = []

    def emit(n, trig=0, inp=0x111, sck=sample_level, cs=0):
        for _ in range(n):
            rows.append([trig, inp, sck, 0, cs])
    emit(3)
    emit(1, trig=1, inp=a0)
    emit(1, inp=a1)
    emit(7)
    for b in range(64):
        emit(1, trig=int(b == 0), inp=b0 if b == 0 else 0x111, sck=1 - sample_level, cs=1)
        emit(1, inp=b1 if b == 0 else 0x111, cs=1)
    emit(6)
    return rows


def make_spi_stimulus(D, p, pol, phase, rng, k, multi=0):
    """A scripted SPI controller: trigger, wait for the capture, read N words of 32 bits in one chip-select window
    (clock idle such that the first edge is the device's output edge), optionally re-read / re-capture.  Some cases
    break the environment assumptions on purpose (trigger during the read-out, chip select dropped in mid-word,
    short chip-select gap): the monitor recognises those windows from the trace and does not judge them."""
    sample_level = pol if phase else 1 - pol       # sck level after a sample edge = clock idle level for the controller
    rows = []
    st = {"sck": sample_level, "cs": 0}
    imode = k % 2

    def emit(n=1, trig=0, noise=False):
        for _ in range(n):
            t = len(rows)
            inputs = rng.bits(TOTAL) if imode == 0 else ((t * 37 + 5) & ((1 << TOTAL) - 1))
            tr = trig or (1 if noise and rng.chance(15) else 0)
            rows.append([tr, inputs, st["sck"], rng.bits(1), st["cs"]])

    def capture(noisy):
        n = rng.range(1, min(3, D + 1))
        emit(n, trig=1)                                     # trigger (possibly held); capture = the next D cycles
        emit(D + 1 - n, noise=noisy)                        # stray triggers are ignored while sampling
        emit(2 + rng.range(0, 3))                           # complete is up; the first sample reaches the SPI register

    def window(nwords, hmax, dirty):
        st["cs"] = 1
        emit(rng.range(0, 3))
        nbits = nwords * 32
        abort_at = rng.range(1, nbits - 1) if dirty == "abort" else None
        trig_at = rng.range(0, nbits - 1) if dirty == "trigger" else None
        for b in range(nbits):
            if abort_at == b:
                break
            st["sck"] = 1 - sample_level                    # output edge
            emit(rng.range(1, hmax), trig=int(trig_at == b))
            st["sck"] = sample_level                        # sample edge
            emit(rng.range(1, hmax))
        emit(rng.range(0, 2))
        st["cs"] = 0

    emit(rng.range(2, 6))
    rounds = 1 if D >= 16 else rng.range(1, 3)
    if multi:
        rounds = 2 if D >= 16 else 3
    for r in range(rounds):
        capture(noisy=rng.chance(50))
        nwin = 1 if D >= 16 else rng.range(1, 2)
        if multi:
            nwin = 2
        for w in range(nwin):
            dirty = None
            if rng.chance(25) and not (multi and w > 0):
                dirty = rng.choice(["abort", "trigger", "shortgap"])
            nwords = rng.choice([D, D, D + 1, D + 2, max(1, D - 1), max(1, D // 2)])
            if multi and w > 0:
                nwords = D
            window(nwords, 1 if rng.chance(60) else rng.range(1, 3), dirty)
            emit(rng.range(1, 3) if dirty == "shortgap" else rng.range(4, 8))
            if dirty == "trigger":
                emit(D + 6)
    emit(4)
    return rows


def monitor_spi(D, p, pol, phase, stim, rows):
    """The property on the real SyncSerialILA trace, seen from the SPI controller: in every chip-select window that
    satisfies the read-out conditions (below), the 32-bit words shifted out MSB first (sdo sampled in the cycle the
    controller drives its sampling clock edge) are the recorded samples 0, 1, 2, ... in order, for as many complete
    words as were clocked, up to `depth`.

    Conditions for a judged window (computed from the trace alone): the analyzer is idle and untouched (no capture
    running, no trigger) from 2 cycles before chip select rises (the capture completed >= 2 cycles before) until
    chip select falls; chip select was low for the 4 cycles before; the clock idles at the level that makes the
    first edge an output edge."""
    fails = []

    def fail(t, sig, what):
        fails.append({"cycle": t, "sig": sig, "what": "SyncSerialILA depth=%d pretrigger=%d mode=(%d,%d) cycle %d: %s"
                      % (D, p, pol, phase, t, what)})

    sample_level = pol if phase else 1 - pol
    L = len(stim)
    # pass 1: the analyzer's capture windows / memory contents over time + sampling / complete outputs
    mem = [0] * D
    start, complete = None, 0
    disturbed = [False] * L       # cycle t: a capture is running or a trigger is applied
    mem_at = [None] * L           # snapshot id of the memory (list) valid during cycle t
    cur = list(mem)
    captures = 0
    cap_at = [0] * L              # number of captures started up to cycle t
    for t in range(L):
        cap_at[t] = captures
        trig = stim[t][0] & 1
        busy = start is not None and start <= t < start + D
        if rows[t][0] != int(busy):
            fail(t, "spi-sampling-window", "sampling=%d requires %d" % (rows[t][0], int(busy)))
            return fails, {}
        if rows[t][1] != complete:
            fail(t, "spi-complete-flag", "complete=%d requires %d" % (rows[t][1], complete))
            return fails, {}
        disturbed[t] = busy or bool(trig)
        mem_at[t] = cur
        delayed = stim[t - p][1] if t - p >= 0 else 0
        if busy:
            cur = list(cur)
            cur[t - start] = delayed
            if t - start == D - 1:
                complete = 1
        elif trig:
            start, complete = t + 1, 0
            captures += 1
    # pass 2: chip-select windows
    stats = {"windows": 0, "judged": 0, "skipped": 0, "words": 0, "full": 0, "captures": captures, "over": 0,
             "judged_recap": 0, "judged_reread": 0, "trig_in_window": 0, "full_recap": 0}
    windows_of_capture = {}       # capture number -> chip-select windows opened since it started
    t = 0
    while t < L:
        if stim[t][4] and (t == 0 or not stim[t - 1][4]):
            rise = t
            fall = rise
            while fall < L and stim[fall][4]:
                fall += 1
            stats["windows"] += 1
            ok = rise >= 4 and fall < L
            ok = ok and not any(stim[u][4] for u in range(rise - 4, rise))
            ok = ok and not any(disturbed[u] for u in range(max(0, rise - 2), fall))
            ok = ok and stim[rise][2] == sample_level and stim[rise - 1][2] == sample_level
            ok = ok and captures > 0 and rows[rise][1] == 1
            nth_window = windows_of_capture.get(cap_at[rise], 0)
            windows_of_capture[cap_at[rise]] = nth_window + 1
            if fall < L and cap_at[fall] != cap_at[rise]:
                stats["trig_in_window"] += 1          # a trigger was accepted inside the window (not blocked by the wrapper)
            if not ok:
                stats["skipped"] += 1
            else:
                stats["judged"] += 1
                if cap_at[rise] >= 2:
                    stats["judged_recap"] += 1        # a read-out of the second / a later capture of the history
                if nth_window >= 1:
                    stats["judged_reread"] += 1       # not the first window since that capture
                expected = mem_at[rise]
                bits = []
                for u in range(rise + 1, fall):
                    if stim[u][2] == sample_level and stim[u - 1][2] != sample_level:
                        bits.append((u, rows[u][2]))
                nwords = len(bits) // 32
                if nwords > D:
                    stats["over"] += 1
                for wi in range(min(nwords, D)):
                    chunk = bits[32 * wi:32 * wi + 32]
                    val = 0
                    for (_u, b) in chunk:
                        val = (val << 1) | b
                    if val != expected[wi]:
                        fail(chunk[-1][0], "spi-word", "word %d read over SPI is %#x, the recorded sample %d is %#x"
                             % (wi, val, wi, expected[wi]))
                        return fails, stats
                    stats["words"] += 1
                if nwords >= D:
                    stats["full"] += 1
                    if cap_at[rise] >= 2:
                        stats["full_recap"] += 1
            t = fall
        else:
            t += 1
    return fails, stats


def run_spi_case(desc):
    from amaranth import Signal
    from luna.gateware.debug.ila import SyncSerialILA
    D, p, dom = desc["depth"], desc["pre"], desc.get("domain", "sync")
    pol, phase = desc["pol"], desc["phase"]
    sigs = [Signal(w, name="probe%d" % j) for j, w in enumerate(WIDTHS)]
    dut = SyncSerialILA(signals=sigs, sample_depth=D, samples_pretrigger=p, domain=dom, clock_polarity=pol,
                        clock_phase=phase)
    if desc.get("stale_demo"):
        stim = desc.get("stimulus") or make_stale_demo(pol, phase, Rng(desc["seed"]))
    else:
        stim = desc.get("stimulus") or make_spi_stimulus(D, p, pol, phase, Rng(desc["seed"]), desc.get("k", 0),
                                                         desc.get("multi", 0))
    stim = [[r[0] & 1, r[1] & ((1 << TOTAL) - 1), r[2] & 1, r[3] & 1, r[4] & 1] for r in stim]
    sim_rows = []
    for r in stim:
        v, fields = r[1], []
        for w in WIDTHS:
            fields.append(v & ((1 << w) - 1))
            v >>= w
        sim_rows.append([r[0]] + fields + [r[2], r[3], r[4]])
    spi = dut.spi
    rows = sim.run_cycles(dut, [dut.trigger] + sigs + [spi.sck, spi.sdi, spi.cs],
                          [dut.sampling, dut.complete, spi.sdo], sim_rows, domain=dom)
    fails, stats = monitor_spi(D, p, pol, phase, stim, rows)
    tags = ["kind=spi", "p-depth=%d" % D, "p-mode=%d%d" % (pol, phase), "p-domain=" + dom]
    if stats:
        tags += ["p-judged-window" if stats["judged"] else "p-no-judged-window",
                 "p-skipped-window" if stats["skipped"] else "p-no-skipped-window",
                 "p-full-readout" if stats["full"] else "p-no-full-readout",
                 "p-read-past-depth" if stats["over"] else "p-not-past-depth",
                 "p-judged-later-capture" if stats["judged_recap"] else "p-judged-first-capture-only",
                 "p-full-readout-later-capture" if stats["full_recap"] else "p-no-full-readout-later-capture",
                 "p-judged-reread" if stats["judged_reread"] else "p-no-judged-reread",
                 "p-trigger-accepted-in-window" if stats["trig_in_window"] else "p-no-trigger-in-window"]
        if desc.get("multi"):
            tags.append("p-multi-capture-case")
    if desc.get("stale_demo") and len(stim) >= 140:
        # observation, not a judgement: what the controller reads in the window that contains the accepted trigger
        sl = pol if phase else 1 - pol
        bits = [rows[u][2] for u in range(1, len(stim)) if stim[u][4] and stim[u][2] == sl and stim[u - 1][2] != sl]
        words = [int("".join(map(str, bits[32 * i:32 * i + 32])), 2) for i in range(len(bits) // 32)]
        if words[:2] == [stim[3][1], stim[13][1]]:
            tags.append("p-stale-word-observed")      # sample 0 of capture 1, then sample 1 of capture 2
        else:
            tags.append("p-stale-demo-other")
    return Case([2, D, p, dut.bits_per_word, pol, phase], stim, rows, fails, tags, desc,
                ["trigger", "inputs", "spi.sck", "spi.sdi", "spi.cs"], ["sampling", "complete", "spi.sdo"])


# ---------------------------------------------------------------------------------------------------------------
# AsyncSerialILA: the captured samples read back over a UART (StreamILA + UARTMultibyteTransmitter)
# ---------------------------------------------------------------------------------------------------------------

def make_uart_stimulus(D, p, dv, nbytes, total, rng, k):
    """Triggers in the four patterns of the other kinds (sparse / held high / bursts / random, also during capture
    and read-out) for a while, then a trigger-free tail long enough for every started read-out to be completely on
    the line."""
    word = nbytes * 10 * dv
    readout = D * word
    active = 2 * (D + 4 + readout) + rng.range(0, 40)
    tail = D + 6 + readout + 2 * word + 12
    tmode = k % 4
    imode = (k // 4) % 2
    rows = []
    burst = 0
    for t in range(active + tail):
        if t >= active:
            trig = 0
        elif tmode == 0:
            trig = int(rng.chance(max(1, 300 // (D + 6 + readout))))
        elif tmode == 1:
            trig = 1
        elif tmode == 2:
            if burst > 0:
                burst -= 1
                trig = 1
            else:
                trig = 0
                if rng.chance(4):
                    burst = rng.range(1, D + 3)
        else:
            trig = int(rng.chance(30))
        if t < 3 and rng.chance(50):
            trig = 0
        inputs = rng.bits(total) if imode == 0 else ((t * 0x9E3779B1 + 5) & ((1 << total) - 1))
        rows.append([trig, inputs])
    return rows


def decode_8n1(tx, dv):
    """An independent 8N1 receiver on the recorded line: idle high; a low cycle while idle starts a frame of 10 bit
    periods of `dv` cycles each; every cycle of a bit period must carry the same level (each bit is held for exactly
    `dv` cycles); the stop bit must be high.  Returns ([(start_cycle, byte)], framing_error or None)."""
    out = []
    t, L = 0, len(tx)
    while t < L:
        if tx[t]:
            t += 1
            continue
        if t + 10 * dv > L:
            return out, (t, "the trace ends inside a frame")
        bits = []
        for b in range(10):
            seg = tx[t + b * dv: t + (b + 1) * dv]
            if any(v != seg[0] for v in seg):
                return out, (t + b * dv, "bit %d of the frame starting in cycle %d is not held for %d cycles" % (b, t, dv))
            bits.append(seg[0])
        if bits[9] != 1:
            return out, (t + 9 * dv, "stop bit of the frame starting in cycle %d is low" % t)
        out.append((t, sum(bits[1 + j] << j for j in range(8))))
        t += 10 * dv
    return out, None


def monitor_uart(D, p, dv, nbytes, stim, rows, whole=True):
    """The property on the real AsyncSerialILA trace: the bytes an 8N1 receiver decodes from `tx` over the whole trace
    are, capture after capture, the little-endian bytes of the D consecutive (delayed) samples that followed each
    accepted trigger, in order, each once; `sampling` / `complete` as for the core.  A trigger is accepted when no
    capture / read-out is in progress; the end of a read-out (hand-over of the last word to the transmitter) is
    taken from the real gateware's internal stream handshake."""
    fails = []

    def fail(t, sig, what):
        fails.append({"cycle": t, "sig": sig, "what": "AsyncSerialILA depth=%d pretrigger=%d divisor=%d bytes=%d cycle %d: %s"
                      % (D, p, dv, nbytes, t, what)})

    busy, start, complete, handed = False, None, 0, 0
    expected = []            # all samples of all captures, in order
    accepted = []            # cycles in which a trigger was accepted, capture after capture
    stats = {"captures": 0, "readouts": 0, "blocked": 0}
    for t, (i, o) in enumerate(zip(stim, rows)):
        trig = i[0] & 1
        sampling, cpl, _tx, valid, ready, _payload = o
        capturing = busy and start <= t < start + D
        delayed = stim[t - p][1] if t - p >= 0 else 0
        if sampling != int(capturing):
            fail(t, "uart-sampling-window", "sampling=%d requires %d" % (sampling, int(capturing)))
            return fails, stats
        if cpl != complete:
            fail(t, "uart-complete-flag", "complete=%d requires %d" % (cpl, complete))
            return fails, stats
        done_now = False
        if valid and ready:
            handed += 1
            if busy and handed == D:
                done_now = True
        if capturing:
            expected.append(delayed)
            if t - start == D - 1:
                complete = 1
        if busy and trig:
            stats["blocked"] += 1
        if done_now:
            busy = False
            stats["readouts"] += 1
        elif not busy and trig:
            busy, start, complete, handed = True, t + 1, 0, 0
            accepted.append(t)
            stats["captures"] += 1
    got, err = decode_8n1([r[2] for r in rows], dv)
    if err is not None and not whole and err[1] == "the trace ends inside a frame":
        err = None           # a replay cut short at the failing cycle: only the bytes completely on the line are judged
    if err is not None:
        fail(err[0], "uart-framing", err[1])
        return fails, stats
    want = []
    for v in expected:
        want.extend((v >> (8 * j)) & 0xFF for j in range(nbytes))
    stats["bytes"] = len(got)
    for n, (t0, b) in enumerate(got):
        if n >= len(want):
            fail(t0, "uart-extra-byte", "byte %d (%#04x) on the line, but only %d bytes were captured" % (n, b, len(want)))
            return fails, stats
        if b != want[n]:
            fail(t0, "uart-byte", "byte %d on the line is %#04x; byte %d of recorded sample %d (little-endian) is %#04x"
                 % (n, b, n % nbytes, n // nbytes, want[n]))
            return fails, stats
    # duration of the read-out (Lean: uart_readout_duration, exact): a capture whose trigger is accepted in cycle a while
    # the line is quiescent (the last frame of the previous buffer has ended) shows `complete` in cycle a + D + 1, and
    # byte k of its buffer starts exactly 4 - data_valid + 10*divisor*k cycles later, back to back (data_valid = 1 only for
    # the first read-out after reset): the whole buffer is on the line 10*divisor*bytes*D + 3 - data_valid cycles after
    # the hand-over cycle.  The UART exerts no back-pressure, so nothing in the stimulus can change this.
    per = D * nbytes
    stats["timed"] = 0
    for m, a in enumerate(accepted):
        if m > 0 and ((m * per - 1) >= len(got) or got[m * per - 1][0] + 10 * dv > a):
            continue         # the transmitter was still busy with the previous buffer: no closed form checked here
        first = a + D + 5 - (1 if m == 0 else 0)
        for k in range(per):
            n = m * per + k
            if n >= len(got):
                break
            if got[n][0] != first + 10 * dv * k:
                fail(got[n][0], "uart-readout-timing", "byte %d of capture %d (trigger accepted in cycle %d, line quiescent) "
                     "starts in cycle %d; the read-out schedule requires cycle %d = hand-over cycle %d + %d + 10*%d*%d"
                     % (k, m, a, got[n][0], first + 10 * dv * k, a + D + 1, first - (a + D + 1), dv, k))
                return fails, stats
        else:
            stats["timed"] += 1
    if whole and len(got) != len(want):
        fail(len(rows) - 1, "uart-missing-bytes", "%d bytes on the line at the end of the trace, %d samples x %d bytes were "
             "captured (the trace ends with a trigger-free tail long enough for the whole read-out)"
             % (len(got), len(expected), nbytes))
    return fails, stats


def run_uart_case(desc):
    from amaranth import Signal
    from luna.gateware.debug.ila import AsyncSerialILA
    D, p, dom, dv = desc["depth"], desc["pre"], desc.get("domain", "sync"), desc["divisor"]
    widths = desc.get("widths", WIDTHS)
    total = sum(widths)
    sigs = [Signal(w, name="probe%d" % j) for j, w in enumerate(widths)]
    dut = AsyncSerialILA(signals=sigs, sample_depth=D, divisor=dv, samples_pretrigger=p, domain=dom)
    nbytes = dut.bytes_per_sample
    gen = make_uart_stimulus(D, p, dv, nbytes, total, Rng(desc["seed"]), desc.get("k", 0)) if "seed" in desc else None
    stim = desc.get("stimulus") or gen
    # the end-of-trace checks (everything captured is on the line) apply to whole traces only, not to a replay that
    # the framework cut short at the failing cycle
    whole = not desc.get("stimulus") or (gen is not None and len(stim) >= len(gen))
    stim = [[r[0] & 1, r[1] & ((1 << total) - 1)] for r in stim]
    sim_rows = []
    for r in stim:
        v, fields = r[1], []
        for w in widths:
            fields.append(v & ((1 << w) - 1))
            v >>= w
        sim_rows.append([r[0]] + fields)
    st = dut.ila.stream
    rows = sim.run_cycles(dut, [dut.trigger] + sigs,
                          [dut.sampling, dut.complete, dut.tx, st.valid, st.ready, st.payload], sim_rows, domain=dom)
    fails, stats = monitor_uart(D, p, dv, nbytes, stim, rows, whole)
    tags = ["kind=uart", "u-depth=%d" % D, "u-divisor=%d" % dv, "u-bytes=%d" % nbytes, "u-pre=%d" % p, "u-domain=" + dom,
            "u-readouts>=2" if stats["readouts"] >= 2 else "u-readouts=%d" % stats["readouts"],
            "u-trigger-blocked" if stats["blocked"] else "u-no-blocked-trigger",
            "u-timed>=2" if stats.get("timed", 0) >= 2 else "u-timed=%d" % stats.get("timed", 0)]
    return Case([3, D, p, dv, nbytes], stim, rows, fails, tags, desc, ["trigger", "inputs"],
                ["sampling", "complete", "tx", "ila.stream.valid", "ila.stream.ready", "ila.stream.payload"])


# ---------------------------------------------------------------------------------------------------------------
# StreamILA with o_domain != domain: the read-out crosses into another clock domain through an AsyncFIFOBuffered
# ---------------------------------------------------------------------------------------------------------------

CDC_PERIOD_I = 10      # ns


def make_cdc_stimulus(D, p, po, rmode, rng, k):
    """Capture-domain rows [trigger, inputs] and output-domain rows [ready].  Triggers in the four patterns for a
    while, then a trigger-free tail during which the output stream is always ready, long enough for the last read-out
    to cross the FIFO completely."""
    pi = CDC_PERIOD_I
    readout_ns = (2 * D + 12) * pi + (3 * D + 14) * po
    active = 2 * (D + 4) + 2 * (readout_ns // pi) + rng.range(0, 30)
    tail = D + 4 + readout_ns // pi + 10
    tmode = k % 4
    rows_i = []
    burst = 0
    for t in range(active + tail):
        if t >= active:
            trig = 0
        elif tmode == 0:
            trig = int(rng.chance(max(1, 300 // (D + 6 + readout_ns // pi))))
        elif tmode == 1:
            trig = 1
        elif tmode == 2:
            if burst > 0:
                burst -= 1
                trig = 1
            else:
                trig = 0
                if rng.chance(5):
                    burst = rng.range(1, D + 3)
        else:
            trig = int(rng.chance(30))
        if t < 3 and rng.chance(50):
            trig = 0
        rows_i.append([trig, rng.bits(TOTAL)])
    n_o = ((active + tail) * pi) // po
    n_active_o = (active * pi) // po
    rows_o = []
    rburst, rval = 0, 1
    for t in range(n_o):
        if t >= n_active_o:
            ready = 1
        elif rmode == 0:
            ready = 1
        elif rmode == 1:
            ready = int(rng.chance(40))
        else:
            if rburst == 0:
                rval = 1 - rval
                rburst = rng.range(1, 2 * D + 24)
            rburst -= 1
            ready = rval
        rows_o.append([ready])
    return rows_i, rows_o


def run_two_clocks(D, p, po, ph, rows_i, rows_o):
    """Simulates the real StreamILA(domain="sync", o_domain="usb") with two free-running clocks.  Returns the list of
    clock cycles of both domains in the order of the clock edges that end them:
    ("i", [trigger, inputs], (sampling, complete, w_en, w_data, w_rdy)) / ("o", [ready], (valid, payload, first, last)).
    The FIFO instance is only *observed* (its write port is where the internal stream of the wrapper is visible)."""
    from amaranth import Signal
    from amaranth.hdl import Fragment
    from amaranth.sim import Simulator
    import luna.gateware.debug.ila as ila_mod
    sigs = [Signal(w, name="probe%d" % j) for j, w in enumerate(WIDTHS)]
    dut = ila_mod.StreamILA(signals=sigs, sample_depth=D, samples_pretrigger=p, domain="sync", o_domain="usb")
    top = sim._Wrap(dut, ["sync", "usb"])
    made = []
    real = ila_mod.AsyncFIFOBuffered

    def recording(**kw):
        f = real(**kw)
        made.append(f)
        return f
    ila_mod.AsyncFIFOBuffered = recording
    try:
        frag = Fragment.get(top, None)
    finally:
        ila_mod.AsyncFIFOBuffered = real
    assert len(made) == 1, "StreamILA did not instantiate exactly one AsyncFIFOBuffered"
    fifo = made[0]
    s = Simulator(frag)
    s.add_clock(CDC_PERIOD_I * 1e-9, domain="sync")
    s.add_clock(po * 1e-9, phase=ph * 1e-9, domain="usb")
    events = []
    st = dut.stream

    async def tb_i(ctx):
        for r in rows_i:
            ctx.set(dut.trigger, r[0])
            v = r[1]
            for sg, w in zip(sigs, WIDTHS):
                ctx.set(sg, v & ((1 << w) - 1))
                v >>= w
            o = (ctx.get(dut.sampling), ctx.get(dut.complete), ctx.get(fifo.w_en), ctx.get(fifo.w_data), ctx.get(fifo.w_rdy))
            await ctx.tick("sync")
            events.append(("i", r, o))

    async def tb_o(ctx):
        for r in rows_o:
            ctx.set(st.ready, r[0])
            o = (ctx.get(st.valid), ctx.get(st.payload), ctx.get(st.first), ctx.get(st.last))
            await ctx.tick("usb")
            events.append(("o", r, o))

    s.add_testbench(tb_i)
    s.add_testbench(tb_o)
    s.run()
    return events, dut.bits_per_sample


def monitor_cdc(D, p, events, bps, whole=True):
    """The property on the real two-clock trace: the words transferred on the output stream (valid & ready in cycles of
    the output domain) are, capture after capture, the D consecutive (delayed) samples that followed each accepted
    trigger, in order, each once, `first` on sample 0 and `last` on sample D-1; `sampling` / `complete` as for the core.
    A trigger is accepted when no capture / read-out is in progress; the end of a read-out (the D-th write into the FIFO)
    is taken from the real FIFO's write port.  The trace ends with a trigger-free, always-ready tail: every captured
    sample must have come out."""
    fails = []

    def fail(t, sig, what):
        fails.append({"cycle": t, "sig": sig, "what": "StreamILA+CDC depth=%d pretrigger=%d event %d: %s" % (D, p, t, what)})

    busy, start, complete, written = False, None, 0, 0
    expected = []        # framed samples of all captures, in order
    got = 0
    ins = []             # capture-domain inputs so far
    stats = {"captures": 0, "readouts": 0, "blocked": 0, "fifo_full": 0, "out_stalled": 0, "out_words": 0}
    for n, (dom, r, o) in enumerate(events):
        if dom == "i":
            t = len(ins)
            ins.append(r[1])
            trig = r[0] & 1
            sampling, cpl, w_en, _w_data, w_rdy = o
            capturing = busy and start <= t < start + D
            delayed = ins[t - p] if t - p >= 0 else 0
            if sampling != int(capturing):
                fail(n, "cdc-sampling-window", "sampling=%d requires %d" % (sampling, int(capturing)))
                return fails, stats
            if cpl != complete:
                fail(n, "cdc-complete-flag", "complete=%d requires %d" % (cpl, complete))
                return fails, stats
            done_now = False
            if busy and not w_rdy:
                stats["fifo_full"] += 1
            if w_en and w_rdy:
                written += 1
                if busy and written == D:
                    done_now = True
            if capturing:
                k = t - start
                expected.append((delayed, int(k == 0), int(k == D - 1)))
                if k == D - 1:
                    complete = 1
            if busy and trig:
                stats["blocked"] += 1
            if done_now:
                busy = False
                stats["readouts"] += 1
            elif not busy and trig:
                busy, start, complete, written = True, t + 1, 0, 0
                stats["captures"] += 1
        else:
            valid, payload, first, last = o
            if valid and not r[0]:
                stats["out_stalled"] += 1
            if valid and r[0]:
                if got >= len(expected):
                    fail(n, "cdc-spurious-word", "word %#x on the output stream, but only %d samples have been captured"
                         % (payload, len(expected)))
                    return fails, stats
                want = expected[got]
                if payload != want[0]:
                    fail(n, "cdc-payload", "word %d on the output stream is %#x, the recorded sample is %#x" % (got, payload, want[0]))
                    return fails, stats
                if first != want[1]:
                    fail(n, "cdc-first-flag", "first=%d on word %d (sample %d of its capture)" % (first, got, got % D))
                    return fails, stats
                if last != want[2]:
                    fail(n, "cdc-last-flag", "last=%d on word %d (sample %d of %d of its capture)" % (last, got, got % D, D))
                    return fails, stats
                got += 1
    stats["out_words"] = got
    if whole and got != len(expected):
        fail(len(events) - 1, "cdc-missing-words", "%d words came out of the output stream, %d samples were captured (the trace "
             "ends with a trigger-free, always-ready tail long enough for the whole read-out)" % (got, len(expected)))
    return fails, stats


def run_cdc_case(desc):
    D, p, po, ph = desc["depth"], desc["pre"], desc["period_o"], desc["phase_o"]
    whole = True
    if desc.get("stimulus"):
        if "seed" in desc:
            gi, go = make_cdc_stimulus(D, p, po, desc.get("rmode", 0), Rng(desc["seed"]), desc.get("k", 0))
            whole = len(desc["stimulus"]) >= len(gi) + len(go)
        else:
            whole = False
        # replay: rows as piped to the model ([0, trigger, inputs, w_rdy] / [1, r_en, r_rdy, 0]); the oracle columns are
        # regenerated by the simulation, the interleaving by the clocks
        rows_i = [[r[1] & 1, r[2] & ((1 << TOTAL) - 1)] for r in desc["stimulus"] if r[0] == 0]
        rows_o = [[r[1] & 1] for r in desc["stimulus"] if r[0] != 0]
    else:
        rows_i, rows_o = make_cdc_stimulus(D, p, po, desc.get("rmode", 0), Rng(desc["seed"]), desc.get("k", 0))
    events, bps = run_two_clocks(D, p, po, ph, rows_i, rows_o)
    fails, stats = monitor_cdc(D, p, events, bps, whole)
    inputs, outputs = [], []
    for dom, r, o in events:
        if dom == "i":
            sampling, cpl, w_en, w_data, w_rdy = o
            inputs.append([0, r[0], r[1], w_rdy])
            outputs.append([sampling, cpl, w_en, (w_data >> 1) & ((1 << bps) - 1), w_data & 1, (w_data >> (bps + 1)) & 1, 1])
        else:
            valid, payload, first, last = o
            inputs.append([1, r[0], valid, 0])
            outputs.append([None, None, valid] + ([payload, first, last] if valid else [None, None, None]) + [1])
    tags = ["kind=cdc", "c-depth=%d" % D, "c-period-o=%d" % po, "c-rmode=%d" % desc.get("rmode", 0), "c-pre=%d" % p,
            "c-readouts>=2" if stats["readouts"] >= 2 else "c-readouts=%d" % stats["readouts"],
            "c-trigger-blocked" if stats["blocked"] else "c-no-blocked-trigger",
            "c-fifo-full" if stats["fifo_full"] else "c-fifo-never-full",
            "c-output-stalled" if stats["out_stalled"] else "c-output-never-stalled"]
    return Case([4, D, p], inputs, outputs, fails, tags, desc, ["domain", "trigger|r_en", "inputs|r_rdy", "w_rdy|-"],
                ["sampling", "complete", "w_en|valid", "payload", "first", "last", "queue-contract-ok"])
