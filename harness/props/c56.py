"""C56 — IntegratedLogicAnalyzer (luna/gateware/debug/ila.py)."""
from harness.common.framework import Case
from harness.common.rng import Rng
from harness.common import sim

PROP = "C56"
LEAN_MODULES = ["LunaVerif.Props.C56", "LunaVerif.Props.C56Stream"]
DRIVER = "Driver/C56.lean"
REQUIRED_THEOREMS = ["captures_depth_consecutive_samples", "readback_nth", "trigger_during_capture_ignored",
                     "pretrigger_delay", "stream_readout_exact", "stream_readout_complete",
                     "stream_readout_returns_idle"]
RULE = ("cases = (sample_depth in {1,2,5,32,100} (+3,4,7,8,16,33 thorough), samples_pretrigger 0..3, domain sync/usb, "
        "three captured signals of 1+8+5 bits) x pattern: triggers sparse / held high / bursts / random incl. during "
        "capture; inputs random every cycle or a counter; captured_sample_number sweeps and random reads, also while "
        "capturing (read of a location in the cycle it is written); kind 1 = StreamILA over the same depths / pre-trigger "
        "counts x trigger patterns (also during capture and read-out, where they are blocked) x stream.ready patterns "
        "(always / 50% / 20% / long on-off bursts / 85%), several captures and read-outs per case")
ASSUMPTIONS = ["sample_depth >= 1", "captured_sample_number < sample_depth (addresses beyond a non-power-of-two depth are not driven)",
               "StreamILA: o_domain == domain (no clock-domain-crossing FIFO between the read-out FSM and the stream)",
               "stream_readout_exact: the trigger is seen in a wrapper-idle state (WIdle: holds at reset, is kept by idle "
               "cycles and re-established by every read-out: init_WIdle, idle_step, stream_readout_returns_idle)"]
PARTIAL = ("the IntegratedLogicAnalyzer core and the StreamILA read-out (same clock domain) are modelled and proved; "
           "SyncSerialILA (SPI read-out), AsyncSerialILA (UART read-out) and StreamILA's optional AsyncFIFO to another "
           "o_domain are not covered")

WIDTHS = [1, 8, 5]
TOTAL = sum(WIDTHS)


def gen_cases(tier, rng):
    depths = [1, 2, 5, 32, 100] if tier != "thorough" else [1, 2, 3, 4, 5, 7, 8, 16, 32, 33, 100]
    per = {"quick": 5, "widen": 8, "thorough": 20}[tier]
    out = []
    k = 0
    for D in depths:
        for p in (0, 1, 2, 3):
            for _ in range(per):
                out.append({"depth": D, "pre": p, "domain": "usb" if k % 5 == 4 else "sync", "seed": rng.u64(), "k": k})
                k += 1
    # StreamILA (kind 1): the same depths / pre-trigger counts, read out through the stream
    sper = {"quick": 3, "widen": 6, "thorough": 12}[tier]
    for D in depths:
        for p in (0, 1, 2, 3):
            for _ in range(sper):
                out.append({"kind": 1, "depth": D, "pre": p, "domain": "usb" if k % 5 == 4 else "sync",
                            "seed": rng.u64(), "k": k})
                k += 1
    return out


def make_stimulus(D, p, rng, k):
    L = 6 * D + 60 + rng.range(0, 20)
    tmode = k % 4
    imode = (k // 4) % 2
    rows = []
    burst = 0
    sweep = 0
    for t in range(L):
        if tmode == 0:
            trig = int(rng.chance(max(1, 100 // (D + 6))))
        elif tmode == 1:
            trig = 1
        elif tmode == 2:
            if burst > 0:
                burst -= 1
                trig = 1
            else:
                trig = 0
                if rng.chance(8):
                    burst = rng.range(1, D + 3)
        else:
            trig = int(rng.chance(40))
        if t < 3 and rng.chance(50):
            trig = 0
        inputs = rng.bits(TOTAL) if imode == 0 else ((t * 37 + 5) & ((1 << TOTAL) - 1))
        if rng.chance(60):
            addr = sweep % D
            sweep += 1
        else:
            addr = rng.below(D)
        rows.append([trig, inputs, addr])
    return rows


def monitor(D, p, stim, rows):
    """The property on the real trace (timeline form)."""
    fails = []

    def fail(t, sig, what):
        fails.append({"cycle": t, "sig": sig, "what": "depth=%d pretrigger=%d cycle %d: %s" % (D, p, t, what)})

    mem = [0] * D            # what the analyzer must hold
    start = None             # first cycle of the capture in progress (cycle after the accepted trigger)
    complete = 0
    rd_expect = 0            # captured_sample of this cycle = location addressed in the previous cycle
    captures = 0
    ignored = 0
    read_during_write = False
    for t, (i, o) in enumerate(zip(stim, rows)):
        trig, addr = i[0] & 1, i[2]
        busy = start is not None and start <= t < start + D
        delayed = stim[t - p][1] if t - p >= 0 else 0
        want_sampling = int(busy)
        if o[0] != want_sampling:
            fail(t, "sampling-window", "sampling=%d, a capture lasts exactly %d cycles after the trigger: requires %d" % (o[0], D, want_sampling))
            break
        if o[1] != complete:
            fail(t, "complete-flag", "complete=%d requires %d" % (o[1], complete))
            break
        if o[2] != rd_expect:
            fail(t, "readback-sample", "captured_sample=%#x, sample %d (addressed in the previous cycle) is %#x"
                 % (o[2], stim[t - 1][2] if t else 0, rd_expect))
            break
        # clock edge at the end of cycle t
        rd_expect = mem[addr] if addr < D else None
        if rd_expect is None:
            rd_expect = o[2]
        if busy:
            n = t - start
            if addr == n:
                read_during_write = True
            mem[n] = delayed           # sample n = the (delayed) inputs of cycle start + n
            if trig:
                ignored += 1
            if n == D - 1:
                complete = 1
        elif trig:
            start = t + 1
            complete = 0
            captures += 1
    return fails, captures, ignored, read_during_write


def run_case(desc):
    if desc.get("kind", 0) == 1:
        return run_stream_case(desc)
    from amaranth import Signal
    from luna.gateware.debug.ila import IntegratedLogicAnalyzer
    D, p, dom = desc["depth"], desc["pre"], desc.get("domain", "sync")
    sigs = [Signal(w, name="probe%d" % j) for j, w in enumerate(WIDTHS)]
    dut = IntegratedLogicAnalyzer(signals=sigs, sample_depth=D, samples_pretrigger=p, domain=dom)
    stim = desc.get("stimulus") or make_stimulus(D, p, Rng(desc["seed"]), desc.get("k", 0))
    stim = [[r[0] & 1, r[1] & ((1 << TOTAL) - 1), r[2] % D] for r in stim]
    sim_rows = []
    for r in stim:
        v, fields = r[1], []
        for w in WIDTHS:
            fields.append(v & ((1 << w) - 1))
            v >>= w
        sim_rows.append([r[0]] + fields + [r[2]])
    rows = sim.run_cycles(dut, [dut.trigger] + sigs + [dut.captured_sample_number],
                          [dut.sampling, dut.complete, dut.captured_sample], sim_rows, domain=dom)
    fails, captures, ignored, rdw = monitor(D, p, stim, rows)
    tags = ["depth=%d" % D if D <= 5 else "depth>5", "pre=%d" % p, "domain=" + dom,
            "captures>=2" if captures >= 2 else "captures<2", "trigger-ignored" if ignored else "no-ignored-trigger",
            "read-during-write" if rdw else "no-read-during-write",
            "complete-seen" if any(r[1] for r in rows) else "complete-never"]
    return Case([0, D, p], stim, rows, fails, ["kind=core"] + tags, desc, ["trigger", "inputs", "captured_sample_number"],
                ["sampling", "complete", "captured_sample"])


# ---------------------------------------------------------------------------------------------------------------
# StreamILA: the captured samples read back through the stream interface
# ---------------------------------------------------------------------------------------------------------------

def make_stream_stimulus(D, p, rng, k):
    L = 9 * D + 90 + rng.range(0, 30)
    tmode = k % 4                 # trigger pattern
    rmode = (k // 4) % 5          # ready pattern
    imode = (k // 20) % 2
    rows = []
    burst = 0
    rburst, rval = 0, 1
    for t in range(L):
        if tmode == 0:
            trig = int(rng.chance(max(1, 100 // (D + 6))))
        elif tmode == 1:
            trig = 1
        elif tmode == 2:
            if burst > 0:
                burst -= 1
                trig = 1
            else:
                trig = 0
                if rng.chance(8):
                    burst = rng.range(1, D + 3)
        else:
            trig = int(rng.chance(40))
        if t < 3 and rng.chance(50):
            trig = 0
        if rmode == 0:
            ready = 1
        elif rmode == 1:
            ready = int(rng.chance(50))
        elif rmode == 2:
            ready = int(rng.chance(20))
        elif rmode == 3:
            if rburst == 0:
                rval = 1 - rval
                rburst = rng.range(1, 2 * D + 6)
            rburst -= 1
            ready = rval
        else:
            ready = int(rng.chance(85))
        inputs = rng.bits(TOTAL) if imode == 0 else ((t * 37 + 5) & ((1 << TOTAL) - 1))
        rows.append([trig, inputs, ready])
    return rows


def monitor_stream(D, p, stim, rows):
    """The property on the real StreamILA trace: the words transferred on the stream (valid & ready) between an
    accepted trigger and the next one are exactly the D consecutive (delayed) samples that followed the trigger,
    in order, once, the first one flagged `first` and the last one `last`; none before the capture is complete,
    none outside a read-out; and the read-out needs at most two ready cycles per word."""
    fails = []

    def fail(t, sig, what):
        fails.append({"cycle": t, "sig": sig, "what": "StreamILA depth=%d pretrigger=%d cycle %d: %s" % (D, p, t, what)})

    busy = False             # between an accepted trigger and the transfer of the last word
    start = None             # first cycle of the capture
    expected = []            # the samples of the capture in progress / being read out
    sent = 0
    complete = 0
    readys = 0               # ready cycles since the read-out could begin
    stats = {"captures": 0, "readouts": 0, "blocked": 0, "stalled_valid": 0, "max_sent": 0}
    for t, (i, o) in enumerate(zip(stim, rows)):
        trig, ready = i[0] & 1, i[2] & 1
        sampling, cpl, valid, payload, first, last = o
        capturing = busy and start <= t < start + D
        delayed = stim[t - p][1] if t - p >= 0 else 0
        if sampling != int(capturing):
            fail(t, "stream-sampling-window", "sampling=%d requires %d" % (sampling, int(capturing)))
            break
        if cpl != complete:
            fail(t, "stream-complete-flag", "complete=%d requires %d" % (cpl, complete))
            break
        xfer = valid and ready
        done_now = False
        if valid and not ready:
            stats["stalled_valid"] += 1
        if xfer:
            if not busy:
                fail(t, "stream-spurious-word", "word %#x transferred although no read-out is in progress" % payload)
                break
            if t < start + D:
                fail(t, "stream-word-before-complete", "word transferred while the capture is still running")
                break
            if payload != expected[sent]:
                fail(t, "stream-payload", "word %d of the read-out is %#x, the recorded sample %d is %#x"
                     % (sent, payload, sent, expected[sent]))
                break
            if first != int(sent == 0):
                fail(t, "stream-first-flag", "first=%d on word %d" % (first, sent))
                break
            if last != int(sent == D - 1):
                fail(t, "stream-last-flag", "last=%d on word %d of %d" % (last, sent, D))
                break
            sent += 1
            stats["max_sent"] = max(stats["max_sent"], sent)
            if sent == D:
                done_now = True
        if busy and t > start + D:
            readys += ready
            if sent < min(D, readys // 2):
                fail(t, "stream-progress", "%d ready cycles since the read-out began but only %d words transferred"
                     % (readys, sent))
                break
        # clock edge at the end of cycle t
        if capturing:
            expected.append(delayed)
            if t - start == D - 1:
                complete = 1
        if busy and trig:
            stats["blocked"] += 1
        if done_now:
            busy = False
            stats["readouts"] += 1
        elif not busy and trig:
            busy, start, expected, sent, complete, readys = True, t + 1, [], 0, 0, 0
            stats["captures"] += 1
    return fails, stats


def run_stream_case(desc):
    from amaranth import Signal
    from luna.gateware.debug.ila import StreamILA
    D, p, dom = desc["depth"], desc["pre"], desc.get("domain", "sync")
    sigs = [Signal(w, name="probe%d" % j) for j, w in enumerate(WIDTHS)]
    dut = StreamILA(signals=sigs, sample_depth=D, samples_pretrigger=p, domain=dom)
    stim = desc.get("stimulus") or make_stream_stimulus(D, p, Rng(desc["seed"]), desc.get("k", 0))
    stim = [[r[0] & 1, r[1] & ((1 << TOTAL) - 1), r[2] & 1] for r in stim]
    sim_rows = []
    for r in stim:
        v, fields = r[1], []
        for w in WIDTHS:
            fields.append(v & ((1 << w) - 1))
            v >>= w
        sim_rows.append([r[0]] + fields + [r[2]])
    st = dut.stream
    rows = sim.run_cycles(dut, [dut.trigger] + sigs + [st.ready],
                          [dut.sampling, dut.complete, st.valid, st.payload, st.first, st.last], sim_rows, domain=dom)
    fails, stats = monitor_stream(D, p, stim, rows)
    tags = ["kind=stream", "s-depth=%d" % D if D <= 5 else "s-depth>5", "s-pre=%d" % p, "s-domain=" + dom,
            "s-readouts>=2" if stats["readouts"] >= 2 else "s-readouts=%d" % stats["readouts"],
            "s-trigger-blocked" if stats["blocked"] else "s-no-blocked-trigger",
            "s-valid-stalled" if stats["stalled_valid"] else "s-never-stalled",
            "s-partial-readout-at-end" if 0 < stats["max_sent"] and stats["captures"] > stats["readouts"] else "s-clean-end"]
    return Case([1, D, p], stim, rows, fails, tags, desc, ["trigger", "inputs", "stream.ready"],
                ["sampling", "complete", "stream.valid", "stream.payload", "stream.first", "stream.last"])
