"""C40 — DataPacketReceiver good/bad reporting (luna/gateware/usb/usb3/link/data.py).

The Lean model is the gateware after the repairs of F15 / F16 / F17 / F15b (see notes/C40.md).  On a
tree without them the monitor fails with `dpr-second-verdict`, `dpr-wrong-verdict`, … (the defects)."""
from harness.common.framework import Case
from harness.common.rng import Rng
from harness.common import sim, usbref
from harness.props import sspkt_util as U

PROP = "C40"
LEAN_MODULES = ["LunaVerif.Props.C40", "LunaVerif.Lemmas.C40Header"]
DRIVER = "Driver/C40.lean"
REQUIRED_THEOREMS = ["exactly_one_verdict_per_packet", "good_iff_crcs_valid", "payload_len_exact",
                     "independent_of_invalid_words", "hinv_reachable", "check_header_units", "dpp_start_header_valid",
                     "verdict_implies_header_crcs_valid", "good_iff_crcs_valid_from_reset",
                     "good_iff_crc_valid_zero_length_from_reset"]
RULE = ("cases = word streams of data packets (header + DPP) with payload lengths 0..16, 1020..1024 and random "
        "(every residue mod 4), each either clean or with a corrupted CRC32 (1 bit / random), CRC16, CRC5, a "
        "non-DATA type, a K symbol in a payload word (first / middle / last), or no DPPSTART after the header; "
        "separated by nothing (back to back), idle words or junk; invalid words inserted with probability "
        "0 / 15 / 60 % and, in the 'sweep' cases, exactly one invalid word at every word position of a packet in "
        "turn; every case is also simulated without its invalid words and the two verdict/payload sequences are compared")
ASSUMPTIONS = ["payload length field 0..1024 (legal USB3 DPP); the word stream is the aligned, descrambled "
               "receive stream: 4 symbols per word with per-symbol ctrl flags and a valid flag"]
PARTIAL = ("independence of invalid words is a theorem inside the payload (independent_of_invalid_words) and along the header "
           "phase of a header with valid CRCs (hdr_path_stutters, Lemmas/C36RoundTripGaps.lean); for a header with a BAD CRC it "
           "does not hold as a blanket statement: CHECK_HEADER rejects without waiting for a valid word, so an invalid word "
           "after DWORD 3 decides which following word is swallowed (notes/C40.md, observation; in legal traffic that word is "
           "the rejected header's own DPPSTART, and such a header never gets a verdict: verdict_implies_header_crcs_valid)")

KINDS = [(50, "good"), (8, "crc32-bit"), (6, "crc32-rand"), (6, "crc16"), (6, "crc5"), (4, "type"),
         (5, "k-first"), (5, "k-last"), (4, "k-mid"), (4, "no-dpp"), (2, "crc32-zero")]


def gen_cases(tier, rng):
    # the DUT holds two CRC-32 networks: elaboration costs seconds and pysim runs it at a few hundred cycles/s
    n = {"quick": 30, "widen": 90}.get(tier, 200)
    out = []
    for k in range(n):
        out.append({"seed": rng.u64(), "k": k, "npk": 6 if tier == "quick" else 10, "twin": int(k % 3 == 1 or k % 6 == 3)})
    return out


def pick_length(rng, k, j):
    r = rng.below(100)
    if r < 55:
        return (k + j) % 17                       # 0..16: every residue, every small size, in rotation
    if r < 60 or (j == 2 and k % 3 == 0):
        return rng.choice([1020, 1021, 1022, 1023, 1024])
    if r < 75:
        return rng.choice([0, 1, 2, 3, 4, 5])
    return rng.range(0, 120)


def make_packet(rng, k, j):
    """-> (words [(data, ctrl)], meta) for one packet item."""
    kind = rng.weighted(KINDS)
    L = pick_length(rng, k, j)
    if kind in ("k-first", "k-last", "k-mid") and L == 0:
        kind = "good"
    payload = rng.bytes(L) if not rng.chance(5) else [rng.choice([0, 0xFF])] * L
    lcw = U.link_control_word(seq=rng.below(8), reserved=rng.choice([0, rng.below(8)]), hub_depth=rng.choice([0, rng.below(8)]),
                              delayed=0, deferred=rng.below(2))
    dw0, dw1, dw2 = U.data_header(L, addr=rng.below(128), seq=rng.below(32), ep=rng.below(16), direction=rng.below(2),
                                  eob=rng.below(2), setup=rng.below(2), route=rng.choice([0, rng.bits(20)]),
                                  stream_id=rng.choice([0, rng.bits(16)]), pp=rng.below(2))
    c16 = c5 = c32 = 0
    if kind == "crc16":
        c16 = 1 << rng.below(16)
    elif kind == "crc5":
        c5 = rng.range(1, 31)
    elif kind == "crc32-bit":
        c32 = 1 << rng.below(32)
    elif kind == "crc32-rand":
        c32 = rng.range(1, 0xFFFFFFFF)
    elif kind == "type":
        dw0 = (dw0 & ~0x1F) | rng.choice([0b00100, 0b00000, 0b01100, 0b01001, 0b11000])
    words = U.header_words(dw0, dw1, dw2, lcw, c16, c5)
    dw3 = words[4][0]
    if kind == "no-dpp":
        words.append((rng.choice([0, rng.bits(32), U.HPSTART[0] ^ 1]), rng.choice([0, 0, 0xF])))
        dpp = []
    else:
        dpp = U.dpp_words(payload, crc32_xor=c32)
        if kind == "crc32-zero":
            # replace the CRC field by zero (what an empty-CRC comparison would accept)
            syms = [(b, 0) for b in payload] + [(0, 0)] * 4 + [(U.END, 1)] * 3 + [(U.EPF, 1)]
            dpp = [U.DPPSTART] + U.pack_symbols(syms)
            if usbref.usb3_crc32(payload) == 0:
                kind = "good"
    npay = (L + 3) // 4
    kword = None
    if kind.startswith("k-"):
        kword = {"k-first": 0, "k-last": npay - 1, "k-mid": rng.below(npay)}[kind]
        lanes = min(4, L - 4 * kword)
        lane = rng.below(lanes)
        d, c = dpp[1 + kword]
        dpp[1 + kword] = (d, c | (1 << lane))
    words += dpp
    hdr_ok = kind not in ("crc16", "crc5", "type", "no-dpp")
    if not hdr_ok:
        verdict, vword = None, None
    elif kword is not None:
        verdict, vword = "bad", 6 + kword
    else:
        verdict = "good" if kind in ("good",) else "bad"
        vword = 6 + npay                      # the word holding the last CRC byte
    meta = {"kind": kind, "len": L, "payload": payload, "verdict": verdict, "vword": vword,
            "hdr": (dw0, dw1, dw2, dw3), "nwords": len(words), "kword": kword}
    return words, meta


def make_stimulus(rng, k, npk):
    """-> (rows [valid,data,ctrl], packets meta with word->row index)"""
    mode = k % 6
    gap_p = [0, 15, 60, 0, 15, 0][mode]
    sweep = mode == 3
    rows, metas = [], []
    rows.append([rng.below(2), rng.bits(32), 0])
    for j in range(npk):
        words, meta = make_packet(rng, k, j)
        # separation from the previous packet
        sep = rng.below(4)
        if sep == 1:
            rows.extend([[1, 0, 0]] * rng.range(1, 3))
        elif sep == 2:
            rows.extend([[1, rng.bits(32), rng.choice([0, 0, rng.below(16)])] for _ in range(rng.range(1, 3))])
        elif sep == 3:
            rows.extend([[0, rng.bits(32), rng.below(16)] for _ in range(rng.range(1, 4))])
        meta["start"] = len(rows)
        hole = (k // 6 + j) % (len(words)) if sweep else None    # one invalid word before word #hole
        pos = []
        for wi, (d, c) in enumerate(words):
            n_inv = 0
            if sweep and wi == hole and wi > 0:
                n_inv = rng.choice([1, 1, 2])
            elif gap_p and wi > 0:
                while rng.chance(gap_p) and n_inv < 6:
                    n_inv += 1
            for _ in range(n_inv):
                # invalid words carry confusing data: the next word, framing, random
                rows.append([0, rng.choice([d, U.HPSTART[0], U.DPPSTART[0], rng.bits(32), 0]), rng.choice([c, 0xF, 0])])
            pos.append(len(rows))
            rows.append([1, d, c])
        meta["rows"] = pos
        meta["end"] = len(rows)
        metas.append(meta)
    rows.extend([[1, 0, 0]] * 3)
    return rows, metas


def simulate(stim):
    from amaranth import Cat
    from luna.gateware.usb.usb3.link.data import DataPacketReceiver
    dut = DataPacketReceiver()
    hv = Cat(*dut.header.fields.values())
    outs = [hv[0:32], hv[32:64], hv[64:96], hv[96:128], dut.new_header, dut.source.valid, dut.source.data,
            dut.source.first, dut.source.last, dut.packet_good, dut.packet_bad]
    return sim.run_cycles(dut, [dut.sink.valid, dut.sink.data, dut.sink.ctrl], outs, stim, domain="ss")


def observed_events(rows):
    """[(kind, payload bytes since the previous verdict)] — the receiver's externally visible result."""
    ev, cur = [], []
    for r in rows:
        v, d = r[5], r[6]
        cur.extend((d >> (8 * i)) & 0xFF for i in range(4) if (v >> i) & 1)
        if r[9] or r[10]:
            ev.append(("good" if r[9] else "") + ("bad" if r[10] else ""))
            ev.append(tuple(cur))
            cur = []
    return ev


def run_case(desc):
    fails, tags = [], set()
    metas = None
    if desc.get("stimulus"):
        stim = desc["stimulus"]
    else:
        stim, metas = make_stimulus(Rng(desc["seed"]), desc.get("k", 0), desc.get("npk", 10))
    rows = simulate(stim)

    # ---- generic monitor (also for replays without meta data): parse the valid words per the framing rules
    vw = [(t, r[1] & 0xFFFFFFFF, r[2] & 0xF) for t, r in enumerate(stim) if r[0] & 1]
    expected = {}      # cycle -> verdict
    pay_expected = {}  # cycle of verdict -> payload bytes
    i = 0
    while i < len(vw):
        t, d, c = vw[i]
        if (d, c) != U.HPSTART or i + 4 >= len(vw):
            i += 1
            continue
        h = [vw[i + 1 + n][1] for n in range(4)]
        if (h[0] & 0x1F) != 0b01000:
            i += 2              # the receiver is back to waiting after DW0
            continue
        ok16 = usbref.usb3_crc16(h[:3]) == (h[3] & 0xFFFF)
        ok5 = usbref.usb3_crc5((h[3] >> 16) & 0x7FF) == (h[3] >> 27)
        if i + 5 >= len(vw):
            break
        if not (ok16 and ok5):
            # CHECK_HEADER rejects in the cycle after DW3 without looking at the word of that cycle
            i += 6 if vw[i + 5][0] == vw[i + 4][0] + 1 else 5
            continue
        if (vw[i + 5][1], vw[i + 5][2]) != U.DPPSTART:
            i += 6              # the word that should have been DPPSTART is consumed by CHECK_HEADER
            continue
        L = (h[1] >> 16) & 0x7FF
        npay = (L + 3) // 4
        j = i + 6
        payload, verdict_at, verdict = [], None, None
        for n in range(npay):
            if j + n >= len(vw):
                break
            tt, dd, cc = vw[j + n]
            lanes = min(4, L - 4 * n)
            if cc & ((1 << lanes) - 1):
                verdict_at, verdict = tt, "bad"
                payload.extend((dd >> (8 * b)) & 0xFF for b in range(lanes))
                j = j + n + 1
                break
            payload.extend((dd >> (8 * b)) & 0xFF for b in range(lanes))
        else:
            j = j + npay
            if j < len(vw):
                tt, dd, cc = vw[j]
                tail = []
                if L % 4:
                    pd = vw[j - 1][1]
                    tail = [(pd >> (8 * b)) & 0xFF for b in range(L % 4, 4)]
                crcb = tail + [(dd >> (8 * b)) & 0xFF for b in range(4 - len(tail))]
                field = sum(b << (8 * n) for n, b in enumerate(crcb))
                verdict_at, verdict = tt, ("good" if field == usbref.usb3_crc32(payload) else "bad")
                j += 1
        if verdict_at is not None:
            expected[verdict_at] = verdict
            pay_expected[verdict_at] = payload
            tags.add("len%%4=%d" % (L % 4))
            tags.add("verdict-" + verdict)
            if L == 0:
                tags.add("zlp-" + verdict)
            if L >= 1020:
                tags.add("len>=1020")
        i = j
    collected = []
    for t, r in enumerate(rows):
        good, bad = r[9], r[10]
        v, d = r[5], r[6]
        collected.extend((d >> (8 * b)) & 0xFF for b in range(4) if (v >> b) & 1)
        if v not in (0, 1, 3, 7, 15) and not fails:
            fails.append({"cycle": t, "sig": "dpr-lane-valid", "what": "cycle %d: source.valid=%x is not a low mask" % (t, v)})
        got = ("good" if good else "") + ("bad" if bad else "")
        want = expected.get(t, "")
        if got != want and not fails:
            if got and not want:
                sig = "dpr-second-verdict" if any(tt < t and t - tt < 2100 for tt in expected) else "dpr-spurious-verdict"
            elif want and not got:
                sig = "dpr-missing-verdict"
            else:
                sig = "dpr-wrong-verdict"
            fails.append({"cycle": t, "sig": sig, "what":
                          "cycle %d: packet_good=%d packet_bad=%d, but the framing and CRCs of the received words require %s"
                          % (t, good, bad, want or "no verdict here")})
        if got:
            if want and tuple(collected) != tuple(pay_expected[t]) and not fails:
                fails.append({"cycle": t, "sig": "dpr-payload", "what":
                              "cycle %d: payload stream delivered %d bytes %s…, the packet carries %d bytes %s…"
                              % (t, len(collected), collected[:8], len(pay_expected[t]), pay_expected[t][:8])})
            collected = []
    # ---- cross-check of the generic expectation against the generator's own bookkeeping
    if metas is not None:
        for m in metas:
            tags.add("kind-" + m["kind"])
            if m["verdict"] is not None:
                tv = m["rows"][m["vword"]]
                if expected.get(tv) != m["verdict"] and not fails:
                    fails.append({"cycle": tv, "sig": "dpr-harness-selfcheck", "what":
                                  "generator says %s at cycle %d for %s, word-level monitor says %s"
                                  % (m["verdict"], tv, m["kind"], expected.get(tv))})
        # ---- independence of invalid words: same words without the invalid ones
        if desc.get("twin", 1) and any(r[0] == 0 for r in stim):
            tags.add("with-invalid-words")
            twin = [r for r in stim if r[0] & 1]
            ev_a, ev_b = observed_events(rows), observed_events(simulate(twin))
            if ev_a != ev_b and not fails:
                n = next((x for x in range(min(len(ev_a), len(ev_b))) if ev_a[x] != ev_b[x]), min(len(ev_a), len(ev_b)))
                fails.append({"cycle": 0, "sig": "dpr-invalid-words-matter", "what":
                              "verdict/payload sequence differs from the same stream without its invalid words at event %d: %s vs %s"
                              % (n, str(ev_a[n:n + 2])[:200], str(ev_b[n:n + 2])[:200])})
    return Case([0], stim, rows, fails, sorted(tags), desc, ["valid", "data", "ctrl"],
                ["hdr.dw0", "hdr.dw1", "hdr.dw2", "hdr.dw3", "new_header", "source.valid", "source.data", "first",
                 "last", "packet_good", "packet_bad"])
