"""C40 — DataPacketReceiver good/bad reporting (luna/gateware/usb/usb3/link/data.py).

The Lean model is the gateware after the repairs of F15 / F16 / F17 / F15b (see notes/C40.md).  On a
tree without them the monitor fails with `dpr-second-verdict`, `dpr-wrong-verdict`, … (the defects).

One case = ONE elaborated receiver (elaboration costs ~5 s, the simulation itself ~1 k cycles/s) fed with a
long stream of packet SEQUENCES, followed on the same receiver by the same valid words without the invalid ones
(the "twin").  The word-level monitor judges every packet of the whole stream."""
from harness.common.framework import Case
from harness.common.rng import Rng
from harness.common import sim, usbref
from harness.props import sspkt_util as U

PROP = "C40"
LEAN_MODULES = ["LunaVerif.Props.C40", "LunaVerif.Lemmas.C40Header"]
DRIVER = "Driver/C40.lean"
REQUIRED_THEOREMS = ["exactly_one_verdict_per_packet", "good_iff_crcs_valid", "payload_len_exact",
                     "independent_of_invalid_words", "hinv_reachable", "check_header_units", "dpp_start_header_valid",
                     "verdict_implies_header_crcs_valid", "good_iff_crcs_valid_from_reset",
                     "good_iff_crc_valid_zero_length_from_reset"]
RULE = ("one case = one receiver instance fed with a long word stream of packet SEQUENCES (quick: 16 cases of ~3-5 k cycles). "
        "(a) pair matrix, all 468 combinations spread over every 16 cases: leader = {K symbol in the LAST payload word at every "
        "valid byte position for every length residue mod 4 (packet continued or cut right there) | payload aborted with "
        "EDB EDB EDB EPF in the last word, every residue | K symbol or abort framing in an earlier payload word, every residue | good packet, every residue | bad-CRC32 packet, every residue} x "
        "follower = {ZLP, ZLP with bad CRC32, good 1 / 2 / 3 byte packet, good 4..24 byte packet} x separation = {next HPSTART in "
        "the very next word | idle valid words | invalid words only}, optionally wrapped in further good packets; "
        "(b) random sequences of 2..6 packets, lengths 0..16 in rotation, 1020..1024, random: good | CRC32 corrupted (1 bit / "
        "random / zeroed) | CRC16 | CRC5 | non-DATA type | no DPPSTART (also with the next HPSTART directly behind the header) | "
        "K symbol in a payload word (first / middle / last, any valid lane) | abort framing mid-payload | payload shorter or "
        "longer than the length field | K flag on a CRC byte | END framing omitted; separated by nothing, idle words, junk or "
        "invalid words; (c) a sweep block: one packet shape repeated with exactly one (or two) invalid word(s) before every "
        "word position in turn; (d) one 1020..1024 byte packet per case.  Invalid words are inserted with probability "
        "0 / 15 / 50 / 30 % per word (by case).  The valid words of the whole stream are then replayed WITHOUT the invalid "
        "words on the same receiver (not reset) and the two verdict/payload sequences are compared; every packet of both "
        "passes is judged by the word-level monitor (exactly one verdict at the right word, right polarity, payload bytes)")
ASSUMPTIONS = ["payload length field 0..1024 (legal USB3 DPP); the word stream is the aligned, descrambled "
               "receive stream: 4 symbols per word with per-symbol ctrl flags and a valid flag"]
PARTIAL = ("independence of invalid words is a theorem inside the payload (independent_of_invalid_words) and along the header "
           "phase of a header with valid CRCs (hdr_path_stutters, Lemmas/C36RoundTripGaps.lean); for a header with a BAD CRC it "
           "does not hold as a blanket statement: CHECK_HEADER rejects without waiting for a valid word, so an invalid word "
           "after DWORD 3 decides which following word is swallowed (notes/C40.md, observation; in legal traffic that word is "
           "the rejected header's own DPPSTART, and such a header never gets a verdict: verdict_implies_header_crcs_valid)")

KINDS = [(38, "good"), (8, "crc32-bit"), (5, "crc32-rand"), (2, "crc32-zero"), (6, "crc16"), (6, "crc5"), (4, "type"),
         (5, "no-dpp"), (10, "k"), (6, "abort"), (3, "short"), (3, "long"), (4, "k-crc")]
NCYCLE = 16          # the pair matrix is spread over this many consecutive cases
IDLE = [1, 0, 0]


def gen_cases(tier, rng):
    # the DUT holds two CRC-32 networks: elaboration costs ~5 s per instance, so few, long cases
    n, nrand = {"quick": (16, 9), "widen": (48, 9)}.get(tier, (240, 14))
    off = rng.below(NCYCLE)
    return [{"seed": rng.u64(), "k": k, "slot": (k + off) % NCYCLE, "nrand": nrand} for k in range(n)]


# ------------------------------------------------------------------------------------------------ packets

def pick_length(rng, j):
    r = rng.below(100)
    if r < 50:
        return j % 17                             # 0..16: every residue, every small size, in rotation
    if r < 53:
        return rng.choice([1020, 1021, 1022, 1023, 1024])
    if r < 75:
        return rng.choice([0, 1, 2, 3, 4, 5])
    return rng.range(0, 120)


def make_packet(rng, spec):
    """spec: {"kind", "len", + optional "kword", "klane", "cut", "end", "bare", "actual"}
    -> (words [(data, ctrl)], meta) for one packet item."""
    kind, L = spec["kind"], spec["len"]
    if kind in ("k", "abort") and L == 0:
        kind = "good"
    npay = (L + 3) // 4
    payload = rng.bytes(L) if not rng.chance(5) else [rng.choice([0, 0xFF])] * L
    delayed = int(rng.chance(70)) if kind == "abort" else int(rng.chance(5))
    lcw = U.link_control_word(seq=rng.below(8), reserved=rng.choice([0, rng.below(8)]), hub_depth=rng.choice([0, rng.below(8)]),
                              delayed=delayed, deferred=rng.below(2))
    dw0, dw1, dw2 = U.data_header(L, addr=rng.below(128), seq=rng.below(32), ep=rng.below(16), direction=rng.below(2),
                                  eob=rng.below(2), setup=rng.below(2), route=rng.choice([0, rng.bits(20)]),
                                  stream_id=rng.choice([0, rng.bits(16)]), pp=rng.below(2))
    c16 = c5 = c32 = 0
    if kind == "crc16":
        c16 = 1 << rng.below(16)
    elif kind == "crc5":
        c5 = rng.range(1, 31)
    elif kind == "crc32-bit":
        c32 = 1 << rng.below(32)
    elif kind == "crc32-rand":
        c32 = rng.range(1, 0xFFFFFFFF)
    elif kind == "type":
        dw0 = (dw0 & ~0x1F) | rng.choice([0b00100, 0b00000, 0b01100, 0b01001, 0b11000])
    words = U.header_words(dw0, dw1, dw2, lcw, c16, c5)
    dw3 = words[4][0]
    end = spec.get("end", 1)
    bare = spec.get("bare", 0)
    swallow = None          # this item swallows the HPSTART of the next one: "strict" (only when adjacent) / "wait"
    kword = None
    verdict, vword = "bad", None
    dpp = []
    if kind == "no-dpp":
        if bare:
            swallow = "wait"          # CHECK_HEADER (CRCs fine) waits for the next valid word and consumes it
        else:
            words.append((rng.choice([0, rng.bits(32), U.HPSTART[0] ^ 1, U.DPPSTART[0]]), rng.choice([0, 0, 0xF, 0xE])))
            if words[-1] == U.DPPSTART:
                words[-1] = (U.DPPSTART[0], 0x7)
    elif kind in ("crc16", "crc5") and bare:
        swallow = "strict"            # CHECK_HEADER rejects in the cycle after DW3, whatever word that cycle carries
    elif kind == "abort":
        # the sender gives up: `kword` complete payload words, then EDB EDB EDB EPF
        kword = spec.get("kword", npay - 1)
        dpp = U.dpp_words(payload[:4 * kword], end=False)[:1 + kword] + [U.DPPABORT]
        vword = 6 + kword
    elif kind == "short":
        # fewer payload bytes than the length field says: CRC-32 and END framing arrive inside the announced payload
        P = spec.get("actual", rng.below(L)) if L else 0
        if L == 0:
            kind, verdict = "good", "good"
            dpp = U.dpp_words(payload)
        else:
            dpp = U.dpp_words(payload[:P])
            vword = 6 + ((P + 4) // 4 if L > P + 4 else (L + 3) // 4)
    elif kind == "long":
        # more payload bytes than the length field says: payload bytes L..L+3 are taken for the CRC-32
        more = payload + rng.bytes(spec.get("extra", rng.range(4, 12)))
        dpp = U.dpp_words(more)
        if sum(b << (8 * n) for n, b in enumerate(more[L:L + 4])) == usbref.usb3_crc32(payload):
            verdict = "good"
    else:
        dpp = U.dpp_words(payload, crc32_xor=c32, end=bool(end))
        if kind == "crc32-zero":
            # replace the CRC field by zero (what an empty-CRC comparison would accept)
            syms = [(b, 0) for b in payload] + [(0, 0)] * 4 + [(U.END, 1)] * 3 + [(U.EPF, 1)]
            dpp = [U.DPPSTART] + U.pack_symbols(syms)
            if usbref.usb3_crc32(payload) == 0:
                kind = "good"
        if kind == "k":
            kword = spec.get("kword", npay - 1)
            lanes = min(4, L - 4 * kword)
            lane = spec.get("klane", rng.below(lanes))
            d, c = dpp[1 + kword]
            dpp[1 + kword] = (d, c | (1 << lane))
            vword = 6 + kword
            if spec.get("cut"):
                dpp = dpp[:2 + kword]           # the packet stops right behind the word with the K symbol
        elif kind == "k-crc":
            # a K flag on a CRC byte (never on a payload byte): the gateware compares data only
            cands = [(npay, b) for b in range(4)] if L % 4 == 0 else \
                    [(npay - 1, b) for b in range(L % 4, 4)] + [(npay, b) for b in range(L % 4)]
            w, b = rng.choice(cands)
            d, c = dpp[1 + w]
            dpp[1 + w] = (d, c | (1 << b))
            verdict = "good"
        if kind == "good":
            verdict = "good"
    words += dpp
    hdr_ok = kind not in ("crc16", "crc5", "type", "no-dpp")
    if not hdr_ok:
        verdict, vword = None, None
    elif vword is None:
        vword = 6 + npay                      # the word holding the last CRC byte
    meta = {"kind": kind + ("-bare" if swallow else ""), "len": L, "payload": payload, "verdict": verdict, "vword": vword,
            "hdr": (dw0, dw1, dw2, dw3), "nwords": len(words), "kword": kword, "swallow": swallow}
    return words, meta


# ------------------------------------------------------------------------------------------------ sequences

def matrix():
    """all (leader, follower, separation) combinations of the pair matrix, in a fixed order."""
    leaders = []
    for r in (1, 2, 3, 0):
        for lane in range(r or 4):
            leaders.append(("k", r, lane))
        leaders.append(("abort", r, 0))
        leaders.append(("kmid", r, 0))
        leaders.append(("good", r, 0))
        leaders.append(("crc32-bit", r, 0))
    out = []
    for li, ld in enumerate(leaders):
        for fi, fo in enumerate(("zlp", "zlp-bad", "b1", "b2", "b3", "norm")):
            for si, sp in enumerate(("direct", "idle", "inval")):
                out.append((ld, fo, sp))
    return out


def separation(rng, how):
    """rows between two items."""
    if how == "direct":
        return []
    if how == "idle":
        return [list(IDLE) for _ in range(rng.range(1, 3))]
    if how == "junk":
        return [[1, rng.bits(32), rng.choice([0, 0, rng.below(16)])] for _ in range(rng.range(1, 3))]
    if how == "inval":
        return [[0, rng.choice([rng.bits(32), U.HPSTART[0], U.DPPSTART[0], 0]), rng.choice([0, 0xF, rng.below(16)])]
                for _ in range(rng.range(1, 4))]
    return separation(rng, "inval") + separation(rng, "idle") + separation(rng, "inval")     # "mixed"


class Stream:
    """accumulates rows [valid, data, ctrl] and the generator's own bookkeeping per packet."""

    def __init__(self, rng, gap_p):
        self.rng, self.gap_p = rng, gap_p
        self.rows, self.metas = [], []
        self.swallow = None

    def sep(self, how):
        if self.swallow:
            # the previous item consumes the next valid word: keep it the HPSTART of the next item
            how = "direct" if self.swallow == "strict" else self.rng.choice(["direct", "inval"])
        self.rows.extend(separation(self.rng, how))

    def packet(self, spec, hole=None, gaps=True):
        """append one packet; `hole` = exactly one or two invalid words before word #hole and none elsewhere."""
        rng = self.rng
        words, meta = make_packet(rng, spec)
        strict = self.swallow == "strict"
        if self.swallow:
            # its HPSTART is consumed by the previous item: the receiver never enters this packet
            meta["verdict"], meta["vword"], meta["swallow"] = None, None, None
            meta["kind"] = "swallowed"
        self.swallow = meta["swallow"]
        meta["start"] = len(self.rows)
        pos = []
        for wi, (d, c) in enumerate(words):
            n_inv = 0
            if hole is not None:
                if wi == hole and wi > 0:
                    n_inv = rng.choice([1, 1, 2])
            elif self.gap_p and gaps and (wi > 0 or not strict):
                while rng.chance(self.gap_p) and n_inv < 6:
                    n_inv += 1
            for _ in range(n_inv):
                # invalid words carry confusing data: the next word, framing, random
                self.rows.append([0, rng.choice([d, U.HPSTART[0], U.DPPSTART[0], rng.bits(32), 0]), rng.choice([c, 0xF, 0])])
            pos.append(len(self.rows))
            self.rows.append([1, d, c])
        meta["rows"] = pos
        meta["end"] = len(self.rows)
        self.metas.append(meta)
        return meta

    def close(self):
        """a bare item at the very end swallows an idle word, nothing else."""
        self.swallow = None
        self.rows.extend([list(IDLE) for _ in range(4)])


def small_good(rng):
    return {"kind": "good", "len": rng.choice([0, 1, 2, 3, 4, 5, 6, 7, 8, rng.range(0, 20)])}


def add_pair(st, rng, combo):
    (lk, r, lane), fo, sp = combo
    nb = rng.choice([0, 0, 1, 1, 2, rng.range(0, 5)])          # complete payload words in front of the last one
    L = 4 * nb + (r or 4)
    lead = {"kind": lk, "len": L}
    if lk == "kmid":
        # K symbol / abort framing in a payload word that is NOT the last one
        nb = max(nb, 1)
        L = 4 * nb + (r or 4)
        lead = {"kind": rng.choice(["k", "abort"]), "len": L, "kword": rng.below(nb), "klane": rng.below(4),
                "cut": int(sp != "idle" or rng.chance(30))}
    elif lk == "k":
        # cut: the packet stops right behind the word with the K symbol (else its CRC / END words follow)
        lead.update(kword=nb, klane=lane, cut=int(sp != "idle" or rng.chance(30)))
    elif lk == "abort":
        lead.update(kword=nb)
    else:
        # "direct" / "inval": nothing valid between the CRC word (the verdict) and the next HPSTART, so no END framing;
        # back-to-back behind END framing is what the random sequences and the wrapping packets do
        lead.update(end=int(sp == "idle"))
    foll = {"zlp": {"kind": "good", "len": 0}, "zlp-bad": {"kind": rng.choice(["crc32-bit", "crc32-rand"]), "len": 0},
            "b1": {"kind": "good", "len": 1}, "b2": {"kind": "good", "len": 2}, "b3": {"kind": "good", "len": 3},
            "norm": {"kind": "good", "len": rng.range(4, 24)}}[fo]
    st.sep(rng.choice(["direct", "idle", "inval", "mixed"]))
    if rng.chance(35):
        st.packet(small_good(rng))
        st.sep(rng.choice(["direct", "idle", "inval"]))
    st.packet(lead)
    st.sep(sp)
    st.packet(foll)
    if rng.chance(50):
        st.sep(rng.choice(["direct", "idle", "inval"]))
        st.packet(small_good(rng) if rng.chance(70) else {"kind": "good", "len": 0})


def add_random_sequence(st, rng, j0, n):
    for j in range(n):
        kind = rng.weighted(KINDS)
        L = pick_length(rng, j0 + j)
        spec = {"kind": kind, "len": L}
        npay = (L + 3) // 4
        if kind == "k" and L:
            spec.update(kword=rng.choice([0, npay - 1, npay - 1, rng.below(npay)]), cut=int(rng.chance(25)))
        elif kind == "abort" and L:
            spec.update(kword=rng.choice([0, npay - 1, rng.below(npay)]))
        elif kind in ("no-dpp", "crc16", "crc5"):
            spec.update(bare=int(rng.chance(40)))
        elif kind in ("good", "crc32-bit", "crc32-rand"):
            spec.update(end=int(not rng.chance(8)))
        st.sep(rng.choice(["direct", "direct", "idle", "junk", "inval", "mixed"]))
        st.packet(spec)


def add_sweep(st, rng, L, kind):
    """the same packet shape with one invalid word (or two) before each of its word positions in turn."""
    probe, _ = make_packet(Rng(1), {"kind": kind, "len": L})
    for hole in range(1, len(probe)):
        st.sep(rng.choice(["direct", "idle"]))
        st.packet({"kind": kind, "len": L}, hole=hole)


def make_stimulus(rng, slot, nrand):
    """-> (rows [valid,data,ctrl], packets meta with word->row index, length of the first pass)"""
    gap_p = [0, 15, 50, 30][slot % 4]
    st = Stream(rng, gap_p)
    st.rows.append([rng.below(2), rng.bits(32), 0])
    combos = [c for n, c in enumerate(matrix()) if n % NCYCLE == slot]
    parts = [("pair", c) for c in combos] + [("rand", None)] * nrand + [("sweep", None), ("big", None)]
    parts = rng.shuffle(parts)
    j = rng.below(17)
    for what, arg in parts:
        if what == "pair":
            add_pair(st, rng, arg)
        elif what == "rand":
            n = rng.range(2, 6)
            add_random_sequence(st, rng, j, n)
            j += n
        elif what == "sweep":
            add_sweep(st, rng, [0, 1, 2, 3, 4, 5, 6, 7, 8][slot % 9] if rng.chance(75) else rng.range(9, 14),
                      "good" if rng.chance(60) else "crc32-bit")
        else:
            L = 1020 + (slot + rng.below(2)) % 5
            npay = (L + 3) // 4
            kind = rng.weighted([(50, "good"), (20, "crc32-bit"), (20, "k"), (10, "abort")])
            spec = {"kind": kind, "len": L}
            if kind in ("k", "abort"):
                spec["kword"] = rng.choice([npay - 1, npay - 1, rng.below(npay)])
            st.sep(rng.choice(["direct", "idle", "inval"]))
            st.packet(spec)
            st.sep(rng.choice(["direct", "idle", "inval"]))
            st.packet({"kind": "good", "len": rng.choice([0, 0, 1, 2, 3, 7])})
    st.close()
    first = len(st.rows)
    rows = st.rows + [list(r) for r in st.rows if r[0] & 1] + [list(IDLE)] * 3
    return rows, st.metas, first


# ------------------------------------------------------------------------------------------------ simulation

def simulate(stim):
    from amaranth import Cat
    from luna.gateware.usb.usb3.link.data import DataPacketReceiver
    dut = DataPacketReceiver()
    hv = Cat(*dut.header.fields.values())
    outs = [hv[0:32], hv[32:64], hv[64:96], hv[96:128], dut.new_header, dut.source.valid, dut.source.data,
            dut.source.first, dut.source.last, dut.packet_good, dut.packet_bad]
    return sim.run_cycles(dut, [dut.sink.valid, dut.sink.data, dut.sink.ctrl], outs, stim, domain="ss")


def observed_events(rows, base=0):
    """[(cycle, kind, payload bytes since the previous verdict)] — the receiver's externally visible result."""
    ev, cur = [], []
    for t, r in enumerate(rows):
        v, d = r[5], r[6]
        cur.extend((d >> (8 * i)) & 0xFF for i in range(4) if (v >> i) & 1)
        if r[9] or r[10]:
            ev.append((base + t, ("good" if r[9] else "") + ("bad" if r[10] else ""), tuple(cur)))
            cur = []
    if cur:
        ev.append((base + len(rows), "", tuple(cur)))
    return ev


# ------------------------------------------------------------------------------------------------ the monitor

def expectation(stim):
    """The property, from the valid words alone: parse them by the framing rules, recompute all CRCs.
    -> (expected {cycle: verdict}, pay_expected {cycle: payload bytes}, tags, records per judged packet)"""
    tags = set()
    vw = [(t, r[1] & 0xFFFFFFFF, r[2] & 0xF) for t, r in enumerate(stim) if r[0] & 1]
    expected = {}      # cycle -> verdict
    pay_expected = {}  # cycle of verdict -> payload bytes
    recs = []          # (cycle of HPSTART, cycle of verdict, L, path)

    def stall(a, state):
        # invalid words in front of valid word #a: the receiver sat in `state` meanwhile
        if a < len(vw) and vw[a][0] > vw[a - 1][0] + 1:
            tags.add("stall-" + state)

    i = 0
    while i < len(vw):
        t, d, c = vw[i]
        if (d, c) != U.HPSTART or i + 4 >= len(vw):
            i += 1
            continue
        h = [vw[i + 1 + n][1] for n in range(4)]
        tags.add("st-RECEIVE_DW0")
        stall(i + 1, "RECEIVE_DW0")
        if (h[0] & 0x1F) != 0b01000:
            tags.add("exit-dw0-not-data")
            i += 2              # the receiver is back to waiting after DW0
            continue
        for n in (1, 2, 3):
            stall(i + 1 + n, "RECEIVE_DW%d" % n)
        tags.add("st-RECEIVE_DW1..3")
        ok16 = usbref.usb3_crc16(h[:3]) == (h[3] & 0xFFFF)
        ok5 = usbref.usb3_crc5((h[3] >> 16) & 0x7FF) == (h[3] >> 27)
        if i + 5 >= len(vw):
            break
        tags.add("st-CHECK_HEADER")
        if not (ok16 and ok5):
            # CHECK_HEADER rejects in the cycle after DW3 without looking at the word of that cycle
            tags.add("exit-hdr-crc16" if not ok16 else "exit-hdr-crc5")
            adjacent = vw[i + 5][0] == vw[i + 4][0] + 1
            if adjacent and (vw[i + 5][1], vw[i + 5][2]) == U.HPSTART:
                tags.add("exit-hdr-crc-swallows-hpstart")
            i += 6 if adjacent else 5
            continue
        stall(i + 5, "CHECK_HEADER")
        if (vw[i + 5][1], vw[i + 5][2]) != U.DPPSTART:
            tags.add("exit-hdr-no-dppstart")
            if (vw[i + 5][1], vw[i + 5][2]) == U.HPSTART:
                tags.add("exit-hdr-no-dppstart-swallows-hpstart")
            i += 6              # the word that should have been DPPSTART is consumed by CHECK_HEADER
            continue
        L = (h[1] >> 16) & 0x7FF
        npay = (L + 3) // 4
        j = i + 6
        payload, verdict_at, verdict, path = [], None, None, None
        if L:
            tags.add("st-RECEIVE_PAYLOAD")
        else:
            tags.add("st-CHECK_CRC32-zero-length")
        for n in range(npay):
            if j + n >= len(vw):
                break
            stall(j + n, "RECEIVE_PAYLOAD")
            tt, dd, cc = vw[j + n]
            lanes = min(4, L - 4 * n)
            if cc & ((1 << lanes) - 1):
                verdict_at, verdict = tt, "bad"
                payload.extend((dd >> (8 * b)) & 0xFF for b in range(lanes))
                low = (cc & ((1 << lanes) - 1))
                if n == npay - 1:
                    path = "klast"
                    tags.add("exit-payload-k-last-len%%4=%d-lanes=%x" % (L % 4, low))
                else:
                    path = "kmid"
                    tags.add("exit-payload-k-first" if n == 0 else "exit-payload-k-middle")
                j = j + n + 1
                break
            payload.extend((dd >> (8 * b)) & 0xFF for b in range(lanes))
        else:
            j = j + npay
            if j < len(vw):
                tags.add("st-CHECK_CRC32")
                stall(j, "CHECK_CRC32")
                tt, dd, cc = vw[j]
                tail = []
                if L % 4:
                    pd = vw[j - 1][1]
                    tail = [(pd >> (8 * b)) & 0xFF for b in range(L % 4, 4)]
                crcb = tail + [(dd >> (8 * b)) & 0xFF for b in range(4 - len(tail))]
                field = sum(b << (8 * n) for n, b in enumerate(crcb))
                verdict_at, verdict = tt, ("good" if field == usbref.usb3_crc32(payload) else "bad")
                path = verdict
                tags.add("exit-crc-%s-len%%4=%d" % (verdict, L % 4))
                j += 1
        if verdict_at is not None:
            expected[verdict_at] = verdict
            pay_expected[verdict_at] = payload
            recs.append((t, verdict_at, L, path))
            tags.add("len%%4=%d" % (L % 4))
            tags.add("verdict-" + verdict)
            if L == 0:
                tags.add("zlp-" + verdict)
            if L >= 1020:
                tags.add("len>=1020")
            if L == 1024:
                tags.add("len=1024")
        i = j
    # how the judged packets follow each other (what the receiver carries over from one packet to the next)
    valid_at = [r[0] & 1 for r in stim]
    for (t0, v0, L0, p0), (t1, v1, L1, p1) in zip(recs, recs[1:]):
        between = valid_at[v0 + 1:t1]
        how = "direct" if not between else ("inval" if not any(between) else "words")
        nxt = "zlp" if L1 == 0 else ("1-3B" if L1 < 4 else "norm")
        tags.add("seq-%s>%s" % (p0, nxt))
        if L0 % 4 and nxt == "zlp":
            tags.add("seq-%s-len%%4=%d>zlp-%s" % (p0, L0 % 4, how))
        elif how == "direct":
            tags.add("seq-%s>%s-direct" % (p0, nxt))
    return expected, pay_expected, tags, recs


def run_case(desc):
    fails, tags = [], set()
    metas, first = None, None
    if desc.get("stimulus"):
        stim = desc["stimulus"]
    else:
        stim, metas, first = make_stimulus(Rng(desc["seed"]), desc.get("slot", 0), desc.get("nrand", 9))
    rows = simulate(stim)

    # ---- generic monitor (also for replays without meta data): parse the valid words per the framing rules
    expected, pay_expected, tags, _recs = expectation(stim)
    collected = []
    last_verdict = None
    for t, r in enumerate(rows):
        good, bad = r[9], r[10]
        v, d = r[5], r[6]
        collected.extend((d >> (8 * b)) & 0xFF for b in range(4) if (v >> b) & 1)
        if v not in (0, 1, 3, 7, 15) and not fails:
            fails.append({"cycle": t, "sig": "dpr-lane-valid", "what": "cycle %d: source.valid=%x is not a low mask" % (t, v)})
        got = ("good" if good else "") + ("bad" if bad else "")
        want = expected.get(t, "")
        if got != want and not fails:
            if got and not want:
                # a verdict nobody asked for: a second one for the packet just judged, unless a new packet has begun
                second = last_verdict is not None and not any(
                    (x[0] & 1) and (x[1] & 0xFFFFFFFF, x[2] & 0xF) == U.HPSTART for x in stim[last_verdict + 1:t])
                sig = "dpr-second-verdict" if second else "dpr-spurious-verdict"
            elif want and not got:
                sig = "dpr-missing-verdict"
            else:
                sig = "dpr-wrong-verdict"
            fails.append({"cycle": t, "sig": sig, "what":
                          "cycle %d: packet_good=%d packet_bad=%d, but the framing and CRCs of the received words require %s"
                          % (t, good, bad, want or "no verdict here")})
        if got:
            last_verdict = t
            if want and tuple(collected) != tuple(pay_expected[t]) and not fails:
                fails.append({"cycle": t, "sig": "dpr-payload", "what":
                              "cycle %d: payload stream delivered %d bytes %s…, the packet carries %d bytes %s…"
                              % (t, len(collected), collected[:8], len(pay_expected[t]), pay_expected[t][:8])})
            collected = []
    if collected and metas is not None and not fails:
        fails.append({"cycle": len(rows) - 1, "sig": "dpr-payload", "what":
                      "%d payload bytes delivered after the last verdict, belonging to no packet" % len(collected)})
    # ---- cross-check of the generic expectation against the generator's own bookkeeping
    if metas is not None:
        for m in metas:
            tags.add("kind-" + m["kind"])
            inside = [t for t in expected if m["rows"][0] <= t < m["end"]]
            want = [] if m["verdict"] is None else [m["rows"][m["vword"]]]
            if (inside != want or (want and expected[want[0]] != m["verdict"])) and not fails:
                fails.append({"cycle": m["rows"][0], "sig": "dpr-harness-selfcheck", "what":
                              "generator: %s packet (length %d) at cycles %d..%d gets %s at %s; word-level monitor: %s"
                              % (m["kind"], m["len"], m["rows"][0], m["end"] - 1, m["verdict"], want,
                                 [(t, expected[t]) for t in inside])})
        # ---- independence of invalid words: the same valid words again, without the invalid ones (second pass)
        if any(r[0] == 0 for r in stim[:first]):
            tags.add("with-invalid-words")
        ev_a, ev_b = observed_events(rows[:first]), observed_events(rows[first:], first)
        if [e[1:] for e in ev_a] != [e[1:] for e in ev_b] and not fails:
            n = next((x for x in range(min(len(ev_a), len(ev_b))) if ev_a[x][1:] != ev_b[x][1:]), min(len(ev_a), len(ev_b)))
            cyc = ev_b[n][0] if n < len(ev_b) else len(rows) - 1
            fails.append({"cycle": cyc, "sig": "dpr-invalid-words-matter", "what":
                          "verdict/payload sequence differs from the same stream without its invalid words at event %d: %s vs %s"
                          % (n, str(ev_a[n:n + 1])[:200], str(ev_b[n:n + 1])[:200])})
    return Case([0], stim, rows, fails, sorted(tags), desc, ["valid", "data", "ctrl"],
                ["hdr.dw0", "hdr.dw1", "hdr.dw2", "hdr.dw3", "new_header", "source.valid", "source.data", "first",
                 "last", "packet_good", "packet_bad"])
