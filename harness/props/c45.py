"""C45 — transaction packet generator (luna/gateware/usb/usb3/protocol/transaction.py:
TransactionPacketGenerator).

The Lean model is the gateware after the repair of F20 (send_erdy -> SEND_ERDY).  On a tree without
the repair the monitor fails with sig `tp-wrong-subtype` (an ERDY request yields an NRDY packet)."""
from harness.common.framework import Case
from harness.common.rng import Rng
from harness.common import sim

PROP = "C45"
LEAN_MODULES = ["LunaVerif.Props.C45"]
DRIVER = "Driver/C45.lean"
REQUIRED_THEOREMS = ["request_yields_matching_packet", "request_yields_matching_packet_from_reset",
                     "outputs_while_pending", "stalls_then_transfer", "erdy_yields_nrdy_unrepaired"]
RULE = ("cases = request/field/queue-ready histories: single request strobes of each of the four kinds, "
        "coinciding strobes (all 16 combinations), strobes while busy, parameter fields changing in the cycle "
        "after the request, header-queue ready patterns (always, never for up to 40 cycles, random densities, "
        "ready exactly in / one cycle after the request cycle)")
ASSUMPTIONS = ["none on the requester or the header queue: any strobes, fields and ready pattern"]
PARTIAL = ""

KINDS = ["ack", "stall", "nrdy", "erdy"]
SUBTYPE = {"ack": 1, "nrdy": 2, "erdy": 3, "stall": 5}


def gen_cases(tier, rng):
    n = {"quick": 60, "widen": 240}.get(tier, 700)
    return [{"seed": rng.u64(), "k": k, "len": 400 if tier == "quick" else 800} for k in range(n)]


def make_stimulus(rng, k, L):
    mode = k % 5
    rows = []
    ready_p = [100, 50, 10, 90, 30][mode]
    stall_left = 0
    while len(rows) < L:
        strobes = [0, 0, 0, 0]
        r = rng.below(100)
        if r < 30:
            strobes[rng.below(4)] = 1
        elif r < 36:
            strobes = [rng.below(2) for _ in range(4)]
        elif r < 38:
            strobes = [1, 1, 1, 1]
        # long stalls of the header queue
        if stall_left == 0 and mode == 2 and rng.chance(3):
            stall_left = rng.range(5, 40)
        if stall_left:
            stall_left -= 1
            hs = 0
        else:
            hs = 1 if rng.chance(ready_p) else 0
        ep = rng.choice([rng.below(128), rng.below(16), 0x7F, 0x0F, 0x10, 0])
        seq = rng.choice([rng.below(32), 31, 0, 16])
        addr = rng.choice([rng.below(128), 127, 0, 64])
        rows.append([ep, rng.below(2), seq, strobes[0], strobes[1], strobes[2], strobes[3], addr, hs])
    return rows[:L]


def expected_packet(kind, addr, ep, retry, seq):
    """Transaction packet DWORDs from the USB 3.2 field layout (independent of the Lean model)."""
    dw0 = 0b00100 | ((addr & 0x7F) << 25)
    dw1 = SUBTYPE[kind] | ((ep & 0xF) << 8)
    if kind == "ack":
        dw1 |= (retry & 1) << 6 | (1 << 16) | ((seq & 0x1F) << 21)          # direction bit 7 = 0 (OUT)
    elif kind == "nrdy":
        dw1 |= 1 << 7                                                      # direction IN
    elif kind == "erdy":
        dw1 |= (1 << 7) | (1 << 16)                                        # direction IN, NumP = 1
    elif kind == "stall":
        dw1 |= 1 << 16                                                     # as the gateware sends it: NumP = 1
    return (dw0, dw1, 0, 0)


def run_case(desc):
    from amaranth import Cat
    from luna.gateware.usb.usb3.protocol.transaction import TransactionPacketGenerator
    dut = TransactionPacketGenerator()
    stim = desc.get("stimulus") or make_stimulus(Rng(desc["seed"]), desc.get("k", 0), desc.get("len", 400))
    itf, hs = dut.interface, dut.header_source
    ins = [itf.endpoint_number, itf.retry_required, itf.next_sequence, itf.send_ack, itf.send_stall,
           itf.send_nrdy, itf.send_erdy, dut.address, hs.ready]
    h = hs.header
    dw3 = Cat(h.crc16, h.sequence_number, h.dw3_reserved, h.hub_depth, h.delayed, h.deferred, h.crc5)
    outs = [itf.ready, itf.done, hs.valid, h.dw0, h.dw1, h.dw2, dw3]
    rows = sim.run_cycles(dut, ins, outs, stim, domain="ss")

    # ---- property monitor on the real trace (independent of the Lean model)
    fails = []
    tags = set()
    pending = None     # (kind, packet)
    for t, (ifr, done, valid, d0, d1, d2, d3) in enumerate(rows):
        ep, retry, seq, a, st, nr, er, addr, hsr = [int(x) for x in stim[t]]
        if fails:
            break
        if pending is None:
            if (ifr, done, valid) != (1, 0, 0):
                fails.append({"cycle": t, "sig": "tp-idle-outputs", "what":
                              "cycle %d: nothing requested/pending but ready=%d done=%d valid=%d" % (t, ifr, done, valid)})
                break
            kind = "erdy" if er else "nrdy" if nr else "stall" if st else "ack" if a else None
            if kind:
                pending = (kind, expected_packet(kind, addr, ep, retry, seq), t)
                tags.add("req-" + kind)
                if a + st + nr + er > 1:
                    tags.add("req-coinciding")
        else:
            kind, pkt, t0 = pending
            if a or st or nr or er:
                tags.add("req-while-busy")
            if not valid or ifr:
                fails.append({"cycle": t, "sig": "tp-valid-handshake", "what":
                              "cycle %d: %s requested at cycle %d is pending but valid=%d ready=%d"
                              % (t, kind.upper(), t0, valid, ifr)})
                break
            if (d1 & 0xF) != SUBTYPE[kind]:
                fails.append({"cycle": t, "sig": "tp-wrong-subtype", "what":
                              "cycle %d: %s requested at cycle %d but the header has subtype %d (dw1=0x%08x)"
                              % (t, kind.upper(), t0, d1 & 0xF, d1)})
                break
            if (d0, d1, d2, d3) != pkt:
                fails.append({"cycle": t, "sig": "tp-wrong-fields", "what":
                              "cycle %d: %s requested at cycle %d: header %s, expected %s from the fields of the "
                              "request cycle" % (t, kind.upper(), t0, [hex(x) for x in (d0, d1, d2, d3)],
                                                 [hex(x) for x in pkt])})
                break
            if done != hsr:
                fails.append({"cycle": t, "sig": "tp-done", "what":
                              "cycle %d: done=%d but header_source.ready=%d" % (t, done, hsr)})
                break
            if hsr:
                tags.add("sent-%s-after-%s" % (kind, "0" if t == t0 + 1 else "stall" if t - t0 < 6 else "long-stall"))
                pending = None
    return Case([0], stim, rows, fails, sorted(tags), desc,
                ["endpoint_number", "retry_required", "next_sequence", "send_ack", "send_stall", "send_nrdy",
                 "send_erdy", "address", "hs_ready"],
                ["if_ready", "done", "valid", "dw0", "dw1", "dw2", "dw3"])
