"""C13 — USBStreamOutEndpoint (luna/gateware/usb/usb2/endpoints/stream.py), driven standalone at its
EndpointInterface with the timing of USBDataPacketReceiver / USBInterpacketTimer."""
from harness.common.framework import Case
from harness.common.rng import Rng
from harness.common import sim

PROP = "C13"
LEAN_MODULES = ["LunaVerif.Props.C13", "LunaVerif.Lemmas.C13Host", "LunaVerif.Lemmas.C13Write", "LunaVerif.Lemmas.C13Fin",
                "LunaVerif.Props.C13Stream", "LunaVerif.Props.C13Handshake", "LunaVerif.Props.C13Space",
                "LunaVerif.Props.C13Foreign", "LunaVerif.Props.C13NoRoom"]
DRIVER = "Driver/C13.lean"
REQUIRED_THEOREMS = ["ack_implies_delivered_or_repeat_partial", "nak_iff_cannot_take_partial", "fifo_inputs_legal",
                     "overflow_sticky", "overflowed_packet_discarded", "overflowed_packet_naked",
                     "transfer_active_only_on_accept", "first_after_zlp_marked",
                     "first_after_discarded_packet_marked", "overflowed_packet_naked_then_retried",
                     # history level (Props/C13Stream.lean and its layers)
                     "detRel_step", "winv_step", "sim_step", "out_stream_exact", "out_stream_prefix",
                     "out_stream_complete_when_drained", "last_iff_short_packet_end", "first_iff_transfer_start",
                     "nak_iff_cannot_take", "ack_implies_delivered_or_repeat", "out_toggle_tracks_observer",
                     "ack_when_space", "ping_ack_promise",
                     # packets that are not for the endpoint may have any length (Props/C13Foreign.lean)
                     "legalHostStrict_imp", "legalHost_not_strict", "foreign_cycle_ignored", "foreign_cycles_ignored",
                     "foreign_transaction_ignored",
                     # a packet for the endpoint longer than the free space is NAKed (Props/C13NoRoom.lean)
                     "nak_when_no_room"]
RULE = ("cases = (max_packet_size, buffer_size) x consumer pattern x response delay x seed; a scripted host issues OUT "
        "transactions (sizes 0..max, biased to max-size packets followed by a ZLP), retries NAKed packets, repeats "
        "ACKed packets with the old toggle (lost handshake), sends CRC-corrupted packets, PINGs, traffic to other "
        "endpoints (OUT packets of 0 .. 3*max_packet_size+9 bytes, i.e. also LONGER than this endpoint's max packet "
        "size, CRC-valid or corrupted; 8-byte SETUP packets under another and under the endpoint's own number) "
        "and ClearFeature(HALT); the response request comes 1, 2, 3 or 10 cycles after rx_complete "
        "(HS / FS@12MHz / - / FS@60MHz interpacket delays); consumer: ready, stalled (buffer nearly full), random; "
        "plus `ping-edge` cases (configs + (8,15), every delay): a stalled consumer that reads exactly what the script asks, "
        "the host brings the FIFO to max_packet_size-1 / max_packet_size / max_packet_size+1 (sometimes -2 or any number of) "
        "free entries by its own count of accepted and read bytes, PINGs, and mostly follows with a max-size OUT; monitor rule "
        "out-ping-ack-without-room: a PING is not ACKed when buffer - (accepted bytes - bytes read so far) < max_packet_size")
ASSUMPTIONS = ["LegalHost (lean/LunaVerif/Lemmas/C13Host.lean, decidable acceptor Phase.step; the generated stimulus is "
               "checked against it cycle by cycle through the model driver's 7th output): in words the four items below, "
               "plus: no ClearFeature(HALT) for the endpoint inside its own OUT transaction; OUT and PING never decoded "
               "together; max_packet_size >= 1",
               "interface.rx has the shape USBDataPacketReceiver produces (exactly one of rx_complete/rx_invalid in the "
               "cycle valid falls; >= 4 cycles between packets); a data packet is no longer than max_packet_size IF the "
               "token registers name the endpoint (OUT) -- packets of all other transactions on the bus (other endpoints, "
               "SETUP, IN, PING) may have any length (lenOk; LegalHostStrict = the former hypothesis that bounded every "
               "bus packet, legalHostStrict_imp)",
               "rx_ready_for_response follows rx_complete by >= 1 cycle (USBInterpacketTimer: 1 / 2 / 10 cycles)",
               "tokenizer fields and rx_pid_toggle are stable from the data packet until the response request",
               "every transaction starts with a token addressed to the device (tokenizer.new_token strobe) before its data"]
PARTIAL = ""     # all five theorems of the design entry are proved for every LegalHost history (see notes/C13.md for the
#                  exact formulations: complete transactions; FIFO remainder through C18's queue relation)
KNOWN_SIGS = {}

EP = 2
CONFIGS = [(2, 3), (4, 7), (8, 8), (64, 127)]
DELAYS = [1, 2, 3, 10]


def gen_cases(tier, rng):
    reps = {"quick": 1, "widen": 3}.get(tier, 8)
    out = [{"mps": 4, "buffer": 7, "pattern": "f7-witness", "delay": 2, "seed": 1},
           {"mps": 4, "buffer": 7, "pattern": "overflow-witness", "delay": 10, "seed": 1}]
    for mps, buf in CONFIGS:
        for pattern in ("ready", "stall", "random"):
            for delay in DELAYS:
                for _ in range(reps if mps < 64 else 1):
                    out.append({"mps": mps, "buffer": buf, "pattern": pattern, "delay": delay, "seed": rng.u64()})
    # PING at chosen fill levels (appended after the older cases: their seeds do not move)
    for mps, buf in CONFIGS + [(8, 15)]:
        for delay in DELAYS:
            for _ in range(1 if (tier == "quick" or mps >= 64) else 3):
                out.append({"mps": mps, "buffer": buf, "pattern": "ping-edge", "delay": delay, "seed": rng.u64()})
    return out


class Host:
    """Scripted host + cycle-accurate driving of the endpoint; the endpoint's handshake is sampled in the
    response cycle, so the host reacts to the real gateware."""

    def __init__(self, dut, mps, buf, pattern, delay, rng):
        self.d, self.mps, self.buf, self.pattern, self.delay, self.rng = dut, mps, buf, pattern, delay, rng
        self.stim, self.rows = [], []
        self.ready_p = {"ready": 100, "random": rng.choice([15, 40, 75])}.get(pattern, 0)
        self.drain = 0

    def rdy(self):
        if self.pattern == "ping-edge":      # stalled consumer; reads only what the host script asks for
            if self.drain > 0:
                self.drain -= 1
                return 1
            return 0
        if self.pattern in ("stall", "overflow-witness"):
            if self.drain > 0:
                self.drain -= 1
                return 1
            if self.pattern == "stall" and self.rng.chance(2):
                self.drain = self.rng.range(1, 2 * self.buf)
            return 0
        if self.pattern == "f7-witness":
            return 1
        return int(self.rng.chance(self.ready_p))


def script(mps, buf, pattern, delay, rng):
    """Returns a list of host actions; each action is a dict interpreted by `run_script`."""
    acts = []
    if pattern == "f7-witness":
        return [{"t": "out", "n": mps}, {"t": "out", "n": 0}, {"t": "out", "n": 2}, {"t": "out", "n": 1}]
    if pattern == "overflow-witness":
        return [{"t": "out", "n": mps}, {"t": "out", "n": mps}, {"t": "out", "n": mps}, {"t": "drain"}]
    if pattern == "ping-edge":
        # bring the FIFO to a chosen amount of free space (around max_packet_size), PING, then a max-size packet
        for _ in range(rng.range(5, 9)):
            sp = rng.weighted([(4, mps - 1), (3, mps), (2, mps + 1), (1, mps - 2), (1, rng.range(0, buf))])
            acts.append({"t": "fill", "space": min(buf, max(0, sp))})
            acts.append({"t": "ping"})
            if rng.chance(60):
                acts.append({"t": "out", "n": mps, "tries": 1})
            if rng.chance(20):
                acts.append({"t": "ping"})
        return acts
    for _ in range(rng.range(8, 20)):
        k = rng.weighted([(10, "out"), (2, "corrupt"), (2, "ping"), (1, "other"), (1, "clear"), (2, "repeat"),
                          (1, "otherlong"), (1, "setup")])
        if k == "out":
            n = rng.weighted([(4, mps), (2, 0), (1, 1), (2, max(0, mps - 1)), (3, rng.range(0, mps))])
            acts.append({"t": "out", "n": n})
            if n == mps and rng.chance(50):
                acts.append({"t": "out", "n": 0})
        elif k == "corrupt":
            acts.append({"t": "out", "n": rng.range(0, mps), "corrupt": 1})
        else:
            acts.append({"t": k})
    return acts


def simulate(desc):
    from amaranth.sim import Simulator
    from luna.gateware.usb.usb2.endpoints.stream import USBStreamOutEndpoint
    mps, buf, pattern, delay = desc["mps"], desc["buffer"], desc.get("pattern", "random"), desc.get("delay", 2)
    d = USBStreamOutEndpoint(endpoint_number=EP, max_packet_size=mps, buffer_size=buf)
    itf = d.interface
    ch = itf.clear_endpoint_halt_in
    ins = [itf.rx.valid, itf.rx.next, itf.rx.payload, itf.rx_complete, itf.rx_invalid, itf.rx_ready_for_response,
           itf.rx_pid_toggle, itf.tokenizer.endpoint, itf.tokenizer.is_out, itf.tokenizer.is_ping,
           itf.tokenizer.ready_for_response, ch.enable, ch.direction, ch.number, d.stream.ready, itf.tokenizer.new_token]
    outs = [itf.handshakes_out.ack, itf.handshakes_out.nak, d.stream.valid, d.stream.payload, d.stream.first, d.stream.last]
    stim_in = desc.get("stimulus")
    stim, rows, log = [], [], []      # log: host-side record of transactions and responses

    top = sim._Wrap(d, ["usb"])
    s = Simulator(top)
    s.add_clock(1e-6, domain="usb")

    async def tb(ctx):
        async def cycle(vec):
            """vec: the 14 model-level inputs (clear-halt as one bit; new_token last, 0 when omitted)"""
            v = (list(vec) + [0])[:14]
            # clear-halt column: 0 none, 1 ClearFeature(ENDPOINT_HALT) for this OUT endpoint, 2 the same request naming
            # the IN endpoint with this number, 3 naming another OUT endpoint (2 and 3 are no clear-halt for the model)
            full = v[:11] + [int(v[11] != 0), int(v[11] == 2), (EP + 1) % 16 if v[11] == 3 else EP] + [v[12], v[13]]
            for sig, x in zip(ins, full):
                ctx.set(sig, x)
            r = tuple(int(ctx.get(o)) for o in outs)
            stim.append(v)
            rows.append(r)
            if stim_in is None and r[2] and v[12]:
                cnt["rd"] += 1
            await ctx.tick("usb")
            return r

        if stim_in is not None:                      # replay: the recorded cycle inputs
            for v in stim_in:
                await cycle(v)
            return

        rng = Rng(desc["seed"])
        h = Host(d, mps, buf, pattern, delay, rng)
        host_toggle = 0
        seq = rng.below(256)
        tok = [EP, 1, 0]           # tokenizer endpoint, is_out, is_ping (held between tokens)
        pid = [0]

        def foreign_clear():
            return rng.weighted([(40, 0), (1, 2), (1, 3)])

        async def idle(n, **kw):
            for _ in range(n):
                await cycle([0, 0, 0, 0, 0, kw.get("rxr", 0), pid[0], tok[0], tok[1], tok[2], kw.get("tokr", 0),
                             kw.get("clr", foreign_clear()), h.rdy(), kw.get("new", 0)])

        async def data_packet(payload, ok, dly):
            dense = rng.chance(40)
            for _ in range(rng.range(0, 2)):
                await cycle([1, 0, rng.below(256), 0, 0, 0, pid[0], tok[0], tok[1], tok[2], 0, 0, h.rdy()])
            for b in payload:
                for _ in range(0 if dense else rng.weighted([(5, 0), (2, 1), (1, 3)])):
                    await cycle([1, 0, rng.below(256), 0, 0, 0, pid[0], tok[0], tok[1], tok[2], 0, 0, h.rdy()])
                await cycle([1, 1, b, 0, 0, 0, pid[0], tok[0], tok[1], tok[2], 0, 0, h.rdy()])
            for _ in range(rng.range(1, 2)):       # RECEIVE_AND_EMIT holds valid for >= 1 cycle after the CRC bytes
                await cycle([1, 0, rng.below(256), 0, 0, 0, pid[0], tok[0], tok[1], tok[2], 0, 0, h.rdy()])
            await cycle([0, 0, 0, int(ok), int(not ok), 0, pid[0], tok[0], tok[1], tok[2], 0, 0, h.rdy()])
            if not ok:
                await idle(4)
                return None
            await idle(dly - 1)
            r = await cycle([0, 0, 0, 0, 0, 1, pid[0], tok[0], tok[1], tok[2], 0, 0, h.rdy()])
            await idle(rng.range(3, 6))
            return r

        last_acked = None
        cnt = {"acc": 0, "rd": 0}      # host bookkeeping: payload bytes of newly accepted packets / bytes read by the consumer

        async def do_out(a):
            nonlocal host_toggle, seq, last_acked
            payload = [(seq + 13 * j) & 0xFF for j in range(a["n"])]
            seq = (seq + 57) & 0xFF
            tries = 0
            while True:
                tok[:] = [EP, 1, 0]
                pid[0] = host_toggle
                await idle(1, new=1)
                await idle(rng.range(1, 3))
                r = await data_packet(payload, not a.get("corrupt"), delay)
                if r is None:
                    log.append({"k": "corrupt", "payload": payload, "at": len(stim)})
                    break
                ack, nak = r[0], r[1]
                log.append({"k": "out", "payload": payload, "toggle": host_toggle, "ack": ack, "nak": nak,
                            "at": len(stim), "delay": delay})
                if ack:
                    host_toggle ^= 1
                    last_acked = payload
                    cnt["acc"] += len(payload)
                    break
                tries += 1
                if tries > 6:
                    h.drain = 2 * buf         # let the consumer make room, then try again
                if tries > a.get("tries", 12):
                    break
                await idle(rng.range(4, 12))

        acts = script(mps, buf, pattern, delay, rng)
        qi = 0
        while qi < len(acts) and len(stim) < 6000:
            a = acts[qi]
            qi += 1
            await idle(rng.range(3, 6))
            if a["t"] == "drain":
                h.drain = 3 * buf
                await idle(3 * buf)
            elif a["t"] == "out":
                await do_out(a)
            elif a["t"] == "fill":
                # bring the FIFO to exactly a["space"] free entries: accepted bytes - bytes read, by the host's own count
                target = buf - a["space"]
                guard = 0
                while cnt["acc"] - cnt["rd"] != target and guard < 8 and len(stim) < 6000:
                    guard += 1
                    fill = cnt["acc"] - cnt["rd"]
                    if fill > target:
                        k = fill - target
                        for _ in range(4 * buf + 8):
                            r = await cycle([0, 0, 0, 0, 0, 0, pid[0], tok[0], tok[1], tok[2], 0, 0, 1])
                            k -= r[2]
                            if k == 0:
                                break
                        await idle(2)
                    else:
                        await do_out({"t": "out", "n": min(mps, target - fill), "tries": 1})
                        await idle(rng.range(3, 6))
            elif a["t"] == "repeat" and last_acked is not None:
                # the host missed our ACK: same data, previous toggle
                tok[:] = [EP, 1, 0]
                pid[0] = host_toggle ^ 1
                await idle(1, new=1)
                await idle(rng.range(1, 3))
                r = await data_packet(last_acked, True, delay)
                log.append({"k": "repeat", "payload": last_acked, "ack": r[0], "nak": r[1], "at": len(stim)})
            elif a["t"] == "ping":
                tok[:] = [EP, 0, 1]
                await idle(1, new=1)
                await idle(rng.range(1, 3))
                r = await cycle([0, 0, 0, 0, 0, 0, pid[0], tok[0], tok[1], tok[2], 1, 0, h.rdy()])
                log.append({"k": "ping", "ack": r[0], "nak": r[1], "at": len(stim)})
            elif a["t"] == "other":
                tok[:] = [(EP + 1 + rng.below(14)) % 16 or 1, 1, 0]
                if tok[0] == EP:
                    tok[0] = EP + 1
                pid[0] = rng.below(2)
                await idle(1, new=1)
                await idle(rng.range(1, 3))
                r = await data_packet([rng.below(256) for _ in range(rng.range(0, mps))], True, delay)
                log.append({"k": "other", "ack": r[0], "nak": r[1], "at": len(stim)})
            elif a["t"] == "otherlong":
                # an OUT transaction for another endpoint whose packet is LONGER than this endpoint's max packet size
                # (e.g. a 64-byte endpoint next to a 4-byte one); CRC-valid or corrupted
                tok[:] = [(EP + 1 + rng.below(14)) % 16 or 1, 1, 0]
                if tok[0] == EP:
                    tok[0] = EP + 1
                pid[0] = rng.below(2)
                await idle(1, new=1)
                await idle(rng.range(1, 3))
                n = rng.choice([mps + 1, mps + 2, 2 * mps, 2 * mps + 1, 3 * mps + 9, rng.range(mps + 1, 3 * mps + 9)])
                r = await data_packet([rng.below(256) for _ in range(n)], rng.chance(80), delay)
                log.append({"k": "otherlong", "n": n, "ack": r[0] if r else 0, "nak": r[1] if r else 0, "at": len(stim)})
            elif a["t"] == "setup":
                # the 8-byte DATA0 packet of a SETUP transaction (token registers: neither OUT nor PING), for endpoint 0 or
                # -- a control endpoint with this number -- under the endpoint's own number
                tok[:] = [rng.choice([0, 0, EP]), 0, 0]
                pid[0] = 0
                await idle(1, new=1)
                await idle(rng.range(1, 3))
                r = await data_packet([rng.below(256) for _ in range(8)], rng.chance(85), delay)
                log.append({"k": "setup", "ep": tok[0], "ack": r[0] if r else 0, "nak": r[1] if r else 0, "at": len(stim)})
            elif a["t"] == "clear":
                await idle(1, clr=1)
                host_toggle = 0
                log.append({"k": "clear", "at": len(stim)})
        h.pattern = "f7-witness"     # drain: always ready
        await idle(buf + 8)

    s.add_testbench(tb)
    s.run()
    return mps, buf, stim, rows, log


def derive_log(stim, rows, mps):
    """Host-side record derived from the cycle trace alone (used for replays and as the monitor's input):
    data packets for this endpoint with their response."""
    log, cur, prev_valid, pend = [], [], 0, None
    for t, (v, r) in enumerate(zip(stim, rows)):
        valid, nxt, payload, cok, cbad, rxr, pid, ep, io, ping, tokr, clr, rdy = v[:13]
        if valid and nxt:
            cur.append(payload)
        if cok or cbad:            # the packet ends with its strobe (in the cycle valid falls)
            if cok and not cbad:
                pend = {"payload": cur, "pid": pid, "ep": ep, "io": io, "complete_at": t}
            else:
                log.append({"corrupt": 1, "payload": cur, "pid": pid, "ep": ep, "io": io, "at": t})
            cur = []
        if rxr and pend is not None:
            pend.update({"ack": r[0], "nak": r[1], "at": t, "delay": t - pend["complete_at"]})
            log.append(pend)
            pend = None
        if tokr:
            log.append({"ping": 1, "ep": ep, "isping": ping, "ack": r[0], "nak": r[1], "at": t})
        if clr == 1:
            log.append({"clear": 1, "at": t})
    return log


def monitor(mps, buf, stim, rows):
    fails, tags = [], set()
    log = derive_log(stim, rows, mps)
    # --- handshakes only in response cycles of transactions addressed to us
    for t, (v, r) in enumerate(zip(stim, rows)):
        addressed = (v[7] == EP) and ((v[8] and v[5]) or (v[9] and v[10]))
        if (r[0] or r[1]) and not addressed:
            fails.append({"cycle": t, "sig": "out-unsolicited-handshake", "what":
                          "ack=%d nak=%d at cycle %d without a response request addressed to endpoint %d" % (r[0], r[1], t, EP)})
            return fails, tags
        if r[0] and r[1]:
            fails.append({"cycle": t, "sig": "out-ack-and-nak", "what": "ack and nak together at cycle %d" % t})
            return fails, tags
    # --- expected consumer stream: payloads of newly accepted packets, with transfer marks
    expected = []           # (byte, first, last, packet-index-in-log, delay)
    toggle = 0
    transfer_open = False
    prev_zlp_end = False
    dirty = False      # a non-empty packet with the expected toggle was written and then discarded since the last accepted one
    accepted = 0       # payload bytes of the packets accepted so far (ACK with the expected toggle)
    reads, n_rd = [], 0    # reads[t] = bytes the consumer has taken in cycles 0..t
    for v, r in zip(stim, rows):
        n_rd += int(bool(r[2] and v[12]))
        reads.append(n_rd)
    ping_fails = []
    for k, e in enumerate(log):
        if e.get("clear"):
            toggle = 0
            continue
        if e.get("ping"):
            if e["ep"] == EP and e["isping"]:
                tags.add("ping ack" if e["ack"] else "ping nak")
                # free entries by the host's own count, taken as LARGE as the trace allows: every byte read up to and
                # including this cycle is counted as freed, a packet still being received or awaiting its response is
                # not counted at all.  If even that is less than a whole packet, the PING must not be ACKed.
                room = buf - (accepted - reads[e["at"]])
                if room in (mps - 1, mps, mps + 1):
                    tags.add("ping with max_packet_size%+d free" % (room - mps) if room != mps else "ping with max_packet_size free")
                if e["ack"] and room < mps:
                    ping_fails.append({"cycle": e["at"], "sig": "out-ping-ack-without-room", "what":
                                       "PING for endpoint %d ACKed at cycle %d although at most %d of %d buffer entries are free "
                                       "(%d bytes of accepted packets, %d read by the consumer): a max-size packet of %d bytes "
                                       "cannot be taken" % (EP, e["at"], room, buf, accepted, reads[e["at"]], mps)})
            continue
        if e["ep"] != EP or not e["io"]:
            if len(e["payload"]) > mps:
                tags.add("foreign packet longer than mps" + (" (corrupted)" if e.get("corrupt") else "") +
                         (" under own number" if e["ep"] == EP else ""))
            continue
        if e.get("corrupt"):
            if e["pid"] == toggle and e["payload"]:
                dirty = True
            continue
        if not (e["ack"] or e["nak"]):
            fails.append({"cycle": e["at"], "sig": "out-no-response", "what": "no handshake for a CRC-valid OUT data packet"})
            return fails, tags
        if e["pid"] != toggle:
            tags.add("toggle repeat")
            if not e["ack"]:
                fails.append({"cycle": e["at"], "sig": "out-repeat-not-acked", "what":
                              "a retransmission with the previous data toggle was answered with NAK"})
                return fails, tags
            continue
        if e["nak"]:
            tags.add("nak")
            if e["payload"]:
                dirty = True
            continue
        toggle ^= 1
        n = len(e["payload"])
        accepted += n
        tags.add("ack zlp" if n == 0 else "ack max" if n == mps else "ack short")
        for j, b in enumerate(e["payload"]):
            first = int(j == 0 and not transfer_open)
            last = int(j == n - 1 and n < mps)
            expected.append((b, first, last, k, e["delay"], prev_zlp_end and j == 0, dirty and j == 0))
        if n:
            dirty = False
        # transfer_active of the gateware changes only on a non-empty packet: a transfer ended by a ZLP leaves it set
        prev_zlp_end = (n == 0 and (transfer_open or prev_zlp_end))
        transfer_open = (n == mps)
    transfers = [(t, r[3], r[4], r[5]) for t, (v, r) in enumerate(zip(stim, rows)) if r[2] and v[12]]
    drained = not rows[-1][2]
    seen = set()

    def add(f):
        if f["sig"] not in seen:
            seen.add(f["sig"])
            fails.append(f)

    ei = 0
    resynced = False      # an ACKed packet was (partly) written and discarded: transfer_active may have followed it
    for idx, (t, data, first, last) in enumerate(transfers):
        # an ACKed packet that was discarded (known site: long response delay): drop it from the expectation and go on
        while ei < len(expected) and expected[ei][0] != data and expected[ei][4] >= 3:
            b, f, l, k, dly = expected[ei][:5]
            add({"cycle": t, "sig": "out-acked-packet-discarded", "what":
                 "stream byte #%d is %d, but the next byte of the ACKed packets is %d (packet %s, response delay %d cycles "
                 "after rx_complete): an ACKed packet was not delivered" % (idx, data, b, log[k]["payload"], dly)})
            while ei < len(expected) and expected[ei][3] == k:
                ei += 1
            resynced = True
        if ei >= len(expected):
            add({"cycle": t, "sig": "out-extra-data", "what":
                 "the stream delivers byte %d at cycle %d beyond the payloads of all ACKed packets" % (data, t)})
            return fails, tags
        b, f, l, k, dly, after_zlp, after_discard = expected[ei]
        ei += 1
        if data != b:
            add({"cycle": t, "sig": "out-stream-mismatch", "what":
                 "stream byte #%d is %d, but the next byte of the ACKed packets is %d (packet %s, response delay %d)"
                 % (idx, data, b, log[k]["payload"], dly)})
            return fails, tags
        if first != f:
            sig = ("out-first-missing-after-zlp" if (after_zlp and f == 1 and first == 0) else
                   "out-first-wrong-after-discarded-packet" if (after_discard or resynced) else "out-first-mark")
            add({"cycle": t, "sig": sig, "what":
                 "stream byte #%d (%d): first=%d, but it %s a transfer%s%s" % (
                     idx, data, first, "starts" if f else "does not start",
                     " (previous transfer ended with max-size packet + ZLP)" if after_zlp else "",
                     " (a corrupted or NAKed packet was written and discarded just before)" if after_discard else "")})
            if sig == "out-first-mark":
                return fails, tags
        elif f == 1:
            resynced = False
        if last != l:
            add({"cycle": t, "sig": "out-last-mark", "what":
                 "stream byte #%d (%d): last=%d, required %d (last marks exactly the final byte of a short packet)"
                 % (idx, data, last, l)})
            return fails, tags
    if drained and ei < len(expected):
        b, f, l, k, dly = expected[ei][:5]
        sig = "out-acked-packet-discarded" if dly >= 3 else "out-stream-mismatch"
        add({"cycle": len(rows) - 1, "sig": sig, "what":
             "the stream ended after %d bytes, but ACKed packet %s (response delay %d) was never delivered"
             % (len(transfers), log[k]["payload"], dly)})
    if not fails:      # the host's count of the fill level is only meaningful when the ACKed packets really were delivered
        fails.extend(ping_fails[:1])
    return fails, tags


def run_case(desc):
    mps, buf, stim, rows, _ = simulate(desc)
    fails, tags = monitor(mps, buf, stim, rows)
    tags = sorted(tags) + ["mps=%d buffer=%d" % (mps, buf), "pattern=" + desc.get("pattern", "replay"),
                           "delay=%s" % desc.get("delay")]
    # 7th compared column: the Lean acceptor of `LegalHost` (hypothesis of the history-level theorems) accepts the
    # history up to this cycle -- the generated stimulus is inside the theorems' quantifier (not compared for
    # replays of foreign stimuli)
    legal = None if desc.get("stimulus") is not None else 1
    rows = [list(r) + [legal] for r in rows]
    return Case([EP, mps, buf], stim, rows, fails, tags, desc,
                ["rx_valid", "rx_next", "rx_payload", "rx_complete", "rx_invalid", "rx_ready_for_response", "rx_pid_toggle",
                 "tok_endpoint", "tok_is_out", "tok_is_ping", "tok_ready_for_response", "clear_halt", "ready", "tok_new_token"],
                ["ack", "nak", "valid", "payload", "first", "last", "legal_host_prefix"])
