"""C48 — SuperSpeed setup decoder (usb3/application/request.py: SuperSpeedSetupDecoder) and
GET_DESCRIPTOR handler (usb3/application/descriptor.py: GetDescriptorHandler, built on the 32-bit
ConstantStreamGenerator of stream/generator.py)."""
from harness.common.framework import Case
from harness.common.rng import Rng
from harness.common import sim

PROP = "C48"
LEAN_MODULES = ["LunaVerif.Props.C48", "LunaVerif.Props.C48Desc", "LunaVerif.Props.C48Live"]
DRIVER = "Driver/C48.lean"
REQUIRED_THEOREMS = ["ss_setup_reported_iff", "ss_setup_fields_exact", "ss_descriptor_prefix",
                     "ss_descriptor_complete", "ss_unknown_stalls", "ss_descriptor_finishes",
                     "ss_descriptor_delivers_all", "ss_descriptor_framing", "ss_descriptor_framing_complete"]
RULE = ("setup decoder: scripts of data packets (setup flag, 0..16 payload bytes with 4/8/12 emphasised, word gaps, "
        "aborted packets, verdict orderings good / bad / good-then-bad / bad-then-good) + unstructured random cycles "
        "(co-simulation only); descriptor handler: random descriptor collections (1..7 descriptors, lengths around "
        "word boundaries, one collection from the usb_protocol emitters), request scripts with known/unknown "
        "wValue, wLength around 0, the descriptor length, word boundaries and 0xFFFF, tx.ready patterns; plus "
        "unstructured start/value/length changes (co-simulation only)")
ASSUMPTIONS = [
    "setup decoder: the receive path delivers each data packet as words with first on the first word, last on the "
    "last, all four bytes valid on every word but the last, no verdict strobe before the last word of a packet "
    "except rx_bad (abort), and at least one verdict strobe (rx_good or rx_bad) after every packet before the "
    "next packet starts; the verdict of a packet is the first strobe after it",
    "descriptor handler: wValue / wLength are held from the start strobe until the response has been taken; start is "
    "a one-cycle strobe given while the handler is quiescent (all generators idle, tx register empty); "
    "descriptors are non-empty and shorter than 65536 bytes, (type, index) keys are distinct",
]
PARTIAL = ""

LENS = [1, 2, 3, 4, 5, 6, 7, 8, 9, 11, 12, 13, 15, 16, 17, 18, 20, 31, 32, 33, 63, 64, 65]


# ------------------------------------------------------------------------------------------ cases
def gen_cases(tier, rng):
    n = {"quick": 100, "widen": 300}.get(tier, 600)
    out = []
    for k in range(n):
        out.append({"dut": "setup", "mode": "wild" if k % 6 == 5 else "script", "seed": rng.u64(), "k": k})
    for k in range(n):
        out.append({"dut": "desc", "mode": "wild" if k % 6 == 5 else "script", "seed": rng.u64(), "k": k})
    return out


# ------------------------------------------------------------------------------------------ setup decoder
def _junk(rng, setup):
    """a cycle without a word and without a verdict strobe (first/last/data are don't-care)"""
    return [0, rng.below(2), rng.below(2), rng.bits(32), 0, 0, setup]


def make_setup_script(rng, k):
    """Returns (rows, packets).  packets: dicts with setup, bytes, aborted, verdict_cycle, good."""
    rows = []
    pkts = []
    npk = rng.range(4, 14)
    for _ in range(npk):
        setup = 1 if rng.chance(80) else 0
        nbytes = rng.weighted([(40, 8), (12, 4), (10, 12), (4, 5), (4, 6), (4, 7), (3, 0), (3, 1), (3, 2), (3, 3),
                               (3, 9), (3, 10), (3, 11), (3, 16), (2, 20)])
        data = rng.bytes(nbytes)
        if rng.chance(15):
            data = [rng.choice([0, 0xFF, 0x80, 0x01]) for _ in range(nbytes)]
        words = [data[i:i + 4] for i in range(0, nbytes, 4)]
        aborted = bool(words) and rng.chance(10)
        nsend = rng.range(1, len(words)) if aborted else len(words)
        if aborted and nsend == len(words):
            nsend -= 1          # an aborted packet never shows its last word
        for _g in range(rng.weighted([(5, 0), (3, 1), (2, 3)])):
            rows.append(_junk(rng, setup))
        for wi, w in enumerate(words[:nsend]):
            v = (1 << len(w)) - 1
            d = sum(b << (8 * j) for j, b in enumerate(w))
            if len(w) < 4:
                d |= rng.bits(32) & ~((1 << (8 * len(w))) - 1) & 0xFFFFFFFF     # junk in the invalid lanes
            rows.append([v, int(wi == 0), int(wi == len(words) - 1), d, 0, 0, setup])
            if wi != nsend - 1:
                for _g in range(rng.weighted([(8, 0), (1, 1), (1, 2)])):
                    rows.append(_junk(rng, setup))
        for _g in range(rng.weighted([(6, 0), (2, 1), (2, 3)])):
            rows.append(_junk(rng, setup))
        if aborted:
            order = "B"
        else:
            order = rng.weighted([(50, "G"), (20, "B"), (15, "GB"), (15, "BG")])
        vc = len(rows)
        for j, ch in enumerate(order):
            r = _junk(rng, setup)
            r[4] = int(ch == "G")
            r[5] = int(ch == "B")
            rows.append(r)
            if j + 1 < len(order):
                for _g in range(rng.below(3)):
                    rows.append(_junk(rng, setup))
        pkts.append({"setup": setup, "bytes": data, "aborted": aborted, "verdict_cycle": vc, "good": order[0] == "G"})
    for _ in range(4):
        rows.append(_junk(rng, 0))
    return rows, pkts


def make_setup_wild(rng):
    rows = []
    for _ in range(rng.range(100, 300)):
        v = rng.weighted([(50, 15), (25, 0), (5, 1), (5, 3), (5, 7), (10, rng.below(16))])
        rows.append([v, int(rng.chance(40)), int(rng.chance(40)), rng.bits(32), int(rng.chance(15)),
                     int(rng.chance(10)), int(rng.chance(80))])
    return rows


def le16(b, i):
    return b[i] | (b[i + 1] << 8)


def run_setup(desc):
    from luna.gateware.usb.usb3.application.request import SuperSpeedSetupDecoder
    rng = Rng(desc["seed"])
    pkts = None
    if desc["mode"] == "wild":
        stim = make_setup_wild(rng)
    else:
        stim, pkts = make_setup_script(rng, desc.get("k", 0))
    if desc.get("stimulus"):
        # replay: the (possibly truncated) recorded stimulus; the packet script is regenerated from the seed
        # and only used when the recorded stimulus is a prefix of what the seed generates
        given = [list(r) for r in desc["stimulus"]]
        if given != stim[:len(given)]:
            pkts = desc.get("packets")
        stim = given
    dut = SuperSpeedSetupDecoder()
    p = dut.packet
    ins = [dut.sink.valid, dut.sink.first, dut.sink.last, dut.sink.payload, dut.rx_good, dut.rx_bad,
           dut.header_in.setup]
    outs = [p.received, p.recipient, p.type, p.is_in_request, p.request, p.value, p.index, p.length]
    rows = sim.run_cycles(dut, ins, outs, stim, domain="ss")
    fails = []
    tags = ["setup:" + desc["mode"]]
    if pkts is not None:
        expect = {}     # cycle -> fields
        for pk in pkts:
            b = pk["bytes"]
            tags.append("setup:len=%d" % len(b) if len(b) in (0, 4, 8, 12) else "setup:len=other")
            if pk["aborted"]:
                tags.append("setup:aborted")
            if pk["setup"] and len(b) == 8 and not pk["aborted"] and pk["good"]:
                c = pk["verdict_cycle"] + 1
                expect[c] = (b[0] & 31, (b[0] >> 5) & 3, b[0] >> 7, b[1], le16(b, 2), le16(b, 4), le16(b, 6))
                tags.append("setup:reported")
        for t, r in enumerate(rows):
            if t >= len(stim):
                break
            if r[0] and t not in expect:
                fails.append({"cycle": t, "sig": "ss-setup-spurious", "what":
                              "received strobed at cycle %d although no good 8-byte setup data packet ended there "
                              "(fields %s)" % (t, list(r[1:]))})
                break
            if t in expect and not r[0]:
                fails.append({"cycle": t, "sig": "ss-setup-missed", "what":
                              "good 8-byte setup data packet (verdict at cycle %d) was not reported" % (t - 1)})
                break
            if t in expect and tuple(r[1:]) != expect[t]:
                fails.append({"cycle": t, "sig": "ss-setup-fields", "what":
                              "reported fields %s differ from the little-endian decoding %s of the payload"
                              % (list(r[1:]), list(expect[t]))})
                break
    return Case([0], stim, rows, fails, tags, desc,
                ["valid", "first", "last", "data", "rx_good", "rx_bad", "setup"],
                ["received", "recipient", "type", "is_in", "request", "value", "index", "length"])


# ------------------------------------------------------------------------------------------ descriptor handler
def make_collection(rng, k):
    """Returns [(type, index, bytes)] with distinct keys."""
    if k % 10 == 3:
        return None       # the emitter-built collection
    n = rng.range(1, 7)
    keys = set()
    out = []
    while len(out) < n:
        t, i = rng.range(1, 15), rng.range(0, 3)
        if (t, i) in keys or (t, i) == (3, 0):
            continue
        keys.add((t, i))
        ln = rng.choice(LENS) if rng.chance(80) else rng.range(1, 90)
        out.append((t, i, rng.bytes(ln)))
    return out


def emitter_collection():
    from usb_protocol.emitters import DeviceDescriptorCollection
    d = DeviceDescriptorCollection()
    with d.DeviceDescriptor() as dd:
        dd.idVendor = 0x16d0
        dd.idProduct = 0xf3b
        dd.iManufacturer = "LUNA"
        dd.iProduct = "Test Device"
        dd.iSerialNumber = "1234"
        dd.bNumConfigurations = 1
    with d.ConfigurationDescriptor() as cd:
        with cd.InterfaceDescriptor() as i:
            i.bInterfaceNumber = 0
            with i.EndpointDescriptor() as e:
                e.bEndpointAddress = 0x01
                e.wMaxPacketSize = 64
            with i.EndpointDescriptor() as e:
                e.bEndpointAddress = 0x81
                e.wMaxPacketSize = 64
    return d


def build_collection(spec):
    from usb_protocol.emitters import DeviceDescriptorCollection
    if spec is None:
        return emitter_collection()
    d = DeviceDescriptorCollection(automatic_language_descriptor=False)
    for t, i, b in spec:
        d.add_descriptor(bytes(b), index=i, descriptor_type=t)
    return d


def ready_pattern(rng):
    kind = rng.weighted([(3, "all"), (3, "rand"), (2, "burst"), (1, "slow")])
    if kind == "all":
        return lambda: 1
    if kind == "rand":
        p = rng.choice([20, 50, 80])
        return lambda: int(rng.chance(p))
    if kind == "slow":
        return lambda: int(rng.chance(8))
    st = {"n": 0, "v": 1}

    def burst():
        if st["n"] == 0:
            st["v"] ^= 1
            st["n"] = rng.range(1, 6)
        st["n"] -= 1
        return st["v"]
    return burst


def make_desc_script(rng, table):
    """table: {key: bytes}.  Returns (rows, requests); rows = [value, length, start, ready]."""
    rows, reqs = [], []
    keys = sorted(table)
    for _ in range(rng.range(3, 9)):
        known = rng.chance(75)
        if known:
            key = rng.choice(keys)
            ln = len(table[key])
        else:
            while True:
                key = rng.choice([rng.bits(16), rng.choice(keys) ^ (1 << rng.below(16)), 0, 0xFFFF])
                if key not in table:
                    break
            ln = 8
        wl = rng.weighted([(3, 0), (10, ln), (6, ln - 1), (6, ln + 1), (5, 0xFFFF), (5, 255), (4, 256), (4, 64),
                           (12, rng.range(1, ln + 6)), (4, (ln // 4) * 4), (3, (ln // 4) * 4 + 4), (3, rng.bits(16))])
        wl = max(0, min(0xFFFF, wl))
        rdy = ready_pattern(rng)
        # idle cycles with the request already presented
        for _g in range(rng.below(3)):
            rows.append([key, wl, 0, rdy()])
        reqs.append({"cycle": len(rows), "key": key, "wlength": wl})
        rows.append([key, wl, 1, rdy()])
        nwords = (min(wl, ln) + 3) // 4 if known else 0
        need = nwords + 3
        cap = 0
        while need > 0 and cap < 4000:
            r = rdy()
            rows.append([key, wl, 0, r])
            need -= r
            cap += 1
        # flush with ready cycles so that the next request starts from a quiescent handler
        for _g in range(3):
            rows.append([key, wl, 0, 1])
    return rows, reqs


def make_desc_wild(rng, table):
    rows = []
    keys = sorted(table)
    key, wl = rng.choice(keys), rng.range(0, 40)
    for _ in range(rng.range(150, 400)):
        if rng.chance(6):
            key = rng.choice(keys) if rng.chance(85) else rng.bits(16)
        if rng.chance(6):
            wl = rng.choice([0, 1, 3, 4, 5, 8, 9, 16, 17, 64, 0xFFFF, rng.range(0, 100)])
        rows.append([key, wl, int(rng.chance(12)), int(rng.chance(70))])
    return rows


def run_desc(desc):
    from luna.gateware.usb.usb3.application.descriptor import GetDescriptorHandler
    rng = Rng(desc["seed"])
    spec = desc["collection"] if "collection" in desc else make_collection(rng, desc.get("k", 0))
    coll = build_collection(spec)
    seen = [(int(t), int(i), bytes(raw)) for t, i, raw in coll]      # what the gateware iterates over
    table = {(t << 8) | i: list(raw) for t, i, raw in seen}
    reqs = None
    if desc["mode"] == "wild":
        stim = make_desc_wild(rng, table)
    else:
        stim, reqs = make_desc_script(rng, table)
    ncycles = len(stim)
    if desc.get("stimulus"):
        given = [list(r) for r in desc["stimulus"]]
        if given != stim[:len(given)]:
            reqs = desc.get("requests")
            ncycles = desc.get("ncycles", len(given))
        stim = given
    desc = dict(desc, collection=spec)
    if reqs is not None:
        desc["requests"] = reqs
        desc["ncycles"] = ncycles
    dut = GetDescriptorHandler(coll)
    ins = [dut.value, dut.length, dut.start, dut.tx.ready]
    outs = [dut.tx.valid, dut.tx.first, dut.tx.last, dut.tx.payload, dut.tx_length, dut.stall]
    rows = sim.run_cycles(dut, ins, outs, stim, domain="ss")
    cfg = [1, len(seen)]
    for t, i, raw in seen:
        cfg += [(t << 8) | i, len(raw)] + list(raw)
    fails = []
    tags = ["desc:" + desc["mode"], "desc:n=%d" % len(seen)]
    if reqs is not None:
        bounds = [r["cycle"] for r in reqs] + [desc["ncycles"]]
        for ri, rq in enumerate(reqs):
            lo, hi = bounds[ri], bounds[ri + 1]
            complete = hi <= len(stim)          # a truncated replay may cut the last window short
            hi = min(hi, len(stim))
            key, wl = rq["key"], rq["wlength"]
            known = key in table
            want = table[key][:wl] if known else []
            wlen = min(wl, len(table[key])) if known else None
            tags.append("desc:known" if known else "desc:unknown")
            if known:
                ln = len(table[key])
                tags.append("desc:wl=0" if wl == 0 else "desc:wl<len" if wl < ln else "desc:wl=len" if wl == ln else "desc:wl>len")
                tags.append("desc:len%%4=%d" % (ln % 4))
            got = []
            nword = 0
            f = None
            for t in range(lo, hi):
                v, first, last, data, txlen, stall = rows[t]
                start = stim[t][2]
                if stall != int((not known) and start):
                    f = {"cycle": t, "sig": "ss-desc-stall-missing" if not stall else "ss-desc-stall-spurious", "what":
                         "stall=%d at cycle %d for wValue=0x%04x (%s descriptor, start=%d)"
                         % (stall, t, key, "known" if known else "unknown", start)}
                    break
                if v:
                    if not known:
                        f = {"cycle": t, "sig": "ss-desc-unknown-data", "what":
                             "data offered for the unknown descriptor 0x%04x" % key}
                        break
                    if txlen != wlen:
                        f = {"cycle": t, "sig": "ss-desc-length", "what":
                             "tx_length=%d while the response to wValue=0x%04x wLength=%d must be %d bytes"
                             % (txlen, key, wl, wlen)}
                        break
                    if v not in (1, 3, 7, 15):
                        f = {"cycle": t, "sig": "ss-desc-framing", "what": "valid mask %s is not a byte prefix" % bin(v)}
                        break
                    if stim[t][3]:
                        nb = bin(v).count("1")
                        got += [(data >> (8 * j)) & 0xFF for j in range(nb)]
                        if got != want[:len(got)]:
                            f = {"cycle": t, "sig": "ss-desc-bytes", "what":
                                 "GET_DESCRIPTOR wValue=0x%04x wLength=%d delivered %s, which is not a prefix of "
                                 "the required %s" % (key, wl, got, want)}
                            break
                        done = len(got) >= len(want)
                        if first != int(nword == 0) or last != int(done) or (not done and v != 15):
                            f = {"cycle": t, "sig": "ss-desc-framing", "what":
                                 "word %d of the response: first=%d last=%d valid=%s (response %d bytes, %d so far)"
                                 % (nword, first, last, bin(v), len(want), len(got))}
                            break
                        nword += 1
            if f is None and complete and got != want:
                f = {"cycle": hi - 1, "sig": "ss-desc-bytes", "what":
                     "GET_DESCRIPTOR wValue=0x%04x wLength=%d delivered %s, required the first %d bytes %s"
                     % (key, wl, got, len(want), want)}
            if f:
                fails.append(f)
                break
    return Case(cfg, stim, rows, fails, tags, desc, ["value", "length", "start", "tx_ready"],
                ["tx_valid", "tx_first", "tx_last", "tx_payload", "tx_length", "stall"])


def run_case(desc):
    if desc["dut"] == "setup":
        return run_setup(desc)
    return run_desc(desc)
