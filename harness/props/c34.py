"""C34 — word alignment: RxWordAligner / RxPacketAligner (luna/gateware/usb/usb3/physical/alignment.py)."""
from harness.common.framework import Case
from harness.common.rng import Rng
from harness.common import sim

PROP = "C34"
LEAN_MODULES = ["LunaVerif.Props.C34"]
DRIVER = "Driver/C34.lean"
REQUIRED_THEOREMS = ["com_sequence_becomes_whole_word", "constant_offset_is_pure_delay",
                     "invalid_words_do_not_shift_history"]
RULE = ("cases = aligner kind (RxWordAligner, RxPacketAligner) x stimulus mode x seed; a symbol stream with "
        "alignment sequences (COMx4 / SHPx3 EPF / SLCx3 EPF) inserted at arbitrary byte positions is cut into "
        "words; modes: each offset 0..3 in turn, offset changes mid-stream, long COM runs (several windows match), "
        "near misses (COMx3, 0xBC with ctrl=0, wrong ctrl nibble), invalid words (also carrying alignment "
        "sequences, which must be ignored), random")
ASSUMPTIONS = ["input words carry 4 symbols (USBRawSuperSpeedStream default payload_words=4)",
               "constant_offset_is_pure_delay: no window other than the current offset meets the alignment "
               "criteria during the stretch considered (hypothesis NoRealign, a decidable predicate on the inputs)"]
PARTIAL = ""

COM, SHP, SLC, EPF, SKP = (0xBC, 1), (0xFB, 1), (0xFE, 1), (0xF7, 1), (0x3C, 1)
MODES = ["offsets", "offset-changes", "long-runs", "near-misses", "invalid-words", "random", "other-kind"]
PATTERNS = {0: [[COM] * 4], 1: [[SHP] * 3 + [EPF], [SLC] * 3 + [EPF]]}


def gen_cases(tier, rng):
    per = {"quick": 14, "widen": 40, "thorough": 100}[tier]
    out = []
    for kind in (0, 1):
        for mode in MODES:
            for k in range(per):
                out.append({"kind": kind, "mode": mode, "seed": rng.u64(), "len": 400 if tier == "quick" else 1500})
    return out


def _rand_sym(rng):
    return rng.weighted([(10, (rng.below(256), 0)), (2, (rng.below(256), 1)),
                         (1, rng.choice([COM, SHP, SLC, EPF, SKP, (0xBC, 0), (0xFB, 0), (0xF7, 0)]))])


def _word(syms):
    d = c = 0
    for i, (b, k) in enumerate(syms):
        d |= b << (8 * i)
        c |= k << i
    return d, c


def make_stimulus(kind, mode, rng, L):
    """-> rows [valid, data, ctrl]"""
    pats = PATTERNS[kind]
    if mode == "other-kind":          # the other aligner's sequences must not move this one
        pats = PATTERNS[1 - kind]
    syms = []

    def filler(n):
        syms.extend(_rand_sym(rng) for _ in range(n))

    def pad_to(off):
        while len(syms) % 4 != off:
            syms.append(_rand_sym(rng))

    cur = 0
    while len(syms) < 4 * L:
        if mode == "offsets":
            for off in rng.shuffle([0, 1, 2, 3]):
                filler(4 * rng.range(1, 6))
                pad_to(off)
                syms.extend(rng.choice(pats))
                if rng.chance(60):     # TS1/TS2-like: more sets at the same offset
                    for _ in range(rng.range(1, 3)):
                        filler(12)
                        syms.extend(rng.choice(pats))
        elif mode == "offset-changes":
            filler(rng.range(0, 9))
            syms.extend(rng.choice(pats))
            if rng.chance(40):         # a second sequence immediately after, at a shifted position
                filler(rng.range(0, 3))
                syms.extend(rng.choice(pats))
        elif mode == "long-runs":
            filler(rng.range(1, 12))
            syms.extend([pats[0][0]] * rng.range(4, 11))
            if kind == 1 or rng.chance(30):
                syms.extend(rng.choice(pats))
        elif mode == "near-misses":
            filler(rng.range(1, 10))
            p = list(rng.choice(pats))
            how = rng.below(5)
            if how == 0:
                p = p[:3] + [_rand_sym(rng)]
            elif how == 1:
                j = rng.below(4)
                p[j] = (p[j][0], 0)                 # right byte, ctrl = 0
            elif how == 2:
                p = [p[0]] * 3 + [(p[3][0] ^ (1 << rng.below(8)), 1)]
            elif how == 3:
                p = p[1:]                            # only three symbols
            # how == 4: a genuine sequence
            syms.extend(p)
        elif mode in ("invalid-words", "random", "other-kind"):
            filler(rng.range(1, 14))
            if rng.chance(60):
                syms.extend(rng.choice(pats))
    rows = []
    for i in range(0, 4 * L, 4):
        d, c = _word(syms[i:i + 4])
        rows.append([1, d, c])
    if mode == "invalid-words":
        out = []
        p = rng.choice([10, 30, 60])
        for r in rows:
            while rng.chance(p):
                # an invalid word: sometimes garbage, sometimes a perfect alignment sequence, sometimes one that
                # would complete a sequence together with the previous valid word
                g = rng.below(3)
                if g == 0:
                    d, c = _word([_rand_sym(rng) for _ in range(4)])
                elif g == 1:
                    d, c = _word(rng.choice(PATTERNS[kind]))
                else:
                    pat = rng.choice(PATTERNS[kind])
                    k = rng.range(1, 3)
                    d, c = _word(pat[4 - k:] + [_rand_sym(rng) for _ in range(4 - k)])
                out.append([0, d, c])
            out.append(r)
        rows = out
    elif mode == "random" and rng.chance(50):
        rows = [[1 if rng.chance(90) else 0, d, c] for (_, d, c) in rows]
    return rows[:L]


def _syms(d, c):
    return [((d >> (8 * i)) & 0xFF, (c >> i) & 1) for i in range(4)]


def monitor(kind, stim, rows):
    """The property on the real trace, stated on the SYMBOL STREAM of the valid input words (S starts with the
    four reset symbols of the history register): when the k-th valid word arrives, the alignment sequences
    lying at byte offsets 0..3 of the last two valid words are looked for; the word output in the next cycle
    must be valid and equal S[4k+off .. 4k+off+3] where off is the offset of the (last) sequence found, or the
    offset in force before if none is found (so a found sequence comes out as one whole word, and while the
    offset does not change consecutive output words are consecutive 4-symbol groups of S: pure delay).  An
    invalid word produces an invalid output and changes neither history nor offset."""
    pats = PATTERNS[kind]
    fails = []
    S = [(0, 0)] * 4
    off = 0
    expect = None      # (valid, word or None, offset or None) for the current cycle
    k = 0
    for t, ((v, d, c), (sv, sd, sc, aoff, srdy)) in enumerate(zip(stim, rows)):
        if srdy != 1:
            fails.append({"cycle": t, "sig": "sink-not-ready", "what": "sink.ready=0"})
            break
        if expect is not None:
            ev, ew, eo = expect
            if sv != ev:
                fails.append({"cycle": t, "sig": "source-valid", "what":
                              "source.valid=%d one cycle after sink.valid=%d" % (sv, ev)})
                break
            if ev and _syms(sd, sc) != ew:
                fails.append({"cycle": t, "sig": "aligned-word", "what":
                              "output word %08x/%x; the input symbol stream at offset %d gives %r"
                              % (sd, sc, eo, ew)})
                break
            if ev and aoff != eo:
                fails.append({"cycle": t, "sig": "alignment-offset", "what":
                              "alignment_offset=%d, the alignment sequence lies at offset %d" % (aoff, eo)})
                break
        if v:
            S.extend(_syms(d, c))
            base = 4 * k
            for i in range(4):
                if S[base + i:base + i + 4] in pats:
                    off = i
            expect = (1, S[base + off:base + off + 4], off)
            k += 1
        else:
            expect = (0, None, None)
    return fails


def run_case(desc):
    from luna.gateware.usb.usb3.physical.alignment import RxWordAligner, RxPacketAligner
    kind = desc["kind"]
    dut = (RxWordAligner, RxPacketAligner)[kind]()
    stim = desc.get("stimulus") or make_stimulus(kind, desc["mode"], Rng(desc["seed"]), desc.get("len", 400))
    ins = [dut.sink.valid, dut.sink.data, dut.sink.ctrl]
    outs = [dut.source.valid, dut.source.data, dut.source.ctrl, dut.alignment_offset, dut.sink.ready]
    rows = sim.run_cycles(dut, ins, outs, stim, domain="ss")
    fails = monitor(kind, stim, rows)
    tags = {"kind=%d" % kind, "mode=" + desc.get("mode", "replay")}
    last = None
    for r in rows:
        if r[0]:
            if last is not None and last != r[3]:
                tags.add("offset %d->%d" % (last, r[3]))
            last = r[3]
            tags.add("offset=%d" % r[3])
            if _syms(r[1], r[2]) in PATTERNS[kind]:
                tags.add("aligned-sequence-output@%d" % r[3])
        else:
            tags.add("invalid-output")
    return Case([kind], stim, rows, fails, sorted(tags), desc,
                ["sink.valid", "sink.data", "sink.ctrl"],
                ["source.valid", "source.data", "source.ctrl", "alignment_offset", "sink.ready"])
