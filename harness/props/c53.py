"""C53 — HyperRAMInterface (luna/gateware/interface/psram.py): the FSM core the repo's tests use,
with a bare HyperBusPHY record and a behavioural memory driving dq.i / rwds.i."""
from harness.common.framework import Case
from harness.common.rng import Rng
from harness.common import sim

PROP = "C53"
LEAN_MODULES = ["LunaVerif.Props.C53"]
DRIVER = "Driver/C53.lean"
REQUIRED_THEOREMS = ["ca_word_layout", "cs_held_until_end", "latency_before_data",
                     "drive_only_in_command_and_write", "never_drives_while_memory_drives"]
RULE = ("cases = random transaction scripts: memory/register x read/write x wrapped/linear, addresses with "
        "boundary patterns, start_transfer held 1-8 cycles or permanently, final_word at the first / a later / "
        "no word, behavioural memory: rwds.i patterns 00/01/10/11 during reads (aligned, clock-inverted, "
        "stalling), random rwds.i at LATCH_RWDS, random dq.i; plus unstructured random inputs")
ASSUMPTIONS = [
    "HyperRAMInterface core only (phy = HyperBusPHY record); the vendor-primitive HyperRAMPHY (ODDR/IDDR/DELAY "
    "Instances, FFSynchronizers) is outside the model",
    "latency: the code always applies HIGH_LATENCY_CLOCKS (`extra_latency | 1`); the theorem states the number of "
    "HANDLE_LATENCY cycles as coded (HIGH_LATENCY_CLOCKS - 1 = 13 between the last command word and the first data cycle)",
]
PARTIAL = ""

NAMES_IN = ["address", "register_space", "perform_write", "single_page", "start_transfer", "final_word",
            "write_data", "dq_i", "rwds_i"]
NAMES_OUT = ["idle", "read_ready", "write_ready", "read_data", "clk_en", "cs", "rwds_e", "rwds_o", "dq_e", "dq_o"]


def gen_cases(tier, rng):
    n = {"quick": 120, "widen": 300}.get(tier, 1200)
    return [{"kind": k % 4, "seed": rng.u64()} for k in range(n)]


def _addr(rng):
    k = rng.below(8)
    if k == 0:
        return 0
    if k == 1:
        return 0xFFFFFFFF
    if k == 2:
        return 1 << rng.below(32)
    if k == 3:
        return 0xFFFFFFFF ^ (1 << rng.below(32))
    return rng.bits(32)


def make_stimulus(desc, rng):
    kind = desc["kind"]
    rows = []
    L = 900
    if kind == 3:          # unstructured
        ps = rng.choice([3, 10, 40])
        pf = rng.choice([5, 30, 80])
        cur = [0] * 9
        for _ in range(L):
            if rng.chance(20):
                cur[0] = _addr(rng)
            for k in (1, 2, 3):
                if rng.chance(10):
                    cur[k] = rng.below(2)
            cur[4] = 1 if rng.chance(ps) else 0
            cur[5] = 1 if rng.chance(pf) else 0
            cur[6] = rng.bits(16)
            cur[7] = rng.bits(16)
            cur[8] = rng.choice([0, 1, 2, 3, 2, 2])
            rows.append(list(cur))
        return rows
    # scripted transactions; the FSM is tracked only to shape the memory's behaviour
    while len(rows) < L:
        addr, reg, wr, sp = _addr(rng), rng.below(2), rng.below(2), rng.below(2)
        for _ in range(rng.range(0, 4)):
            rows.append([_addr(rng), rng.below(2), rng.below(2), rng.below(2), 0, rng.below(2), rng.bits(16), rng.bits(16), rng.below(4)])
        hold = rng.choice([1, 1, 2, 3, 8, 10 ** 6]) if kind != 2 else 10 ** 6
        nwords = rng.choice([1, 1, 2, 3, 6])
        mem_mode = rng.choice(["aligned", "inverted", "stall", "random"])
        # cycles: 0 = IDLE+start, 1 = LATCH_RWDS, 2-4 = command, then latency/data
        total = 5 + (1 if (reg and wr) else 13 + nwords * (1 if wr else rng.choice([1, 2, 3]))) + rng.range(0, 3)
        words_seen = 0
        ph = 0
        for t in range(total):
            start = 1 if t < hold else 0
            keep = rng.chance(50)
            a2 = addr if (t == 0 or keep) else _addr(rng)
            r2, w2, s2 = (reg, wr, sp) if (t == 0 or keep) else (rng.below(2), rng.below(2), rng.below(2))
            in_data = t >= 18 if not (reg and wr) else t >= 5
            rw = rng.below(4)
            if in_data and not wr:
                if mem_mode == "aligned":
                    rw = 2
                elif mem_mode == "inverted":
                    rw = 1 if (ph % 2 == 0) else 0      # 01 then 0x: data split over two cycles
                    ph += 1
                elif mem_mode == "stall":
                    rw = 2 if rng.chance(40) else rng.choice([0, 3, 1])
            fw = rng.below(2)
            if in_data:
                if rw == 2 or wr:
                    words_seen += 1
                fw = 1 if words_seen >= nwords else (1 if rng.chance(5) else 0)
            rows.append([a2, r2, w2, s2, start, fw, rng.bits(16), rng.bits(16), rw])
    return rows[:L + 40]


def ca_words(addr, reg, wr, single_page):
    ca = ((0 if wr else 1) << 47) | (reg << 46) | ((0 if single_page else 1) << 45) | ((addr >> 3) << 16) | (addr & 7)
    return [(ca >> 32) & 0xFFFF, (ca >> 16) & 0xFFFF, ca & 0xFFFF]


def monitor(stim, rows):
    fails, tags = [], set()

    def fail(t, sig, what):
        if not any(f["sig"] == sig for f in fails):
            fails.append({"cycle": t, "sig": sig, "what": what})

    T = len(stim)
    O = {n: k for k, n in enumerate(NAMES_OUT)}
    drive_dq_ok = set()     # cycles in which dq.e may (and must) be 1
    drive_rwds_ok = set()
    t = 0
    horizon = T
    while t < T:
        idle = rows[t][O["idle"]]
        start = stim[t][4]
        if not (idle and start):
            t += 1
            continue
        addr, reg, wr, sp = stim[t][0], stim[t][1], stim[t][2], stim[t][3]
        if t + 7 >= T:
            horizon = t
            break
        tags.add("%s-%s" % ("reg" if reg else "mem", "write" if wr else "read"))
        want = ca_words(addr, reg, wr, sp)
        for k in range(3):
            u = t + 3 + k
            drive_dq_ok.add(u)
            if rows[u][O["dq_e"]] != 1 or rows[u][O["dq_o"]] != want[k]:
                fail(u, "ca-word", "command word %d for address %#x reg=%d write=%d single_page=%d: dq.e=%d dq.o=%#06x, "
                     "expected %#06x" % (k, addr, reg, wr, sp, rows[u][O["dq_e"]], rows[u][O["dq_o"]], want[k]))
        first_data = t + 5 if (reg and wr) else t + 18
        # no data strobe before the latency has elapsed
        for u in range(t + 1, min(first_data, T)):
            if rows[u][O["read_ready"]] or rows[u][O["write_ready"]]:
                fail(u, "data-before-latency", "data strobe %d cycles after the request; the latency ends after %d"
                     % (u - t, first_data - t))
        if first_data >= T:
            horizon = t
            break
        if wr and not rows[first_data][O["write_ready"]]:
            fail(first_data, "latency-too-long", "write data phase did not start %d cycles after the request" % (first_data - t))
        # data phase until the FSM reports idle again
        u = first_data
        ended = False
        while u < T:
            if rows[u][O["idle"]]:
                ended = True
                break
            if rows[u][O["write_ready"]]:
                tags.add("write-word")
                if u + 1 < T:
                    drive_dq_ok.add(u + 1)
                    if rows[u + 1][O["dq_o"]] != stim[u][6]:
                        fail(u + 1, "write-data", "dq.o=%#06x after write_ready with write_data=%#06x" % (rows[u + 1][O["dq_o"]], stim[u][6]))
                    if not reg:
                        drive_rwds_ok.add(u + 1)
            if rows[u][O["read_ready"]]:
                tags.add("read-word-direct" if stim[u][8] == 2 else "read-word-inverted")
                if stim[u][8] == 2 and rows[u][O["read_data"]] != stim[u][7]:
                    fail(u, "read-data", "read_data=%#06x, memory drove %#06x" % (rows[u][O["read_data"]], stim[u][7]))
            u += 1
        # chip select: asserted from the cycle after the request until the transaction has ended
        for v in range(t + 1, min(u, T)):
            if rows[v][O["cs"]] != 1:
                fail(v, "cs-dropped", "cs low %d cycles into the transaction (ends after %d)" % (v - t, u - t))
        if ended:
            tags.add("txn-%d-cycles" % min(40, (u - t) // 10 * 10))
        if not ended:
            horizon = min(horizon, t)
        t = u if ended else T
    for v in range(horizon):
        de, re_ = rows[v][O["dq_e"]], rows[v][O["rwds_e"]]
        if de and v not in drive_dq_ok:
            fail(v, "dq-driven-outside-command-or-write", "dq.e=1 in cycle %d which is neither a command nor a write data cycle" % v)
        if not de and v in drive_dq_ok:
            fail(v, "dq-not-driven", "dq.e=0 in a command/write data cycle %d" % v)
        if re_ and v not in drive_rwds_ok:
            fail(v, "rwds-driven-outside-write", "rwds.e=1 in cycle %d which is not a memory write data cycle" % v)
        if re_ and rows[v][O["rwds_o"]] != 0:
            fail(v, "rwds-mask", "rwds.o=%d while driving (no byte may be masked)" % rows[v][O["rwds_o"]])
    return fails, tags


def run_case(desc):
    from luna.gateware.interface.psram import HyperBusPHY, HyperRAMInterface
    phy = HyperBusPHY()
    dut = HyperRAMInterface(phy=phy)
    stim = desc.get("stimulus") or make_stimulus(desc, Rng(desc["seed"]))
    ins = [dut.address, dut.register_space, dut.perform_write, dut.single_page, dut.start_transfer, dut.final_word,
           dut.write_data, phy.dq.i, phy.rwds.i]
    outs = [dut.idle, dut.read_ready, dut.write_ready, dut.read_data, phy.clk_en, phy.cs, phy.rwds.e, phy.rwds.o,
            phy.dq.e, phy.dq.o]
    rows = sim.run_cycles(dut, ins, outs, stim, domain="sync")
    fails, tags = monitor(stim, rows)
    tags |= {"kind=%d" % desc["kind"]}
    return Case([], stim, rows, fails, sorted(tags), desc, NAMES_IN, NAMES_OUT)
