"""C53 — HyperRAMInterface (luna/gateware/interface/psram.py): the FSM core the repo's tests use,
with a bare HyperBusPHY record and a behavioural memory driving dq.i / rwds.i."""
from harness.common.framework import Case
from harness.common.rng import Rng
from harness.common import sim

PROP = "C53"
LEAN_MODULES = ["LunaVerif.Props.C53"]
DRIVER = "Driver/C53.lean"
REQUIRED_THEOREMS = ["ca_word_layout", "cs_held_until_end", "latency_before_data",
                     "drive_only_in_command_and_write", "never_drives_while_memory_drives"]
RULE = ("cases = random transaction scripts: memory/register x read/write x wrapped/linear, addresses with "
        "boundary patterns, start_transfer held 1-8 cycles or permanently, final_word on word 1..6 of the burst (also "
        "early, and raised on cycles without a word), every transaction followed by the next after 2-5 cycles; "
        "behavioural memory: rwds.i during reads aligned (10), clock-inverted (01 then 00, optional gaps; 01 01 01 ... "
        "bursts with a word per cycle), aligned and split words mixed in one burst, stalling, random; random rwds.i at "
        "LATCH_RWDS, random dq.i; plus unstructured random inputs.  The monitor decides from the inputs alone where each "
        "transaction starts and ends (final word of either phase) and requires idle + cs/clk_en released two cycles "
        "after the final word and a correct command-address word for the request that follows")
ASSUMPTIONS = [
    "HyperRAMInterface core only (phy = HyperBusPHY record); the vendor-primitive HyperRAMPHY (ODDR/IDDR/DELAY "
    "Instances, FFSynchronizers) is outside the model",
    "latency: the code always applies HIGH_LATENCY_CLOCKS (`extra_latency | 1`); the theorem states the number of "
    "HANDLE_LATENCY cycles as coded (HIGH_LATENCY_CLOCKS - 1 = 13 between the last command word and the first data cycle)",
]
PARTIAL = ""

NAMES_IN = ["address", "register_space", "perform_write", "single_page", "start_transfer", "final_word",
            "write_data", "dq_i", "rwds_i"]
NAMES_OUT = ["idle", "read_ready", "write_ready", "read_data", "clk_en", "cs", "rwds_e", "rwds_o", "dq_e", "dq_o"]


def gen_cases(tier, rng):
    n = {"quick": 120, "widen": 300}.get(tier, 1200)
    return [{"kind": k % 4, "seed": rng.u64()} for k in range(n)]


def _addr(rng):
    k = rng.below(8)
    if k == 0:
        return 0
    if k == 1:
        return 0xFFFFFFFF
    if k == 2:
        return 1 << rng.below(32)
    if k == 3:
        return 0xFFFFFFFF ^ (1 << rng.below(32))
    return rng.bits(32)


def make_stimulus(desc, rng):
    kind = desc["kind"]
    rows = []
    L = 900
    if kind == 3:          # unstructured
        ps = rng.choice([3, 10, 40])
        pf = rng.choice([5, 30, 80])
        cur = [0] * 9
        for _ in range(L):
            if rng.chance(20):
                cur[0] = _addr(rng)
            for k in (1, 2, 3):
                if rng.chance(10):
                    cur[k] = rng.below(2)
            cur[4] = 1 if rng.chance(ps) else 0
            cur[5] = 1 if rng.chance(pf) else 0
            cur[6] = rng.bits(16)
            cur[7] = rng.bits(16)
            cur[8] = rng.choice([0, 1, 2, 3, 2, 2])
            rows.append(list(cur))
        return rows
    # scripted transactions; the FSM is tracked only to shape the memory's behaviour
    while len(rows) < L:
        addr, reg, wr, sp = _addr(rng), rng.below(2), rng.below(2), rng.below(2)
        if rng.chance(35):
            wr = 0                     # more reads: the memory's RWDS behaviour matters only there
        for _ in range(rng.range(0, 4)):
            rows.append([_addr(rng), rng.below(2), rng.below(2), rng.below(2), 0, rng.below(2), rng.bits(16), rng.bits(16), rng.below(4)])
        hold = rng.choice([1, 1, 2, 3, 8, 10 ** 6]) if kind != 2 else 10 ** 6
        nwords = rng.choice([1, 1, 2, 3, 4, 5, 6])          # the word that carries final_word (1 = the first)
        mem_mode = rng.choice(["aligned", "inverted", "inverted", "inverted-burst", "mixed", "stall", "random"])
        early_final = rng.chance(15)                        # final_word may also come before word `nwords`
        # cycles: 0 = IDLE+start, 1 = LATCH_RWDS, 2-4 = command, then latency/data
        first_data = 5 if (reg and wr) else 18
        words_seen = 0
        ph = 0
        gap = rng.choice([0, 0, 1, 2])                      # idle cycles of the memory between inverted words
        prev_rw = 0
        t = 0
        done_at = None
        while True:
            start = 1 if t < hold else 0
            keep = rng.chance(50)
            a2 = addr if (t == 0 or keep) else _addr(rng)
            r2, w2, s2 = (reg, wr, sp) if (t == 0 or keep) else (rng.below(2), rng.below(2), rng.below(2))
            in_data = t >= first_data
            rw = rng.below(4)
            if in_data and not wr:
                if mem_mode == "aligned":
                    rw = 2
                elif mem_mode == "inverted":
                    # 01 then 00: the word is split over two sync cycles; optional 00 gaps between words
                    rw = 1 if ph == 0 else 0
                    ph = (ph + 1) % (2 + gap)
                elif mem_mode == "inverted-burst":
                    rw = 1                                  # 01 01 01 ...: from the second cycle on a word per cycle
                elif mem_mode == "mixed":
                    # aligned and split words in one burst
                    rw = rng.choice([0, 1, 0, 1, 2]) if (prev_rw & 1) else rng.choice([2, 1, 1, 0, 3])
                elif mem_mode == "stall":
                    rw = 2 if rng.chance(40) else rng.choice([0, 3, 1])
            fw = rng.below(2)
            if in_data:
                word = bool(wr) or rw == 2 or ((rw >> 1) == 0 and (prev_rw & 1) == 1 and t > first_data)
                if word:
                    words_seen += 1
                    fw = 1 if words_seen >= nwords else (1 if (early_final and rng.chance(20)) else 0)
                    if fw and done_at is None:
                        done_at = t
                else:
                    fw = 1 if rng.chance(30) else 0        # final_word without a word: must be ignored by reads
                prev_rw = rw
            rows.append([a2, r2, w2, s2, start, fw, rng.bits(16), rng.bits(16), rw])
            t += 1
            if done_at is not None or (reg and wr and t > first_data) or t > first_data + 40:
                break
        # RECOVERY + a short pause (0: the next request arrives in the first idle cycle)
        for _ in range(rng.choice([2, 2, 2, 3, 5])):
            start = 1 if t < hold else 0
            rows.append([_addr(rng), rng.below(2), rng.below(2), rng.below(2), start, rng.below(2), rng.bits(16),
                         rng.bits(16), rng.below(4)])
            t += 1
    return rows[:L + 40]


def ca_words(addr, reg, wr, single_page):
    ca = ((0 if wr else 1) << 47) | (reg << 46) | ((0 if single_page else 1) << 45) | ((addr >> 3) << 16) | (addr & 7)
    return [(ca >> 32) & 0xFFFF, (ca >> 16) & 0xFFFF, ca & 0xFFFF]


def monitor(stim, rows):
    """The property on the observed trace.  The monitor keeps its OWN notion of where a transaction starts and
    ends, from the inputs only (request in an idle cycle; a register write is one word; a memory write ends with
    the word written while final_word is high; a read ends with the word DELIVERED BY THE MEMORY while final_word is
    high, a word being `rwds.i == 0b10` or, with inverted clock phase, `rwds.i[0] == 1` in one cycle followed by
    `rwds.i[1] == 0` in the next) and requires the gateware to follow: idle / chip select released the documented
    number of cycles after the final word, and the next request served with its own command-address word."""
    fails, tags = [], set()

    def fail(t, sig, what):
        if not any(f["sig"] == sig for f in fails):
            fails.append({"cycle": t, "sig": sig, "what": what})

    T = len(stim)
    O = {n: k for k, n in enumerate(NAMES_OUT)}
    drive_dq_ok = set()     # cycles in which dq.e may (and must) be 1
    drive_rwds_ok = set()
    t = 0                   # the interface is (expected to be) idle in cycle t; true at reset
    horizon = T
    after = None            # how the previous transaction ended (coverage of "followed by another transaction")
    lost = False
    while t < T:
        if rows[t][O["idle"]] != 1:
            lost = True
            fail(t, "not-idle-after-end", "idle=0 in cycle %d although the previous transaction%s has ended: the "
                 "interface cannot accept the next request" % (t, " (%s)" % after if after else ""))
        if rows[t][O["read_ready"]] or rows[t][O["write_ready"]]:
            fail(t, "strobe-outside-data", "data strobe in cycle %d outside any transaction" % t)
        start = stim[t][4]
        if not start:
            # no request: chip select released (registered, so visible one cycle later)
            if t + 1 < T and rows[t + 1][O["cs"]] != 0:
                fail(t + 1, "cs-not-released", "cs=1 in cycle %d although no transaction is in progress%s"
                     % (t + 1, " (previous one: %s)" % after if after else ""))
            t += 1
            continue
        addr, reg, wr, sp = stim[t][0], stim[t][1], stim[t][2], stim[t][3]
        if t + 7 >= T:
            horizon = t
            break
        kindtag = "%s-%s" % ("reg" if reg else "mem", "write" if wr else "read")
        tags.add(kindtag)
        if after:
            tags.add("txn-after-" + after)
        want = ca_words(addr, reg, wr, sp)
        for k in range(3):
            u = t + 3 + k
            drive_dq_ok.add(u)
            if rows[u][O["dq_e"]] != 1 or rows[u][O["dq_o"]] != want[k]:
                fail(u, "ca-word", "command word %d for address %#x reg=%d write=%d single_page=%d%s: dq.e=%d dq.o=%#06x, "
                     "expected %#06x" % (k, addr, reg, wr, sp, " (request following a transaction that ended with %s)" % after
                                         if after else "", rows[u][O["dq_e"]], rows[u][O["dq_o"]], want[k]))
        if lost:
            # the gateware did not end the previous transaction where it had to: the request that follows has been
            # judged (command-address word); beyond it the trace no longer lines up with any expectation
            horizon = min(horizon, t + 6)
            break
        first_data = t + 5 if (reg and wr) else t + 18
        # no data strobe before the latency has elapsed
        for u in range(t + 1, min(first_data, T)):
            if rows[u][O["read_ready"]] or rows[u][O["write_ready"]]:
                fail(u, "data-before-latency", "data strobe %d cycles after the request; the latency ends after %d"
                     % (u - t, first_data - t))
        if first_data >= T:
            horizon = t
            break
        if wr and not rows[first_data][O["write_ready"]]:
            fail(first_data, "latency-too-long", "write data phase did not start %d cycles after the request" % (first_data - t))
        # data phase: one row per cycle until the word that ends the transaction (decided from the inputs)
        u = first_data
        end_word = None         # cycle of the final word
        nword = 0
        how = None
        while u < T:
            rw = stim[u][8]
            if wr:
                word, split = True, False
            else:
                split = rw != 2 and (rw >> 1) == 0 and u > first_data and (stim[u - 1][8] & 1) == 1
                word = rw == 2 or split
            if wr:
                if not rows[u][O["write_ready"]] or rows[u][O["read_ready"]]:
                    fail(u, "write-ready", "write data cycle %d: write_ready=%d read_ready=%d" % (u, rows[u][O["write_ready"]], rows[u][O["read_ready"]]))
                tags.add("write-word")
                if u + 1 < T:
                    drive_dq_ok.add(u + 1)
                    if rows[u + 1][O["dq_o"]] != stim[u][6]:
                        fail(u + 1, "write-data", "dq.o=%#06x after write_ready with write_data=%#06x" % (rows[u + 1][O["dq_o"]], stim[u][6]))
                    if not reg:
                        drive_rwds_ok.add(u + 1)
            else:
                if rows[u][O["write_ready"]]:
                    fail(u, "write-ready", "write_ready during a read (cycle %d)" % u)
                if rows[u][O["read_ready"]] != (1 if word else 0):
                    fail(u, "read-ready", "read_ready=%d in cycle %d with rwds.i=%d after rwds.i=%d: the memory %s"
                         % (rows[u][O["read_ready"]], u, rw, stim[u - 1][8], "delivered a word" if word else "delivered nothing"))
                if word:
                    tags.add("read-word-inverted" if split else "read-word-direct")
                    data = (((stim[u - 1][7] & 0xFF) << 8) | (stim[u][7] >> 8)) if split else stim[u][7]
                    if rows[u][O["read_data"]] != data:
                        fail(u, "read-data", "read_data=%#06x, memory drove %#06x (%s)" % (rows[u][O["read_data"]], data,
                             "second byte in this cycle, first byte in the previous one" if split else "aligned"))
            if word:
                nword += 1
                if (reg and wr) or stim[u][5]:
                    end_word = u
                    how = "reg-write" if (reg and wr) else ("write-final" if wr else ("read-final-inverted" if split else "read-final-aligned"))
                    break
            u += 1
        if end_word is None:
            horizon = min(horizon, t)
            # chip select and not-idle until the end of the trace
            for v in range(t + 1, T):
                if rows[v][O["cs"]] != 1:
                    fail(v, "cs-dropped", "cs low %d cycles into a transaction that has not ended" % (v - t))
                if rows[v][O["idle"]]:
                    fail(v, "idle-during-transaction", "idle=1 %d cycles into a transaction that has not seen its final word" % (v - t))
            break
        tags.add(how)
        tags.add("%s-pos-%d" % (how, min(nword, 7)) if how.startswith("read-final") else "final-word-pos-%d" % min(nword, 7))
        # a register write ends straight away; everything else takes one recovery cycle:
        # final word in cycle u -> (recovery u+1) -> idle and cs released in cycle u+2
        nxt = end_word + 1 if how == "reg-write" else end_word + 2
        for v in range(t + 1, min(nxt, T)):
            if rows[v][O["cs"]] != 1:
                fail(v, "cs-dropped", "cs low %d cycles into the transaction (ends after %d)" % (v - t, nxt - t))
            if rows[v][O["idle"]]:
                fail(v, "idle-during-transaction", "idle=1 %d cycles into the transaction (ends after %d)" % (v - t, nxt - t))
        if how != "reg-write" and nxt < T:
            if rows[nxt][O["cs"]] != 0:
                fail(nxt, "cs-not-released", "cs still 1 two cycles after the final word (%s, word %d of the burst, cycle %d)"
                     % (how, nword, end_word))
            if rows[nxt][O["clk_en"]] != 0:
                fail(nxt, "clk-not-stopped", "clk_en still 1 two cycles after the final word (%s, cycle %d)" % (how, end_word))
        tags.add("txn-%d-cycles" % min(40, (nxt - t) // 10 * 10))
        after = how
        t = nxt
    for v in range(horizon):
        de, re_ = rows[v][O["dq_e"]], rows[v][O["rwds_e"]]
        if de and v not in drive_dq_ok:
            fail(v, "dq-driven-outside-command-or-write", "dq.e=1 in cycle %d which is neither a command nor a write data cycle" % v)
        if not de and v in drive_dq_ok:
            fail(v, "dq-not-driven", "dq.e=0 in a command/write data cycle %d" % v)
        if re_ and v not in drive_rwds_ok:
            fail(v, "rwds-driven-outside-write", "rwds.e=1 in cycle %d which is not a memory write data cycle" % v)
        if re_ and rows[v][O["rwds_o"]] != 0:
            fail(v, "rwds-mask", "rwds.o=%d while driving (no byte may be masked)" % rows[v][O["rwds_o"]])
    return fails, tags


def run_case(desc):
    from luna.gateware.interface.psram import HyperBusPHY, HyperRAMInterface
    phy = HyperBusPHY()
    dut = HyperRAMInterface(phy=phy)
    stim = desc.get("stimulus") or make_stimulus(desc, Rng(desc["seed"]))
    ins = [dut.address, dut.register_space, dut.perform_write, dut.single_page, dut.start_transfer, dut.final_word,
           dut.write_data, phy.dq.i, phy.rwds.i]
    outs = [dut.idle, dut.read_ready, dut.write_ready, dut.read_data, phy.clk_en, phy.cs, phy.rwds.e, phy.rwds.o,
            phy.dq.e, phy.dq.o]
    rows = sim.run_cycles(dut, ins, outs, stim, domain="sync")
    fails, tags = monitor(stim, rows)
    tags |= {"kind=%d" % desc["kind"]}
    return Case([], stim, rows, fails, sorted(tags), desc, NAMES_IN, NAMES_OUT)
