"""C16 — USBIsochronousStreamOutEndpoint (luna/gateware/usb/usb2/endpoints/isochronous_stream_out.py)."""
from harness.common.framework import Case
from harness.common.rng import Rng
from harness.common import sim

PROP = "C16"
LEAN_MODULES = ["LunaVerif.Props.C16", "LunaVerif.Lemmas.C16Host", "LunaVerif.Props.C16Stream"]
DRIVER = "Driver/C16.lean"
REQUIRED_THEOREMS = ["iso_out_whole_packets_only_partial", "queue_accepts_burst", "iso_fifo_inputs_legal",
                     # end-to-end over raw receive histories (Props/C16Stream.lean)
                     "iinv_step", "iso_out_whole_packets_only", "iso_out_prefix", "iso_out_complete_when_drained"]
RULE = ("cases = (max_packet_size, buffer_size) x consumer pattern x seed; the endpoint is driven standalone at its "
        "EndpointInterface with the timing of USBDataPacketReceiver (valid rises, bytes with 0..2 wait cycles, valid "
        "falls together with rx_complete or rx_invalid); packet sizes 0..max, corrupted packets, packets for other "
        "endpoints / non-OUT tokens; consumer: always ready, stalled for long stretches (buffer partly and "
        "completely full when packets arrive), random")
ASSUMPTIONS = ["LegalRx (lean/LunaVerif/Lemmas/C16Host.lean, decidable acceptor IPhase.step; the generated stimulus is checked "
               "against it cycle by cycle through the model driver's 5th output): in words the two items below, and "
               "max_packet_size >= 1",
               "interface.rx has the shape USBDataPacketReceiver produces: each packet ends with exactly one of "
               "rx_complete / rx_invalid in the cycle valid falls, no byte in the two cycles after that, sizes <= max_packet_size",
               "the tokenizer fields are stable from a packet's first byte until its completion strobes have passed "
               "(two cycles after valid fell)"]
PARTIAL = ""     # iso_out_whole_packets_only is proved end to end for every LegalRx history (see notes/C16.md)
KNOWN_SIGS = {}

EP = 3
CONFIGS = [(4, 8), (4, 7), (8, 8), (3, 10), (1, 2), (2, 8), (16, 32)]


def gen_cases(tier, rng):
    reps = {"quick": 3, "widen": 8}.get(tier, 20)
    out = [{"mps": 4, "buffer": 8, "pattern": "f9-witness", "seed": 0}]
    for mps, buf in CONFIGS + ([(64, 128)] if tier != "quick" else []):
        for pattern in ("ready", "stall", "random", "nearly-full"):
            for _ in range(reps):
                out.append({"mps": mps, "buffer": buf, "pattern": pattern, "seed": rng.u64()})
    return out


def packet_rows(payload, ok, tok_ep, is_out, rng, dense=False):
    """interface.rx cycles of one data packet as USBDataPacketReceiver presents it"""
    rows = []
    for _ in range(0 if dense else rng.range(0, 2)):
        rows.append([1, 0, rng.below(256), 0, 0, tok_ep, is_out])
    for b in payload:
        for _ in range(0 if dense else rng.weighted([(5, 0), (2, 1), (1, 2)])):
            rows.append([1, 0, rng.below(256), 0, 0, tok_ep, is_out])
        rows.append([1, 1, b, 0, 0, tok_ep, is_out])
    for _ in range(rng.range(0, 2)):
        rows.append([1, 0, rng.below(256), 0, 0, tok_ep, is_out])
    # valid falls; the strobe comes in the same cycle (a zero-length packet never raised `next`)
    rows.append([0, 0, 0, int(ok), int(not ok), tok_ep, is_out])
    return rows


def make_stimulus(mps, buf, pattern, rng):
    """returns (rows, packets) ; packets = [(payload, eligible)] in order"""
    rows, packets = [], []
    if pattern == "f9-witness":
        plan = [([1, 2, 3, 4], True, EP, 1), ([5, 6], True, EP, 1)]
        for payload, ok, ep, io in plan:
            rows += [[0, 0, 0, 0, 0, ep, io]] * 3 + packet_rows(payload, ok, ep, io, rng, dense=True)
            packets.append((payload, True))
        rows = [r + [0] for r in rows]
        rows += [[0, 0, 0, 0, 0, EP, 1, 1]] * (buf + 8)
        return rows, packets
    npk = rng.range(6, 16)
    ready_p = {"ready": 100, "stall": 0, "random": rng.choice([20, 50, 80]), "nearly-full": 0}[pattern]
    seq = rng.below(256)
    stall_left = 0
    for k in range(npk):
        n = rng.weighted([(1, 0), (2, 1), (3, mps), (2, max(1, mps - 1)), (4, rng.range(1, mps))])
        payload = [(seq + 7 * j + 31 * k) & 0xFF for j in range(n)]
        seq = (seq + 101) & 0xFF
        kind = rng.weighted([(8, "good"), (2, "corrupt"), (1, "other-ep"), (1, "not-out")])
        ep, io = EP, 1
        if kind == "other-ep":
            ep = (EP + 1 + rng.below(14)) % 16
            if ep == EP:
                ep = (EP + 1) % 16
        if kind == "not-out":
            io = 0
        pr = packet_rows(payload, kind != "corrupt", ep, io, rng, dense=rng.chance(30))
        gap = [[0, 0, 0, 0, 0, ep, io]] * rng.range(3, 8)
        block = gap + pr + [[0, 0, 0, 0, 0, ep, io]] * 3
        # consumer behaviour during this block
        for r in block:
            if pattern == "stall":
                if stall_left == 0 and rng.chance(3):
                    stall_left = -rng.range(1, 3 * buf)     # negative: draining
                rdy = 0
                if stall_left < 0:
                    rdy = 1
                    stall_left += 1
            elif pattern == "nearly-full":
                # let a few entries out now and then so that space hovers around max_packet_size
                rdy = int(rng.chance(12))
            else:
                rdy = int(rng.chance(ready_p))
            rows.append(r + [rdy])
        packets.append((payload, kind == "good"))
    rows += [[0, 0, 0, 0, 0, EP, 1, 1]] * (buf + 8)       # drain
    return rows, packets


def packets_of(stim):
    """the packets on interface.rx, parsed from the stimulus itself: (payload, eligible)"""
    out, cur, prev_valid = [], [], 0
    for valid, nxt, payload, cok, cbad, ep, io, _rdy in stim:
        if valid and nxt:
            cur.append(payload)
        if prev_valid and not valid:
            out.append((cur, bool(cok and not cbad and ep == EP and io)))
            cur = []
        prev_valid = valid
    return out


def monitor(packets, stim, rows):
    """The property on the real trace: the transfers (valid & ready) split at `first` marks must be whole
    payloads of eligible packets, in order, `last` exactly on the final byte."""
    fails, tags = [], set()
    transfers = [(t, r[1], r[2], r[3]) for t, (s, r) in enumerate(zip(stim, rows)) if r[0] and s[7]]
    chunks = []
    for t, data, first, last in transfers:
        if first or not chunks:
            chunks.append([])
        chunks[-1].append((t, data, first, last))
    j = 0
    elig = [(i, p) for i, (p, e) in enumerate(packets) if e and p]
    delivered = 0
    if chunks and rows[-1][0]:
        chunks = chunks[:-1]          # the stream has not drained: the final chunk may be incomplete
    for n, ch in enumerate(chunks):
        data = [c[1] for c in ch]
        t0 = chunks[n + 1][0][0] if n + 1 < len(chunks) else len(rows) - 1   # when the chunk is known to be over
        marks_ok = ch[0][2] == 1 and all(c[2] == 0 for c in ch[1:]) and ch[-1][3] == 1 and all(c[3] == 0 for c in ch[:-1])
        k = next((m for m in range(j, len(elig)) if elig[m][1] == data), None)
        if k is not None and marks_ok:
            if k > j: tags.add("packet dropped whole")
            j = k + 1
            delivered += 1
            continue
        trunc = next((m for m in range(j, len(elig)) if elig[m][1][:len(data)] == data and len(data) < len(elig[m][1])), None)
        if trunc is not None:
            fails.append({"cycle": t0, "sig": "iso-truncated-packet", "what":
                          "the output stream carries %s (last mark on final byte: %d) which is a proper prefix of packet #%d "
                          "%s: the packet was truncated, not dropped" % (data, ch[-1][3], elig[trunc][0], elig[trunc][1])})
        elif k is not None:
            fails.append({"cycle": t0, "sig": "iso-marks", "what":
                          "packet #%d delivered with wrong first/last marks: %s" % (elig[k][0], [(c[2], c[3]) for c in ch])})
        else:
            fails.append({"cycle": t0, "sig": "iso-foreign-data", "what":
                          "the output stream carries %s, which is not the payload of any CRC-valid packet addressed to the "
                          "endpoint (or packets were reordered)" % data})
        break
    if delivered: tags.add("delivered")
    if any(not e for _, e in packets): tags.add("ineligible packets present")
    return fails, tags, delivered, len(elig)


def run_case(desc):
    from luna.gateware.usb.usb2.endpoints.isochronous_stream_out import USBIsochronousStreamOutEndpoint
    mps, buf = desc["mps"], desc["buffer"]
    d = USBIsochronousStreamOutEndpoint(endpoint_number=EP, max_packet_size=mps, buffer_size=buf)
    stim = desc.get("stimulus") or make_stimulus(mps, buf, desc.get("pattern", "random"), Rng(desc["seed"]))[0]
    packets = packets_of(stim)
    itf = d.interface
    ins = [itf.rx.valid, itf.rx.next, itf.rx.payload, itf.rx_complete, itf.rx_invalid,
           itf.tokenizer.endpoint, itf.tokenizer.is_out, d.stream.ready]
    outs = [d.stream.valid, d.stream.p.data, d.stream.p.first, d.stream.p.last]
    rows = sim.run_cycles(d, ins, outs, stim, domain="usb")
    fails, tags, delivered, nelig = monitor(packets, stim, rows)
    if desc.get("pattern") == "ready" and buf >= 3 * mps and not fails and delivered != nelig:
        fails.append({"cycle": 0, "sig": "iso-dropped-with-ready-consumer", "what":
                      "consumer always ready, yet only %d of %d eligible packets were delivered" % (delivered, nelig)})
    tags = sorted(tags) + ["mps=%d buffer=%d" % (mps, buf), "pattern=" + desc.get("pattern", "replay")]
    # 5th compared column: the Lean acceptor of `LegalRx` (hypothesis of iso_out_whole_packets_only) accepts the history
    # up to this cycle (not compared for replays of foreign stimuli)
    legal = None if desc.get("stimulus") is not None else 1
    rows = [list(r) + [legal] for r in rows]
    return Case([EP, mps, buf], stim, rows, fails, tags, desc,
                ["rx_valid", "rx_next", "rx_payload", "rx_complete", "rx_invalid", "tok_endpoint", "tok_is_out", "ready"],
                ["valid", "data", "first", "last", "legal_rx_prefix"])
