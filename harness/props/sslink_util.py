"""Shared helpers of the SuperSpeed link-layer checks C37, C38, C39 (builder: sslink).

* closed-loop cycle runner (same sampling discipline as harness.common.sim.run_cycles: SET inputs, READ
  outputs, TICK) whose inputs of cycle t may depend on the outputs of cycles < t;
* header packet / link command word construction from the independent reference CRCs in usbref
  (validated against compute_usb_crc5 / HeaderPacketCRC of the gateware by `validate_reference_crcs`).
"""
from harness.common import sim, usbref
from amaranth.sim import Simulator

HPSTART = 0xF7FBFBFB      # SHP SHP SHP EPF, ctrl 0b1111
LCSTART = 0xF7FEFEFE      # SLC SLC SLC EPF, ctrl 0b1111
DPPSTART = 0xF75C5C5C     # SDP SDP SDP EPF
DPPEND = 0xF7FDFDFD       # END END END EPF
DPPABORT = 0xF77C7C7C     # EDB EDB EDB EPF

LGOOD, LCRD, LRTY, LBAD, LGO_U, LAU, LXU, LPMA, LUP, LDN = 0, 1, 2, 3, 4, 5, 6, 7, 8, 11
LC_NAMES = {0: "LGOOD", 1: "LCRD", 2: "LRTY", 3: "LBAD", 4: "LGO_U", 5: "LAU", 6: "LXU", 7: "LPMA", 8: "LUP",
            11: "LDN"}


def lc_word(cmd, sub):
    core = (sub & 15) | ((cmd & 15) << 7)
    w = core | (usbref.usb3_crc5(core) << 11)
    return w | (w << 16)


def lc_decode(word):
    """-> (cmd, sub) when both halves agree and the CRC-5 is right, else None"""
    lo, hi = word & 0xFFFF, (word >> 16) & 0xFFFF
    if lo != hi or (lo >> 11) != usbref.usb3_crc5(lo & 0x7FF):
        return None
    return ((lo >> 7) & 15, lo & 15)


def header_dw3(dw0, dw1, dw2, seq, reserved=0, hub_depth=0, delayed=0, deferred=0):
    lcw = (seq & 7) | ((reserved & 7) << 3) | ((hub_depth & 7) << 6) | ((delayed & 1) << 9) | ((deferred & 1) << 10)
    return usbref.usb3_crc16([dw0, dw1, dw2]) | (lcw << 16) | (usbref.usb3_crc5(lcw) << 27)


def header_ok(words):
    """CRC verdict of a received header (dw0, dw1, dw2, dw3) -> (crc5_ok, crc16_ok, seq)"""
    dw0, dw1, dw2, dw3 = words
    lcw = (dw3 >> 16) & 0x7FF
    return (usbref.usb3_crc5(lcw) == (dw3 >> 27) & 31, usbref.usb3_crc16([dw0, dw1, dw2]) == (dw3 & 0xFFFF),
            (dw3 >> 16) & 7)


def run_closed(dut, inputs, outputs, drive, ncycles, domain="ss", period=1e-6):
    """drive(t, prev_outputs or None) -> input row for cycle t.  Returns (input rows, output rows)."""
    top = sim._Wrap(dut, [domain])
    s = Simulator(top)
    s.add_clock(period, domain=domain)
    irows, orows = [], []
    imask = [(1 << len(x)) - 1 for x in inputs]
    omask = [(1 << len(x)) - 1 for x in outputs]

    async def tb(ctx):
        prev = None
        for t in range(ncycles):
            row = [int(v) & m for v, m in zip(drive(t, prev), imask)]
            for sig, v in zip(inputs, row):
                ctx.set(sig, v)
            prev = tuple(ctx.get(o) & m for o, m in zip(outputs, omask))
            irows.append(row)
            orows.append(prev)
            await ctx.tick(domain)

    s.add_testbench(tb)
    s.run()
    return irows, orows


def run_open(dut, inputs, outputs, stimulus, domain="ss"):
    rows = sim.run_cycles(dut, inputs, outputs, stimulus, domain=domain)
    return [list(r) for r in stimulus], rows


_validated = None


def validate_reference_crcs():
    """Compare usbref.usb3_crc5 / usb3_crc16 with the gateware's own XOR networks (all 2048 CRC-5 inputs,
    64 random header triples).  Returns a list of problems (empty = the references agree)."""
    global _validated
    if _validated is not None:
        return _validated
    from amaranth import Module, Signal, ClockDomain, Elaboratable
    from luna.gateware.usb.usb3.link.crc import compute_usb_crc5, HeaderPacketCRC
    from harness.common.rng import Rng
    problems = []
    m = Module()
    x = Signal(11)
    y = Signal(5)
    m.d.comb += y.eq(compute_usb_crc5(x))
    s = Simulator(m)

    async def tb(ctx):
        for v in range(2048):
            ctx.set(x, v)
            if ctx.get(y) != usbref.usb3_crc5(v):
                problems.append("usb3_crc5(%d)" % v)
                return
    s.add_testbench(tb)
    s.run()

    class W(Elaboratable):
        def __init__(self):
            self.c = HeaderPacketCRC()

        def elaborate(self, platform):
            mm = Module()
            mm.domains.ss = ClockDomain()
            mm.submodules.c = self.c
            return mm
    w = W()
    s = Simulator(w)
    s.add_clock(1e-6, domain="ss")
    rng = Rng(0x37)

    async def tb2(ctx):
        for _ in range(64):
            ws = [rng.bits(32) for _ in range(3)]
            ctx.set(w.c.clear, 1)
            await ctx.tick("ss")
            ctx.set(w.c.clear, 0)
            ctx.set(w.c.advance_crc, 1)
            for d in ws:
                ctx.set(w.c.data_input, d)
                await ctx.tick("ss")
            ctx.set(w.c.advance_crc, 0)
            if ctx.get(w.c.crc) != usbref.usb3_crc16(ws):
                problems.append("usb3_crc16(%r)" % (ws,))
                return
    s.add_testbench(tb2)
    s.run()
    _validated = problems
    return problems
