"""C06 — SETUP decoding (luna/gateware/usb/usb2/request.py: USBSetupDecoder, with USBDataPacketDeserializer,
USBTokenDetector, USBDataPacketCRC and USBInterpacketTimer composed as standalone=True does / as a device does)."""
from harness.common.framework import Case
from harness.common.rng import Rng
from harness.common import sim
from harness.common import usbref as U

PROP = "C06"
LEAN_MODULES = ["LunaVerif.Props.C06", "LunaVerif.Lemmas.C06Packet", "LunaVerif.Lemmas.C06Exact",
                "LunaVerif.Lemmas.C06History", "LunaVerif.Lemmas.C06Ports"]
DRIVER = "Driver/C06.lean"
REQUIRED_THEOREMS = ["earlier_garbage_is_harmless", "setup_transaction_exact", "setup_fields_exact",
                     "garbage_keeps_boundary", "setup_reported_iff_partial",
                     "setup_reported_iff", "ack_once_after_gap", "packet_exact", "history_exact", "tok_packet",
                     "capture_general", "strobes_len10", "armed_after_setup_token", "ack_port_exact",
                     "legal_legalFrom"]
RULE = ("cases = DUT variant (standalone=True, address 0 | decoder + real token detector/CRC/timer wired as a device "
        "does, random address) x speed (HS | FS) x transaction script; scripts are random mixes of: SETUP "
        "transactions (token to us / foreign address / any endpoint; DATA0/1 with 8 valid bytes, corrupted CRC, 0..7 "
        "or 9..12 bytes, PID only, aborted), retries (SETUP, bad DATA0, SETUP, DATA0), foreign transactions after a "
        "failed SETUP, IN/OUT/PING/SOF tokens ours and foreign, bad-CRC5 tokens, handshakes, random PID bytes; dense "
        "and FS-like byte timing, packet separation down to 1 cycle (2 cycles after data-PID packets that cannot be a SETUP "
        "payload, the handshake gap after 11-byte data packets); 'runt-token' items = a token cut short (every token PID "
        "OUT/IN/SETUP/SOF/PING x PID only | PID + ONE byte, then rx_active falls) directly before a valid SETUP "
        "transaction, at back-to-back (HS), 4-gap and 40-cycle (FS) byte timing - every case contains one, the (PID, "
        "length) shape swept over the case index so that each shape occurs in HS and FS cases of every tier; 'embedded' items put a well-formed packet INSIDE a "
        "longer one (over-long DATA after a SETUP token whose tail is data-PID + 8 bytes + their CRC16 at every offset "
        "around the 10-byte capture limit, with the outer CRC16 valid as well in half of them; valid packet + trailing "
        "bytes; token + data packet in one burst; SETUP token + trailing bytes; SETUP token inside a handshake/data burst; doubled PID), at "
        "back-to-back (HS), 4-gap and real 40-cycle (FS) byte timing; 'hostile' cases add illegal UTMI patterns and "
        "short gaps after data packets (model comparison only, monitor off)")
ASSUMPTIONS = [
    "LegalRx: rx_valid only while rx_active and not in the cycle in which rx_active rises; packets separated by >= 1 "
    "idle cycle",
    "LegalFrom (setup_reported_iff, ack_once_after_gap, history_exact): a packet that starts with a data PID is followed "
    "by >= 2 idle cycles; a data packet that IS REPORTED (and is going to be ACKed) is followed by >= (rx-to-tx delay "
    "+ 3) idle cycles (the host waits for the handshake).  The older theorems (earlier_garbage_is_harmless, "
    "garbage_keeps_boundary) assume the handshake gap after every data-PID packet (gapOk; legal_legalFrom shows it is "
    "the stronger assumption)",
    "bytes are 8 bit; timer delay <= counter_max + 1",
    "setup_reported_iff reads 'a SETUP token ... is followed by' as the packet-level `armedAfter`: the last non-SOF token "
    "seen is a SETUP for this device and no data packet since made the deserializer strobe (CRC-valid with <= 8 payload "
    "bytes, or a 0/1-byte runt whose comparison hits the stale registers: `dsStrobes`); directly after the SETUP token "
    "this always holds (armed_after_setup_token)",
    "ack_once_after_gap, exclusion of the 'timer already at delay in the strobe cycle' quirk: delay < 13 and delay <= "
    "counter_max (HS 1, FS 10 in the real timer table)",
    "the decoder does not look at the endpoint number of the SETUP token (the control endpoint filters it): theorems "
    "and monitor count SETUP tokens to any endpoint of this device's address",
]
PARTIAL = ""   # setup_reported_iff (every legal history, packet level, exact characterisation `dsStrobes` of the deserializer
               # strobe incl. stale-register runts) and ack_once_after_gap (cycle numbers) are theorems.  Excluded by the
               # environment assumptions only: a data-PID packet followed by a single idle cycle (below the bus's
               # inter-packet delay: >= 2 FS bit times = 10 cycles, >= 11 cycles at HS); 'hostile' cases co-simulate it.

OUR_TOKENS = [U.PID_OUT, U.PID_IN, U.PID_SETUP, U.PID_PING]
HS_DELAY, FS_DELAY, COUNTER_MAX = 1, 10, 640
NAMES_IN = ["rx_active", "rx_valid", "rx_data"]
NAMES_OUT = ["packet.received", "bmRequestType", "packet.request", "packet.value", "packet.index", "packet.length",
             "ack", "tokenizer.new_token", "tokenizer.pid", "tokenizer.address", "tokenizer.endpoint", "data_crc.crc"]


def gen_cases(tier, rng):
    n = {"quick": 72, "widen": 288}.get(tier, 900)
    out = []
    for k in range(n):
        variant = "standalone" if k % 3 == 0 else "wired"
        out.append({"variant": variant, "hs": (k // 3) % 2, "hostile": 1 if k % 9 == 8 else 0,
                    "addr": 0 if variant == "standalone" else rng.choice([0, 1, 33, 77, 127, rng.below(128)]),
                    "seed": rng.u64(), "k": k, "runt": (k // 2) % len(RUNT_SHAPES)})
    return out


# ----------------------------------------------------------------------------------------- stimulus
def setup_data(rng):
    return [rng.choice([0x00, 0x80, 0x21, 0xA1, 0xC0, rng.below(256)]), rng.below(256)] + rng.bytes(6)


def data_variants(rng, body):
    """(packet bytes, kind) for the data stage of a SETUP transaction."""
    kind = rng.weighted([(50, "good"), (10, "badcrc"), (6, "short"), (6, "long"), (4, "pidonly"), (4, "aborted"),
                         (3, "data1"), (2, "nodata")])
    pid = U.PID_DATA0
    if kind == "good":
        return U.data_packet(pid, body), kind
    if kind == "data1":
        return U.data_packet(rng.choice([U.PID_DATA1, U.PID_DATA2, U.PID_MDATA]), body), kind
    if kind == "badcrc":
        p = U.data_packet(pid, body)
        p[rng.range(1, len(p) - 1)] ^= 1 << rng.below(8)
        return p, kind
    if kind == "short":
        return U.data_packet(pid, body[:rng.range(0, 7)]), kind
    if kind == "long":
        return U.data_packet(pid, body + rng.bytes(rng.range(1, 4))), kind
    if kind == "pidonly":
        return [U.pid_byte(pid)], kind
    if kind == "aborted":
        p = U.data_packet(pid, body)
        return p[:rng.range(2, len(p) - 1)], kind
    return None, kind


def garbage_packet(rng, addr):
    kind = rng.weighted([(6, "own-token"), (6, "foreign-token"), (3, "sof"), (4, "handshake"), (4, "badcrc5"),
                         (5, "data"), (3, "baddata"), (3, "shortdata"), (3, "anypid"), (1, "empty"), (2, "longtoken")])
    if kind == "own-token":
        return U.token_packet(rng.choice([U.PID_OUT, U.PID_IN, U.PID_PING]), addr, rng.below(16)), kind
    if kind == "foreign-token":
        return U.token_packet(rng.choice(OUR_TOKENS), (addr + rng.range(1, 127)) % 128, rng.below(16)), kind
    if kind == "sof":
        return U.sof_packet(rng.below(2048)), kind
    if kind == "handshake":
        return U.handshake_packet(rng.choice([U.PID_ACK, U.PID_NAK, U.PID_STALL, U.PID_NYET])), kind
    if kind == "badcrc5":
        p = U.token_packet(rng.choice(OUR_TOKENS), addr, rng.below(16))
        p[rng.range(1, 2)] ^= 1 << rng.below(8)
        return p, kind
    if kind == "data":
        return U.data_packet(rng.choice([U.PID_DATA0, U.PID_DATA1]), rng.bytes(rng.choice([0, 1, 2, 7, 8, 8, 9, 12, 30]))), kind
    if kind == "baddata":
        p = U.data_packet(rng.choice([U.PID_DATA0, U.PID_DATA1]), rng.bytes(rng.choice([1, 2, 3, 5, 8, 8, 20])))
        p[rng.range(1, len(p) - 1)] ^= 1 << rng.below(8)
        return p, kind
    if kind == "shortdata":
        return [U.pid_byte(rng.choice([U.PID_DATA0, U.PID_DATA1]))] + rng.bytes(rng.range(0, 1)), kind
    if kind == "anypid":
        return [rng.below(256)] + rng.bytes(rng.range(0, 12)), kind
    if kind == "empty":
        return [], kind
    return U.token_packet(U.PID_SETUP, addr, 0) + rng.bytes(rng.range(1, 3)), kind

class Pkt(list):
    """packet bytes with an optional byte-timing override (`style`) for render()"""
    style = None


def solve_outer_crc(prefix, suffix, target):
    """two bytes [a, b] with usb2_crc16(prefix + [a, b] + suffix) == target, or None (the CRC is affine over GF(2):
    16 evaluations of the reference CRC and a Gaussian elimination)"""
    def f(x):
        return U.usb2_crc16(prefix + [x & 255, x >> 8] + suffix)
    f0 = f(0)
    basis = {}
    for i in range(16):
        c, m = f(1 << i) ^ f0, 1 << i
        while c:
            h = c.bit_length() - 1
            if h not in basis:
                basis[h] = (c, m)
                break
            c, m = c ^ basis[h][0], m ^ basis[h][1]
    w, x = target ^ f0, 0
    while w:
        h = w.bit_length() - 1
        if h not in basis:
            return None
        w, x = w ^ basis[h][0], x ^ basis[h][1]
    return [x & 255, x >> 8]


def embedded_item(rng, addr):
    """packets in which a well-formed packet sits INSIDE a longer one (a deserializer / token detector that
    resynchronises in mid-packet would see it).  Returns (list of Pkt, shape name)."""
    body = setup_data(rng)
    tok = Pkt(U.token_packet(U.PID_SETUP, addr, rng.choice([0, 0, 0, rng.below(16)])))
    dpid = U.pid_byte(rng.choice([U.PID_DATA0, U.PID_DATA0, U.PID_DATA1]))
    shape = rng.weighted([(46, "tail-setup"), (8, "tail-short"), (10, "valid-then-junk"), (8, "token+data"),
                          (8, "junk+token"), (8, "data+token"), (6, "double-pid"), (6, "mid-setup"), (8, "token+junk")])
    style = rng.choice([None, "hs", "hs", "fs4", "fs4", "fs40"])
    armed = rng.chance(80)
    pre = [tok] if armed else []
    if shape in ("tail-setup", "tail-short", "mid-setup"):
        inner = body if shape != "tail-short" else body[:rng.range(0, 7)]
        inner_pkt = U.data_packet(rng.choice([U.PID_DATA0, U.PID_DATA0, U.PID_DATA1]), inner)
        # the capture buffer holds 10 bytes; byte 11 is the over-length exit.  A deserializer that resynchronises there
        # takes byte 12 (byte 13 at back-to-back timing) as the next PID: matched offsets most of the time.
        if rng.chance(75):
            nfill = 12 if style == "hs" else 11 if style in ("fs4", "fs40") else rng.choice([11, 12])
        else:
            nfill = rng.range(8, 15)
        filler = rng.bytes(nfill)
        if shape == "mid-setup":
            p = [dpid] + filler + inner_pkt + rng.bytes(rng.range(1, 3))     # ... and trailing bytes after the inner CRC
        else:
            if rng.chance(50):
                # the last two bytes are the CRC16 of the inner payload AND of the whole outer payload
                k = rng.below(nfill - 1)
                ab = solve_outer_crc(filler[:k], filler[k + 2:] + inner_pkt[:-2], inner_pkt[-2] | (inner_pkt[-1] << 8))
                if ab is not None:
                    filler[k:k + 2] = ab
                    shape += "+outer-crc-valid"
            p = [dpid] + filler + inner_pkt
        out = pre + [Pkt(p)]
    elif shape == "valid-then-junk":
        out = pre + [Pkt(U.data_packet(U.PID_DATA0, body) + rng.bytes(rng.range(1, 4)))]
    elif shape == "token+data":
        # missing end-of-packet between the token and its data packet: one burst, neither is a packet
        out = [Pkt(list(tok) + U.data_packet(U.PID_DATA0, body))]
    elif shape == "token+junk":
        # a SETUP token with trailing bytes is not a token; the valid data packet after it must not be reported
        out = [Pkt(list(tok) + rng.bytes(rng.range(1, 3))), Pkt(U.data_packet(U.PID_DATA0, body))]
    elif shape == "junk+token":
        first = rng.choice([U.pid_byte(U.PID_ACK), U.pid_byte(U.PID_NAK), rng.below(256)])
        out = [Pkt([first] + rng.bytes(rng.range(0, 3)) + list(tok)), Pkt(U.data_packet(U.PID_DATA0, body))]
    elif shape == "data+token":
        out = [Pkt([dpid] + rng.bytes(rng.range(0, 12)) + list(tok)), Pkt(U.data_packet(U.PID_DATA0, body))]
    else:   # double-pid
        out = pre + [Pkt([dpid] + U.data_packet(U.PID_DATA0, body))]
    for q in out:
        q.style = style
    return out, shape


RUNT_PIDS = [U.PID_OUT, U.PID_IN, U.PID_SETUP, U.PID_SOF, U.PID_PING]
RUNT_NAMES = {U.PID_OUT: "OUT", U.PID_IN: "IN", U.PID_SETUP: "SETUP", U.PID_SOF: "SOF", U.PID_PING: "PING"}
RUNT_SHAPES = [(pid, n) for pid in RUNT_PIDS for n in (1, 2)]      # token PID alone | token PID + ONE byte


def runt_item(rng, addr, shape=None):
    """a token cut short (valid token PID, then 0 or 1 of its 2 payload bytes, then rx_active falls) DIRECTLY before a
    valid SETUP transaction (SETUP token to us + DATA0 with 8 bytes and matching CRC16), which must be reported and
    ACKed.  Byte timing back-to-back (HS), 4-gap or 40-cycle (FS) for all three packets."""
    pid, n = shape if shape is not None else rng.choice(RUNT_SHAPES)
    full = (U.sof_packet(rng.below(2048)) if pid == U.PID_SOF else
            U.token_packet(pid, rng.choice([addr, addr, (addr + rng.range(1, 127)) % 128]), rng.below(16)))
    if rng.chance(25):
        full[1] = rng.below(256)
    style = rng.choice(["hs", "hs", "fs4", "fs40", "fs40"])
    out = [Pkt(full[:n]), Pkt(U.token_packet(U.PID_SETUP, addr, rng.choice([0, 0, 0, rng.below(16)]))),
           Pkt(U.data_packet(U.PID_DATA0, setup_data(rng)))]
    for q in out:
        q.style = style
    return out, "%s+%d:%s" % (RUNT_NAMES[pid], n - 1, style)


def make_script(rng, addr, runt=None):
    """list of packets (bytes) with tags.  `runt` = index into RUNT_SHAPES of a runt-token item every script of that
    case contains at a random position (gen_cases sweeps it, so every shape occurs at HS and FS in every tier)."""
    pkts, tags = [], set()
    n_items = rng.range(6, 16)
    forced_at = rng.below(n_items) if runt is not None else -1
    for item_no in range(n_items):
        what = rng.weighted([(34, "setup"), (10, "retry"), (7, "foreign-after-fail"), (7, "own-token-between"),
                             (5, "foreign-setup"), (22, "garbage"), (15, "embedded"), (10, "runt-token")])
        if item_no == forced_at:
            what = "runt-token"
        tags.add("item:" + what)
        if what == "runt-token":
            ps, k = runt_item(rng, addr, RUNT_SHAPES[runt] if item_no == forced_at else None)
            tags.add("runt:" + k)
            pkts += ps
            continue
        if what == "embedded":
            ps, k = embedded_item(rng, addr)
            tags.add("embedded:" + k)
            tags.add("embedded-timing:" + str(ps[0].style))
            pkts += ps
            continue
        if what == "garbage":
            for _ in range(rng.range(1, 3)):
                p, k = garbage_packet(rng, addr)
                tags.add("garbage:" + k)
                pkts.append(p)
            continue
        body = setup_data(rng)
        tok = U.token_packet(U.PID_SETUP, addr, rng.choice([0, 0, 0, rng.below(16)]))
        if what == "setup":
            pkts.append(tok)
            d, k = data_variants(rng, body)
            tags.add("data:" + k)
            if d is not None:
                pkts.append(d)
        elif what == "retry":
            bad = U.data_packet(U.PID_DATA0, body)
            bad[rng.range(1, 10)] ^= 1 << rng.below(8)
            if rng.chance(30):
                bad = U.data_packet(U.PID_DATA0, body[:rng.range(0, 6)])
                bad[-1] ^= 0x10
            pkts += [tok, bad, tok, U.data_packet(U.PID_DATA0, body)]
        elif what == "foreign-after-fail":
            bad = U.data_packet(U.PID_DATA0, body)
            bad[rng.range(1, 10)] ^= 1 << rng.below(8)
            other = (addr + rng.range(1, 127)) % 128
            pkts += [tok, bad, U.token_packet(rng.choice([U.PID_OUT, U.PID_SETUP]), other, rng.below(16)),
                     U.data_packet(U.PID_DATA0, setup_data(rng))]
        elif what == "own-token-between":
            pkts += [tok, U.token_packet(rng.choice([U.PID_OUT, U.PID_IN, U.PID_PING]), addr, rng.below(16)),
                     U.data_packet(U.PID_DATA0, body)]
        else:
            pkts += [U.token_packet(U.PID_SETUP, (addr + rng.range(1, 127)) % 128, 0), U.data_packet(U.PID_DATA0, body)]
    return pkts, tags


def render(rng, pkts, delay, hostile):
    rows = [[0, 0, rng.below(256)] for _ in range(rng.range(0, 3))]
    style = rng.choice(["dense", "dense", "mixed", "fs"])
    for p in pkts:
        rows += [[1, 0, rng.below(256)] for _ in range(rng.choice([1, 1, 2, 3]))]
        pstyle = getattr(p, "style", None) or style
        for b in p:
            rows.append([1, 1, b])
            g = {"dense": rng.choice([0, 0, 0, 0, 1]), "mixed": rng.choice([0, 1, 2, 5]),
                 "fs": rng.choice([38, 40]) if len(p) <= 3 else rng.choice([0, 3, 4]),
                 "hs": 0, "fs4": 4, "fs40": rng.choice([39, 39, 40])}[pstyle]
            rows += [[1, 0, rng.below(256)] for _ in range(g)]
        is_data = bool(p) and U.pid_ok(p[0]) and (p[0] & 3) == 3
        gap = rng.choice([1, 1, 1, 2, 3, 6, 14])
        if is_data and not hostile:
            # the handshake gap after anything that could be reported (PID + 8 + CRC16); other data-PID packets
            # (runts, short, over-long, embedded shapes) may be followed by as little as 2 idle cycles
            gap = delay + 3 + rng.choice([0, 0, 0, 1, 4, 20])
            if len(p) != 11 and rng.chance(50):
                gap = rng.choice([2, 2, 3, 5, 9])
        rows += [[0, 0, rng.below(256)] for _ in range(gap)]
    rows += [[0, 0, 0]] * (delay + 6)
    if hostile:
        for _ in range(rng.range(2, 12)):
            t = rng.below(len(rows))
            w = rng.below(3)
            if w == 0:
                rows[t][1] = 1
            elif w == 1:
                rows[t][0] ^= 1
            else:
                rows[t][0], rows[t][1] = 0, 1
    return rows


# ----------------------------------------------------------------------------------------- DUT
def build(variant):
    from amaranth import Module, Signal, Elaboratable, Cat
    from luna.gateware.usb.usb2.request import USBSetupDecoder
    from luna.gateware.usb.usb2.packet import USBTokenDetector, USBDataPacketCRC, USBInterpacketTimer
    from luna.gateware.interface.utmi import UTMIInterface
    utmi = UTMIInterface()
    addr = Signal(7, name="device_address")
    if variant == "standalone":
        dec = USBSetupDecoder(utmi=utmi, standalone=True)
        return dec, dec, utmi, addr, None

    class Wired(Elaboratable):
        """decoder + token detector + shared CRC unit + inter-packet timer, connected as a USB device connects them"""

        def __init__(self):
            self.dec = USBSetupDecoder(utmi=utmi)

        def elaborate(self, platform):
            m = Module()
            m.submodules.dec = dec = self.dec
            m.submodules.tok = tok = USBTokenDetector(utmi=utmi)
            m.submodules.crc = crc = USBDataPacketCRC()
            m.submodules.timer = timer = USBInterpacketTimer()
            crc.add_interface(dec.data_crc)
            timer.add_interface(dec.timer)
            m.d.comb += [
                tok.interface.connect(dec.tokenizer),
                tok.address.eq(addr), tok.speed.eq(dec.speed), timer.speed.eq(dec.speed),
                crc.rx_data.eq(utmi.rx_data), crc.rx_valid.eq(utmi.rx_valid), crc.tx_valid.eq(0),
            ]
            return m

    top = Wired()
    return top, top.dec, utmi, addr, top.dec.data_crc.crc


# ----------------------------------------------------------------------------------------- monitor
def classify(p, addr):
    """('token', pid, ours) | ('sof',) | ('data', payload or None if CRC bad/too short) | ('other',)"""
    if len(p) == 3 and U.pid_ok(p[0]) and ((p[0] & 3) == 1 or (p[0] & 15) == U.PID_PING):
        w = p[1] | (p[2] << 8)
        d = w & 0x7FF
        if U.usb2_crc5(d) == (w >> 11):
            if (p[0] & 15) == U.PID_SOF:
                return ("sof",)
            return ("token", p[0] & 15, (d & 0x7F) == addr)
    if p and U.pid_ok(p[0]) and (p[0] & 3) == 3:
        if len(p) >= 3 and U.usb2_crc16(p[1:-2]) == (p[-2] | (p[-1] << 8)):
            return ("data", p[1:-2])
        return ("data", None)
    return ("other",)


def monitor(stim, rows, addr, hs, delay):
    fails = []
    pkts, cur = [], None
    for t, (a, v, d) in enumerate(stim):
        if a:
            if cur is None:
                cur = [t, None, []]
            if v:
                cur[2].append(d)
        elif cur is not None:
            cur[1] = t
            pkts.append(cur)
            cur = None
    strict = loose = False
    must, may, fields = {}, set(), {}
    for (st, en, p) in pkts:
        c = classify(p, addr)
        if c[0] == "token":
            strict = loose = (c[2] and c[1] == U.PID_SETUP)
            continue
        if c[0] == "data" and c[1] is not None and len(c[1]) == 8:
            b = c[1]
            f = (b[0], b[1], b[2] | (b[3] << 8), b[4] | (b[5] << 8), b[6] | (b[7] << 8))
            if strict:
                must[en + 2] = f
            elif loose:
                may.add(en + 2)
            fields[en + 2] = f
        if c[0] != "sof":
            strict = False
        if c[0] == "data" and c[1] is not None and len(c[1]) <= 8:
            loose = False           # a deserializer strobe ends the wait (wrong length -> IDLE, right length -> reported);
                                    # more than 8 payload bytes overflow the buffer: no strobe
    want_ack = set()
    for t, r in enumerate(rows):
        rec = r[0]
        if rec:
            if t in must or t in may:
                if tuple(r[1:6]) != fields[t]:
                    fails.append({"cycle": t, "sig": "setup-fields",
                                  "what": "reported (bmRequestType, bRequest, wValue, wIndex, wLength) = %r, the data "
                                          "packet says %r" % (tuple(r[1:6]), fields[t])})
                want_ack.add(t - 1 if hs else t + delay)
            else:
                fails.append({"cycle": t, "sig": "setup-spurious",
                              "what": "packet.received at cycle %d although no SETUP token to address %d directly "
                                      "precedes a valid 8-byte data packet ending at cycle %d" % (t, addr, t - 2)})
        elif t in must:
            fails.append({"cycle": t, "sig": "setup-missed",
                          "what": "a SETUP token to address %d followed by a CRC-valid 8-byte data packet (ending at "
                                  "cycle %d) was not reported" % (addr, t - 2)})
        if len(fails) > 3:
            break
    for t, r in enumerate(rows):
        if bool(r[6]) != (t in want_ack):
            fails.append({"cycle": t, "sig": "ack-missing-or-mistimed" if t in want_ack else "ack-spurious",
                          "what": "ack=%d at cycle %d, expected %d (one ACK per reported SETUP, %s)"
                                  % (r[6], t, int(t in want_ack),
                                     "in the cycle of the deserializer strobe at HS" if hs else
                                     "%d cycles after the deserializer strobe" % (delay + 1))})
            break
    return fails[:4]


def run_case(desc):
    top, dec, utmi, addr_sig, crc_sig = build(desc["variant"])
    hs = bool(desc["hs"])
    delay = HS_DELAY if hs else FS_DELAY
    addr = desc["addr"]
    hostile = bool(desc.get("hostile"))
    rng = Rng(desc["seed"])
    tags = set()
    if desc.get("stimulus"):
        stim = desc["stimulus"]
        tags.add("replay")
    else:
        pkts, tags = make_script(rng, addr, desc.get("runt"))
        stim = render(rng, pkts, delay, hostile)
    from amaranth import Cat, Const
    rt = Cat(dec.packet.recipient, dec.packet.type, dec.packet.is_in_request)
    ins = [utmi.rx_active, utmi.rx_valid, utmi.rx_data, dec.speed, addr_sig]
    outs = [dec.packet.received, rt, dec.packet.request, dec.packet.value, dec.packet.index, dec.packet.length,
            dec.ack, dec.tokenizer.new_token, dec.tokenizer.pid, dec.tokenizer.address, dec.tokenizer.endpoint]
    if crc_sig is not None:
        outs.append(crc_sig)
    speed = 0 if hs else 1
    rows = sim.run_cycles(top, ins, outs, [list(r) + [speed, addr] for r in stim], domain="usb")
    if crc_sig is None:
        rows = [tuple(r) + (None,) for r in rows]
    fails = [] if hostile else monitor(stim, rows, addr, hs, delay)
    tags = sorted(tags) + ["variant:" + desc["variant"], "speed:" + ("hs" if hs else "fs")] + (["hostile"] if hostile else [])
    return Case([addr, int(hs), delay, COUNTER_MAX], stim, rows, fails, tags, desc, NAMES_IN, NAMES_OUT)
