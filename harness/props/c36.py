"""C36 — RawPacketTransmitter framing (luna/gateware/usb/usb3/link/transmitter.py) and the round
trip through RawHeaderPacketReceiver (link/receiver.py) and DataPacketReceiver (link/data.py).

Case kinds: "tx" = transmitter alone, closed-loop stream producer, compared with the Lean model and
checked against the frame built from the specification; "rand" = transmitter under arbitrary inputs
(model comparison only: the producer breaks the stream contract); "loop" = the real transmitter
feeding the two real receivers in one pysim design (monitor only)."""
from harness.common.framework import Case
from harness.common.rng import Rng
from harness.common import sim
from harness.props import sspkt_util as U

PROP = "C36"
LEAN_MODULES = ["LunaVerif.Props.C36", "LunaVerif.Lemmas.C36CrcBounds", "LunaVerif.Lemmas.C36Frame",
                "LunaVerif.Lemmas.C36RoundTrip", "LunaVerif.Lemmas.C36RoundTripGaps",
                "LunaVerif.Lemmas.C36HeaderRxGaps"]
DRIVER = "Driver/C36.lean"
REQUIRED_THEOREMS = ["tx_emits_frame", "tx_emits_frame_complete", "rx_of_tx", "dppTail_eq_pack", "runPkt_done_only_last",
                     "done_is_transfer_to_idle", "dpr_of_frame", "hrx_of_frame", "rx_of_tx_gaps", "hrx_of_frame_gaps",
                     "tx_emits_frame_partial", "stall_invariant", "header_words", "delayed_aborts_with_edb",
                     "crc32_immediately_after_last_byte", "payload_words_in_order", "dpp_frame_all_lengths"]
RULE = ("tx/loop cases: sequences of header packets (transaction / link management / ITP types, data headers, the "
        "0b11000 type that the 4-bit data test also takes) with payload lengths 0..17, 1020..1024 and random (every "
        "residue mod 4), delayed data headers, PHY ready patterns (always / 50 % / 10 % with long stalls / 90 %); "
        "in every tier two fixed loop cases carrying back-to-back DATA packets of 1024+1023 bytes (PHY always ready) and "
        "1021+1024 bytes (90 % ready) - the maximum packet size round trip (thorough/widen: two more, 50 % / 10 % ready) - and "
        "one with delayed data headers for which data_sink stays silent, each followed by a data packet with payload; in the "
        "random sequences the producer is silent for half of the delayed headers; "
        "rand cases: all inputs random every cycle")
ASSUMPTIONS = ["tx_emits_frame: stream contract of data_sink as the decidable predicate `obeys` (Lemmas/C36Frame.lean), required "
               "only for a data header that is not delayed: in every cycle from the one after `generate` up to `done` the "
               "producer presents the first payload word not yet accepted (valid mask 15 and last=0 for full words, the "
               "low-lane mask of the 1..4 remaining bytes and last=1 for the final word) and advances exactly on "
               "data_sink.ready; for a zero-length payload data_sink.valid = 0 in the cycle DWORD 3 is transferred; the header "
               "fields are presented with `generate` in IDLE (they are latched then) and fit their widths; payload bytes < 256. "
               "No assumption on source.ready, on the header inputs / generate after the first cycle, or on data_sink once "
               "the last word has been accepted",
               "rx_of_tx: header type = DATA (dw0[0:5] = 0b01000), not delayed, payload length = the header's length field "
               "(11 bit); receivers start from reset; data receiver: any history whose valid words are the frame "
               "(rx_of_tx_gaps); header receiver: any history whose valid words are the frame, followed by one more cycle "
               "that is not a header start (hrx_of_frame_gaps), expected_sequence = the header's sequence number"]
PARTIAL = ""


def gen_cases(tier, rng):
    n = {"quick": 8, "widen": 24}.get(tier, 80)
    out = []
    for k in range(n):
        out.append({"kind": "tx", "seed": rng.u64(), "k": k, "npk": 8 if tier == "quick" else 12})
        out.append({"kind": "loop", "seed": rng.u64(), "k": k, "npk": 5 if tier == "quick" else 8})
        if k % 2 == 0:
            out.append({"kind": "rand", "seed": rng.u64(), "k": k, "len": 300})
    # full-size round trips in EVERY tier: DATA packets of exactly MAX_PACKET_SIZE = 1024 bytes (and 1023 / 1021 / 1022) through
    # transmitter -> both receivers; one elaborated design carries the packets of a case; k selects the PHY ready pattern
    # third fixed case: delayed data headers for which NO payload is presented (a retransmitted header; data_sink silent),
    # each followed by an ordinary data packet with payload - the abort path must leave nothing behind
    big = [([1024, 1023], 0), ([1021, 1024], 3), ([3, [0, "delayed"], 5, [9, "delayed"], 6, 0, 4, [2, "delayed"], 0, 17], 1)]
    if tier != "quick":
        big += [([1024, 1022, 1024], 1), ([1023, 1024, 0, 1024], 2)]
    for lens, k in big:
        out.append({"kind": "loop", "seed": rng.u64(), "k": k, "big": lens})
    return out


def make_big_packets(rng, lens):
    """back-to-back DATA packets (type 0b01000, not delayed) with the given payload lengths"""
    pkts = []
    for L in lens:
        delayed = 0
        if isinstance(L, list):
            L, delayed = L[0], 1
        lcw = U.link_control_word(seq=rng.below(8), reserved=0, hub_depth=0, delayed=delayed, deferred=rng.below(2))
        dw0, dw1, dw2 = U.data_header(L, addr=rng.below(128), seq=rng.below(32), ep=rng.below(16),
                                      direction=rng.below(2), route=0)
        pkts.append({"dw0": dw0, "dw1": dw1, "dw2": dw2, "lcw": lcw, "payload": rng.bytes(L), "delayed": delayed,
                     "mute": delayed, "idle": rng.choice([0, 1, 3])})
    return pkts


def make_packets(rng, k, npk):
    pkts = []
    for j in range(npk):
        r = rng.below(100)
        if r < 22:
            ty = rng.choice([0b00100, 0b00000, 0b01100, 0b00100])
            L = None
        elif r < 26:
            ty, L = 0b11000, (k + j) % 6          # quirk: dw0[0:4] == 8 also for type 0b11000
        else:
            ty = 0b01000
            q = rng.below(100)
            L = (k + j) % 18 if q < 55 else rng.choice([1020, 1021, 1022, 1023, 1024]) if q < 62 and j % 3 == 1 \
                else rng.range(0, 40)
        delayed = 1 if (L is not None and rng.chance(12)) else 0
        lcw = U.link_control_word(seq=rng.below(8), reserved=rng.choice([0, rng.below(8)]),
                                  hub_depth=rng.choice([0, rng.below(8)]), delayed=delayed, deferred=rng.below(2))
        if L is None:
            dw0 = ty | (rng.bits(27) << 5)
            dw1, dw2 = rng.bits(32), rng.bits(32)
            payload = None
        else:
            dw0, dw1, dw2 = U.data_header(L, addr=rng.below(128), seq=rng.below(32), ep=rng.below(16),
                                          direction=rng.below(2), route=rng.choice([0, rng.bits(20)]))
            dw0 = (dw0 & ~0x1F) | ty
            payload = rng.bytes(L)
        pkts.append({"dw0": dw0, "dw1": dw1, "dw2": dw2, "lcw": lcw, "payload": payload, "delayed": delayed,
                     "idle": rng.choice([0, 0, 1, 3])})
        # a delayed header is a retransmission: the link layer has no payload for it, so half of the time data_sink
        # stays silent (the stream contract asks nothing of the producer for a delayed header)
        pkts[-1]["mute"] = 1 if (delayed and rng.chance(50)) else 0
    return pkts


def expected_frame(p):
    words = U.header_words(p["dw0"], p["dw1"], p["dw2"], p["lcw"])
    if (p["dw0"] & 0xF) == 8:
        if p["delayed"]:
            words += [U.DPPSTART, U.DPPABORT]
        else:
            words += U.dpp_words(p["payload"] or [])
    return words


def payload_words(payload):
    """data_sink words: (valid mask, data, last)"""
    out = []
    for i in range(0, len(payload), 4):
        chunk = payload[i:i + 4]
        out.append(((1 << len(chunk)) - 1, sum(b << (8 * n) for n, b in enumerate(chunk)), int(i + 4 >= len(payload))))
    return out


class Producer:
    """Closed-loop stimulus: presents packets one after the other, advances the payload stream on
    data_sink.ready, draws source.ready from the pattern."""

    def __init__(self, rng, pkts, style):
        self.rng, self.pkts, self.style = rng, pkts, style
        self.pi, self.words, self.wi = 0, [], 0
        self.busy, self.wait, self.stall = False, 1, 0
        self.cur = None

    def ready_bit(self):
        rng = self.rng
        if self.stall:
            self.stall -= 1
            return 0
        if self.style == 0:
            return 1
        if self.style == 1:
            return 1 if rng.chance(50) else 0
        if self.style == 2:
            if rng.chance(3):
                self.stall = rng.range(4, 25)
            return 1 if rng.chance(10) else 0
        return 1 if rng.chance(90) else 0

    def inputs(self):
        rng = self.rng
        gen = 0
        if not self.busy and self.pi < len(self.pkts):
            if self.wait:
                self.wait -= 1
            else:
                self.cur = self.pkts[self.pi]
                self.pi += 1
                self.busy, gen = True, 1
                self.words = [] if self.cur.get("mute") else payload_words(self.cur["payload"] or [])
                self.wi = 0
        p = self.cur if self.busy else None
        if p is not None:
            hdr = [p["dw0"], p["dw1"], p["dw2"], p["lcw"]]
        else:
            hdr = [rng.bits(32), rng.bits(32), rng.bits(32), rng.bits(11)]
        if self.busy and self.wi < len(self.words):
            v, d, l = self.words[self.wi]
        else:
            v, d, l = 0, rng.bits(32), rng.below(2)
        return hdr + [gen, self.ready_bit(), v, d, l]

    def observe(self, out):
        valid, data, ctrl, done, sink_ready = out[:5]
        if sink_ready and self.busy and self.wi < len(self.words):
            self.wi += 1
        if done:
            self.busy = False
            self.wait = self.cur["idle"]

    def finished(self):
        return not self.busy and self.pi >= len(self.pkts)


def tx_signals(dut):
    h = dut.header
    ins = [h.dw0, h.dw1, h.dw2, h.sequence_number, h.dw3_reserved, h.hub_depth, h.delayed, h.deferred,
           h.crc16, h.crc5, dut.generate, dut.source.ready, dut.data_sink.valid, dut.data_sink.data,
           dut.data_sink.last, dut.data_sink.first]
    outs = [dut.source.valid, dut.source.data, dut.source.ctrl, dut.done, dut.data_sink.ready]
    return ins, outs


def expand(row, rng=None):
    """model-level row (dw0 dw1 dw2 lcw generate ready sink_valid sink_data sink_last) -> signal values"""
    dw0, dw1, dw2, lcw, gen, rdy, sv, sd, sl = row[:9]
    junk16 = (dw1 ^ dw2) & 0xFFFF          # the crc fields of the input header must be ignored
    return [dw0, dw1, dw2, lcw & 7, (lcw >> 3) & 7, (lcw >> 6) & 7, (lcw >> 9) & 1, (lcw >> 10) & 1,
            junk16, dw0 & 0x1F, gen, rdy, sv, sd, sl, sl ^ 1]


def run_closed_loop(top, ins, outs, producer, max_cycles, replay=None):
    from amaranth.sim import Simulator
    wrapped = sim._Wrap(top, ["ss"])
    s = Simulator(wrapped)
    s.add_clock(1e-6, domain="ss")
    stim, rows = [], []

    async def tb(ctx):
        t, tail = 0, 4
        while True:
            if replay is not None:
                if t >= len(replay):
                    break
                row = list(replay[t])
            else:
                if t >= max_cycles:
                    break
                if producer.finished():
                    tail -= 1
                    if tail < 0:
                        break
                row = producer.inputs()
            for sig, v in zip(ins, expand(row)):
                ctx.set(sig, v & ((1 << len(sig)) - 1))
            out = tuple(ctx.get(o) & ((1 << len(o)) - 1) for o in outs)
            stim.append(row)
            rows.append(out)
            if replay is None:
                producer.observe(out)
            await ctx.tick("ss")
            t += 1

    s.add_testbench(tb)
    s.run()
    return stim, rows


def check_frames(stim, rows, pkts, fails, tags, sig_prefix="tx", complete=True):
    """Compare the transferred words with the specification frames; check done / valid discipline."""
    emitted, cur, frames = [], [], []
    t_start = None
    for t, r in enumerate(rows):
        valid, data, ctrl, done = r[:4]
        ready = stim[t][5]
        if valid and ready:
            cur.append((data, ctrl))
        if done:
            if not (valid and ready) and not fails:
                fails.append({"cycle": t, "sig": sig_prefix + "-done", "what": "cycle %d: done without a transfer" % t})
            frames.append((t, cur))
            cur = []
    for n, (t, fr) in enumerate(frames):
        if n >= len(pkts):
            break
        want = expected_frame(pkts[n])
        p = pkts[n]
        tags.add("hdr-only" if (p["dw0"] & 0xF) != 8 else "aborted" if p["delayed"] else
                 "len%%4=%d" % (len(p["payload"]) % 4))
        if p["delayed"] and p.get("mute"):
            tags.add("aborted-silent-sink")
            if n + 1 < len(pkts) and pkts[n + 1]["payload"] and not pkts[n + 1]["delayed"]:
                tags.add("payload-after-silent-abort")
        if p["payload"] is not None and len(p["payload"]) >= 1020:
            tags.add("len>=1020")
        if p["payload"] is not None and len(p["payload"]) == 1024 and sig_prefix == "loop":
            tags.add("loop-len=1024")
        if p["payload"] == []:
            tags.add("zlp")
        if fr != want and not fails:
            i = next((x for x in range(min(len(fr), len(want))) if fr[x] != want[x]), min(len(fr), len(want)))
            what = ("word %d is %s, the frame requires %s" % (i, "(%08x,%x)" % fr[i] if i < len(fr) else "missing",
                                                               "(%08x,%x)" % want[i] if i < len(want) else "nothing"))
            nhdr = 5
            sig = sig_prefix + ("-header-words" if i < nhdr else "-abort" if p["delayed"] else "-payload-frame")
            fails.append({"cycle": t, "sig": sig, "what": "packet %d (dw0=%08x, %s payload bytes, delayed=%d) ending at cycle %d: %s"
                          % (n, p["dw0"], "no" if p["payload"] is None else len(p["payload"]), p["delayed"], t, what)})
    if complete and len(frames) < len(pkts) and not fails:
        fails.append({"cycle": len(rows) - 1, "sig": sig_prefix + "-incomplete", "what":
                      "%d packets requested, %d completed within %d cycles" % (len(pkts), len(frames), len(rows))})
    return frames


def run_case(desc):
    from amaranth import Elaboratable, Module, Signal, Cat
    from luna.gateware.usb.usb3.link.transmitter import RawPacketTransmitter
    kind = desc["kind"]
    rng = Rng(desc["seed"])
    k = desc.get("k", 0)
    fails, tags = [], {kind}
    names_in = ["dw0", "dw1", "dw2", "lcw", "generate", "ready", "sink_valid", "sink_data", "sink_last"]
    names_out = ["valid", "data", "ctrl", "done", "sink_ready"]
    if kind == "rand":
        dut = RawPacketTransmitter()
        ins, outs = tx_signals(dut)
        stim = desc.get("stimulus")
        if not stim:
            stim = []
            for _ in range(desc.get("len", 300)):
                dw0 = (rng.bits(28) << 4) | rng.choice([8, 8, 8, 4, rng.below(16)])
                stim.append([dw0, rng.bits(32), rng.bits(32), rng.bits(11) & (0x7FF if rng.chance(20) else 0x5FF),
                             1 if rng.chance(30) else 0, 1 if rng.chance(70) else 0,
                             rng.choice([15, 15, 15, 7, 3, 1, 0, rng.below(16)]), rng.bits(32), 1 if rng.chance(25) else 0])
        stim, rows = run_closed_loop(dut, ins, outs, None, 0, replay=stim)
        return Case([0], stim, rows, fails, sorted(tags), desc, names_in, names_out)

    # tx / loop cases are closed-loop (the producer reacts to data_sink.ready / done), so a replay re-runs the
    # producer from the seed instead of re-applying recorded inputs (those depend on the DUT's own responses)
    pkts = desc.get("packets") or (make_big_packets(rng, desc["big"]) if desc.get("big") else
                                   make_packets(rng, k, desc.get("npk", 8)))
    prod = Producer(rng.fork("prod"), pkts, k % 4)
    if kind == "tx":
        dut = RawPacketTransmitter()
        ins, outs = tx_signals(dut)
        stim, rows = run_closed_loop(dut, ins, outs, prod, 40000)
        check_frames(stim, rows, pkts, fails, tags)
        d = dict(desc)
        d["packets"] = pkts
        return Case([0], stim, rows, fails, sorted(tags), d, names_in, names_out)

    # ---- "loop": real transmitter -> real receivers
    from luna.gateware.usb.usb3.link.receiver import RawHeaderPacketReceiver
    from luna.gateware.usb.usb3.link.data import DataPacketReceiver

    class Loop(Elaboratable):
        def __init__(self):
            self.tx, self.hrx, self.drx = RawPacketTransmitter(), RawHeaderPacketReceiver(), DataPacketReceiver()

        def elaborate(self, platform):
            m = Module()
            m.submodules.tx, m.submodules.hrx, m.submodules.drx = self.tx, self.hrx, self.drx
            for rx in (self.hrx, self.drx):
                m.d.comb += [rx.sink.valid.eq(self.tx.source.valid & self.tx.source.ready),
                             rx.sink.data.eq(self.tx.source.data), rx.sink.ctrl.eq(self.tx.source.ctrl)]
            # the header receiver checks the sequence number against the one being transmitted
            seq = Signal(3)
            with m.If(self.tx.generate):
                m.d.ss += seq.eq(self.tx.header.sequence_number)
            m.d.comb += self.hrx.expected_sequence.eq(seq)
            return m
    top = Loop()
    ins, outs = tx_signals(top.tx)
    hp = Cat(*top.hrx.packet.fields.values())
    dh = Cat(*top.drx.header.fields.values())
    outs = outs + [top.hrx.new_packet, top.hrx.bad_packet, top.hrx.bad_sequence, hp[0:32], hp[32:64], hp[64:96], hp[96:128],
                   top.drx.packet_good, top.drx.packet_bad, top.drx.source.valid, top.drx.source.data,
                   dh[0:32], dh[32:64], dh[64:96], dh[96:128]]
    stim, rows = run_closed_loop(top, ins, outs, prod, 40000)
    frames = check_frames(stim, rows, pkts, fails, tags, "loop")
    # receivers' view
    hdrs, verdicts, cur = [], [], []
    for t, r in enumerate(rows):
        if r[6] or r[7]:
            if not fails:
                fails.append({"cycle": t, "sig": "loop-header-rejected", "what":
                              "cycle %d: header receiver bad_packet=%d bad_sequence=%d for a transmitted header" % (t, r[6], r[7])})
        if r[5]:
            hdrs.append((t, r[8:12]))
        cur.extend((r[15] >> (8 * b)) & 0xFF for b in range(4) if (r[14] >> b) & 1)
        if r[12] or r[13]:
            verdicts.append((t, "good" if r[12] else "bad", cur, r[16:20]))
            cur = []
    want_h = [(p["dw0"], p["dw1"], p["dw2"], U.dw3_for(p["dw0"], p["dw1"], p["dw2"], p["lcw"])) for p in pkts[:len(frames)]]
    got_h = [tuple(h) for _, h in hdrs]
    if got_h[:len(want_h)] != want_h[:len(got_h)] or len(got_h) < len(want_h) - 1:
        if not fails:
            fails.append({"cycle": 0, "sig": "loop-header-roundtrip", "what":
                          "headers received %s differ from headers sent %s" % (str(got_h)[:300], str(want_h)[:300])})
    want_v = []
    for p in pkts[:len(frames)]:
        if (p["dw0"] & 0x1F) == 0b01000:          # the data receiver only follows real DATA headers
            want_v.append(("bad", None) if p["delayed"] else ("good", p["payload"]))
    got_v = [(v, pl) for _, v, pl, _ in verdicts]
    for n, (v, pl) in enumerate(got_v):
        if n >= len(want_v) or v != want_v[n][0] or (want_v[n][1] is not None and pl != want_v[n][1]):
            if not fails:
                fails.append({"cycle": verdicts[n][0], "sig": "loop-data-roundtrip", "what":
                              "data verdict #%d is %s with %d payload bytes; sent: %s" % (
                                  n, v, len(pl), "nothing more" if n >= len(want_v) else
                                  "%s / %s bytes" % (want_v[n][0], "?" if want_v[n][1] is None else len(want_v[n][1])))})
            break
    if len(got_v) < len(want_v) and not fails:
        fails.append({"cycle": len(rows) - 1, "sig": "loop-data-roundtrip", "what":
                      "%d data packets sent, %d verdicts" % (len(want_v), len(got_v))})
    tags.add("roundtrip-data=%d" % min(len(got_v), 5))
    d = dict(desc)
    d["packets"] = pkts
    return Case([0], stim, [r[:5] for r in rows], fails, sorted(tags), d, names_in, names_out, lean=True)
