"""C52 — I2CInitiator + I2CBusDriver (luna/gateware/interface/i2c.py) against a behavioural target."""
from harness.common.framework import Case
from harness.common.rng import Rng
from harness.common import sim

PROP = "C52"
LEAN_MODULES = ["LunaVerif.Props.C52", "LunaVerif.Lemmas.I2cWrite", "LunaVerif.Lemmas.I2cRead"]
DRIVER = "Driver/C52.lean"
REQUIRED_THEOREMS = ["sda_changes_under_scl_high_only_for_start_stop", "busy_low_iff_accepting",
                     "stretch_holds_timer", "read_samples_when_scl_high", "write_and_ack_step_facts",
                     "sda_released_for_target_bits", "write_msb_first_and_ack", "read_returns_sampled_octet",
                     "sda_and_scl_never_change_together"]
RULE = ("cases = (period_cyc, clk_stretch) x behaviour; cooperative: random operation sequences (start, repeated "
        "start, write, read, stop) issued when busy is low, behavioural target on open-drain wired-AND lines (ACK/NAK, "
        "read data MSB first; per data/ACK bit either set up at a random early point of the low phase, or - 45% of the "
        "bits - LATE: SDA carries the inverted level (or the previous bit) through the low phase / the clock stretch and "
        "takes its valid level only 1-3 (clk_stretch off: 2-4) system cycles before SCL actually rises at the pads, "
        "held until SCL falls; random clock stretching after falling edges when clk_stretch is on, incl. stretches that "
        "end within +-2 cycles of the initiator's own release); the read-data / ack_o checks judge against the SDA "
        "level during the SCL-high period; chaotic: strobes at any time incl. several at once, target pulling SDA/SCL "
        "at random; the target keeps its ACK (and every late bit) on SDA until SCL falls again, so a repeated START "
        "requested straight after an acknowledged write finds SCL high and SDA held low by the TARGET; cooperative runs "
        "also check the wire (pad lines = AND of both open-drain drivers): every accepted start shows SDA falling while "
        "SCL is high before busy drops (start-condition-missing; a start strobed within 3 cycles of the previous "
        "START's own SDA fall is not judged)")
ASSUMPTIONS = [
    "pads are open drain with both lines bidirectional (I2CBus record); the two-stage FFSynchronizer is modelled as "
    "the fixed 2-cycle delay pysim gives it",
    "'SCL high' in the safety theorem is judged by the initiator's own SCL drive (scl_o = 1, i.e. it has released "
    "the line): whenever the initiator holds SCL low the line is low, so this is the conservative reading",
    "cooperative-target monitors: the target changes SDA only while the SCL line is low (SDA stable over the whole "
    "SCL-high period, set-up time to the rising pad edge >= 1 system cycle with clk_stretch, >= 2 = synchroniser "
    "latency without: there the initiator samples one cycle after releasing SCL without looking at the line) and "
    "stretches only directly after a falling edge; period_cyc >= 8",
]
PARTIAL = ""

NAMES_IN = ["scl_pad_i", "sda_pad_i", "start", "stop", "write", "read", "data_i", "ack_i"]
NAMES_OUT = ["scl_oe", "sda_oe", "busy", "ack_o", "data_o", "bus_sample", "bus_setup", "bus_start", "bus_stop"]


def gen_cases(tier, rng):
    n = {"quick": 80, "widen": 200}.get(tier, 800)
    out = []
    for k in range(n):
        kind = k % 4            # 0,1 cooperative; 2 cooperative with NAKs and heavy stretching; 3 chaotic
        if kind == 3:
            P = rng.choice([1, 2, 3, 4, 5, 7, 8, 16, 33])
        else:
            P = rng.choice([8, 12, 16, 20, 40, 64])
        out.append({"P": P, "stretch": 1 if (k // 4) % 3 else 0, "kind": kind, "seed": rng.u64()})
    return out


class _Agent:
    """Operation sequencer + behavioural target.  Sees only pad-level signals (and `busy`)."""

    def __init__(self, desc, rng):
        self.P, self.stretch, self.kind, self.rng = desc["P"], desc["stretch"], desc["kind"], rng
        self.prev_line_scl = 1
        self.t_sda_low = 0          # target pulls SDA
        self.t_scl_low = 0          # cycles the target still holds SCL low
        self.op = None              # operation in progress: (name, value)
        self.nfall = 0
        self.pending_bit = None     # (delay, value) SDA level the target will drive
        self.late_bit = None        # (delay, value): the VALID level, driven only shortly before SCL rises
        self.pred = []              # (cycle of the falling edge, predicted offset of the rising edge, set-up) - diagnostics
        self.t = -1
        self.started = False
        self.wait = 3

    def _low_len(self):
        """Length of the SCL-low phase in system cycles when nobody stretches: two quarter periods of
        period_cyc // 4 + 1 cycles; with clk_stretch the quarter timer additionally waits the two synchroniser
        cycles until the initiator sees its own falling edge.  (Only used to place SDA changes late in the low phase;
        the monitor does not rely on it.)"""
        return 2 * (self.P // 4 + 1) + (2 if self.stretch else 0)

    def cycle(self, scl_oe, sda_oe, busy):
        r = self.rng
        if self.kind == 3:
            strobes = [1 if r.chance(4) else 0 for _ in range(4)]
            if r.chance(3):
                self.t_sda_low ^= 1
            if r.chance(2):
                self.t_scl_low = r.range(0, 3 * self.P + 3)
            scl = 0 if (scl_oe or self.t_scl_low) else 1
            sda = 0 if (sda_oe or self.t_sda_low) else 1
            if self.t_scl_low:
                self.t_scl_low -= 1
            return [scl, sda] + strobes + [r.bits(8), r.below(2)]
        # ---- cooperative target
        self.t += 1
        if self.t_scl_low:
            self.t_scl_low -= 1
        scl = 0 if (scl_oe or self.t_scl_low) else 1
        fell = self.prev_line_scl == 1 and scl == 0
        self.prev_line_scl = scl
        if fell and self.op:
            self.nfall += 1
            name, val = self.op
            S = 0
            if self.stretch and r.chance(60 if self.kind == 2 else 15):
                S = self.t_scl_low = r.choice([r.range(1, 2 * self.P), r.range(1, 2 * self.P), self._low_len() + r.range(-2, 3)])
                scl = 0
            delay = r.range(0, max(0, self.P // 4 - 1))
            self.late_bit = None
            bit = None               # the level the target has to present during the coming SCL-high period
            if name == "write":
                if self.nfall == 9:
                    bit = 0 if val else 1                            # ACK = pull low
                elif self.nfall > 9:
                    self.pending_bit = (0, 1)
            elif name == "read":
                if self.nfall <= 8:
                    bit = (val >> (8 - self.nfall)) & 1
                else:
                    self.pending_bit = (0, 1)
            else:
                self.pending_bit = (0, 1)
            if bit is not None:
                if r.chance(45):
                    # late target: SDA carries the wrong level (or the previous bit) during the low phase / the
                    # stretch and becomes valid only `setup` cycles before SCL actually rises at the pads
                    rise = max(self._low_len(), S)                   # offset of the first SCL-high cycle from this one
                    setup = r.choice([0, 0, 0, 1, 1, 2]) + (1 if self.stretch else 2)
                    if r.chance(75):
                        self.pending_bit = (min(r.range(0, 2), rise - setup - 1), 1 - bit)   # garbage first
                    self.late_bit = (rise - setup, bit)
                    self.pred.append((self.t, rise, setup))
                else:
                    self.pending_bit = (delay, bit)
        if self.pending_bit is not None:
            d, v = self.pending_bit
            if d == 0:
                self.t_sda_low = 0 if v else 1
                self.pending_bit = None
            else:
                self.pending_bit = (d - 1, v)
        if self.late_bit is not None:
            d, v = self.late_bit
            if d == 0:
                self.t_sda_low = 0 if v else 1
                self.late_bit = None
            else:
                self.late_bit = (d - 1, v)
        sda = 0 if (sda_oe or self.t_sda_low) else 1
        strobes = [0, 0, 0, 0]
        data_i, ack_i = r.bits(8), r.below(2)
        if not busy:
            if self.wait > 0:
                self.wait -= 1
            else:
                self.wait = r.choice([0, 0, 1, 5, self.P])
                if not self.started:
                    name = "start"
                else:
                    name = r.weighted([(4, "write"), (4, "read"), (1, "start"), (2, "stop")])
                self.started = name != "stop"
                if name == "write":
                    nak = r.chance(40 if self.kind == 2 else 10)
                    self.op = ("write", 0 if nak else 1)
                    special = r.below(6)
                    data_i = {0: 0, 1: 255, 2: 0x80, 3: 0x01}.get(special, data_i)
                elif name == "read":
                    self.op = ("read", r.choice([0, 255, 0x80, 1, r.bits(8), r.bits(8)]))
                else:
                    self.op = (name, 0)
                self.nfall = 0
                strobes[["start", "stop", "write", "read"].index(name)] = 1
                self.last_issue = (name, data_i, ack_i, self.op[1])
        return [scl, sda] + strobes + [data_i, ack_i]


def simulate(dut, pads, desc, ncycles, rng):
    from amaranth.sim import Simulator
    top = sim._Wrap(dut, ["sync"])
    s = Simulator(top)
    s.add_clock(1e-6, domain="sync")
    ins = [pads.scl.i, pads.sda.i, dut.start, dut.stop, dut.write, dut.read, dut.data_i, dut.ack_i]
    outs = [pads.scl.oe, pads.sda.oe, dut.busy, dut.ack_o, dut.data_o, dut.bus.sample, dut.bus.setup,
            dut.bus.start, dut.bus.stop]
    stim_in = desc.get("stimulus")
    agent = None if stim_in else _Agent(desc, rng)
    stim, rows, meta = [], [], []

    async def tb(ctx):
        n = len(stim_in) if stim_in else ncycles
        for t in range(n):
            if stim_in:
                row = stim_in[t]
            else:
                row = agent.cycle(ctx.get(pads.scl.oe), ctx.get(pads.sda.oe), ctx.get(dut.busy))
            for sig, v in zip(ins, row):
                ctx.set(sig, v)
            stim.append(list(row))
            rows.append(tuple(ctx.get(o) for o in outs))
            await ctx.tick("sync")

    s.add_testbench(tb)
    s.run()
    return stim, rows


def monitor(desc, stim, rows):
    P, stretch, kind = desc["P"], desc["stretch"], desc["kind"]
    fails, tags = [], set()

    def fail(t, sig, what):
        if not any(f["sig"] == sig for f in fails):
            fails.append({"cycle": t, "sig": sig, "what": what})

    T = len(stim)
    names = ["start", "stop", "write", "read"]
    cand = set()          # operations that may be the one in progress
    cur = None            # definitely accepted operation (cooperative runs): (name, t, data_i, ack_i)
    low_run = 0
    for t in range(T - 1):
        scl_pad, sda_pad, st, sp, wr, rd, data_i, ack_i = stim[t]
        scl_oe, sda_oe, busy, ack_o, data_o = rows[t][:5]
        n_scl_oe, n_sda_oe, n_busy = rows[t + 1][:3]
        strobes = [st, sp, wr, rd]
        first = next((names[k] for k in range(4) if strobes[k]), None)   # priority start > stop > write > read
        if not busy:
            if first:
                cand = {first}
                cur = (first, t, data_i, ack_i)
                tags.add("op-" + first)
                if not n_busy:
                    fail(t + 1, "busy-low-but-not-accepted", "%s strobed with busy low but busy stayed low" % first)
            else:
                if n_busy or n_scl_oe != scl_oe or n_sda_oe != sda_oe:
                    fail(t + 1, "activity-without-request", "busy low and no strobe, but outputs changed")
        elif first:
            cand.add(first)
        # ---- safety: SDA changes while the initiator has SCL released only for START / STOP
        if n_sda_oe != sda_oe and not scl_oe:
            falling = n_sda_oe == 1           # starts pulling SDA low
            tags.add("sda-fall-under-scl-high" if falling else "sda-rise-under-scl-high")
            need = "start" if falling else "stop"
            if need not in cand:
                fail(t + 1, "sda-change-under-scl-high", "initiator %s SDA with SCL released during %s (no %s requested)"
                     % ("pulled" if falling else "released", sorted(cand), need))
        if n_sda_oe != sda_oe and n_scl_oe != scl_oe:
            fail(t + 1, "sda-changes-with-scl", "SDA and SCL drives change at the same clock edge (no set-up/hold time)")
        # ---- clock stretching: no progress while the target holds SCL low
        if not scl_oe and not scl_pad:
            low_run += 1
        else:
            low_run = 0
        if stretch and kind != 3 and low_run >= 4:
            tags.add("stretched")
            if n_scl_oe != scl_oe or n_sda_oe != sda_oe:
                fail(t + 1, "progress-during-stretch", "outputs changed while the target held SCL low")
    if kind == 3:
        return fails, tags
    # ---- cooperative runs: byte level.  Operations are issued only with busy low, so each is definite.
    ops = []
    for t in range(T):
        if not rows[t][2]:
            first = next((names[k] for k in range(4) if stim[t][2 + k]), None)
            if first:
                ops.append((first, t, stim[t][6], stim[t][7]))
    def high_level(u, te):
        """SDA line level during the SCL-high period that starts with the rising pad edge in cycle u: the value the
        protocol says is transferred.  None when the line is not stable over the whole period (then no value is
        defined; a cooperative target never does that)."""
        v = u
        while v < te and stim[v][0] == 1:
            if stim[v][1] != stim[u][1]:
                return None
            v += 1
        return stim[u][1]

    def setup_tags(u, what):
        # coverage: how late before the rising edge did SDA take its final level, and was SCL being stretched
        if any(stim[v][1] != stim[u][1] for v in range(max(0, u - 3), u)):
            tags.add(what + "-sda-valid-late")
            if all(rows[v][0] == 0 and stim[v][0] == 0 for v in range(max(0, u - 4), u)):
                tags.add(what + "-sda-valid-late-after-stretch")
            tags.add(what + "-sda-valid-late-%s" % ("clk_stretch-on" if stretch else "clk_stretch-off"))

    for k, (name, t0, data_i, ack_i) in enumerate(ops):
        t1 = ops[k + 1][1] if k + 1 < len(ops) else None
        if t1 is None:
            break
        # end of the operation = first cycle after t0 with busy low
        te = next((u for u in range(t0 + 1, t1 + 1) if not rows[u][2]), None)
        if te is None:
            continue
        rises = [u for u in range(t0 + 1, te) if stim[u - 1][0] == 0 and stim[u][0] == 1]
        if name == "start":
            # a requested START / repeated START must appear ON THE WIRE (open-drain lines = AND of both drivers, the pad
            # inputs of the trace): SDA falls while SCL is high before and after, some time before busy drops again
            line_low = stim[t0][0] == 1 and stim[t0][1] == 0 and not rows[t0][1]
            tags.add("start-with-target-holding-sda" if line_low else "start-sda-driven-low" if rows[t0][1] else
                     "start-scl-low" if stim[t0][0] == 0 else "start-bus-free")
            # not judged: a start strobed within the synchroniser latency of the previous START's own SDA fall (start directly
            # after start, nothing transferred in between): the gateware still sees SDA high, "pulls" the already low line
            # and the bus simply stays in the started state -- the property text does not decide that case
            if k > 0 and ops[k - 1][0] == "start" and rows[t0][1] and any(not rows[u][1] for u in range(max(0, t0 - 3), t0)):
                tags.add("start-directly-after-start (not judged)")
            elif not any(stim[u - 1][0] == 1 and stim[u][0] == 1 and stim[u - 1][1] == 1 and stim[u][1] == 0
                         for u in range(t0 + 1, te + 1)):
                fail(te, "start-condition-missing", "start accepted at cycle %d (SCL line %d, SDA line %d, initiator's sda.oe %d), "
                     "busy low again at cycle %d, but SDA never fell while SCL was high in between: no START condition on "
                     "the bus" % (t0, stim[t0][0], stim[t0][1], rows[t0][1], te))
        if name == "write":
            if len(rises) != 9:
                fail(te, "write-clock-count", "write produced %d SCL pulses" % len(rises))
                continue
            got = 0
            for u in rises[:8]:
                got = (got << 1) | (0 if rows[u][1] else 1)
            if got != data_i:
                fail(rises[7], "write-bits", "write of %#04x put %#04x on SDA (MSB first)" % (data_i, got))
            if rows[rises[8]][1]:
                fail(rises[8], "write-ack-not-released", "initiator drives SDA during the acknowledge clock of a write")
            lvl = high_level(rises[8], te)
            if lvl is None:
                tags.add("target-sda-unstable")
                continue
            setup_tags(rises[8], "write-ack")
            acked = 1 if lvl == 0 else 0
            tags.add("write-ack" if acked else "write-nak")
            if rows[te][3] != acked:
                fail(te, "write-ack-value", "ack_o=%d but the target %s (SDA=%d while SCL was high in cycles %d..)"
                     % (rows[te][3], "acknowledged" if acked else "did not acknowledge", lvl, rises[8]))
        elif name == "read":
            if len(rises) != 9:
                fail(te, "read-clock-count", "read produced %d SCL pulses" % len(rises))
                continue
            got = 0
            for u in rises[:8]:
                lvl = high_level(u, te)
                if lvl is None:
                    got = None
                    break
                setup_tags(u, "read-bit")
                got = (got << 1) | lvl
                if rows[u][1]:
                    fail(u, "read-sda-driven", "initiator drives SDA during a read data clock")
            if got is None:
                tags.add("target-sda-unstable")
            elif rows[te][4] != got:
                fail(te, "read-data", "data_o=%#04x, but SDA carried %#04x during the eight SCL-high periods (first bit = MSB)"
                     % (rows[te][4], got))
            if rows[rises[8]][1] != ack_i:
                fail(rises[8], "read-ack-drive", "ack_i=%d but sda.oe=%d during the acknowledge clock" % (ack_i, rows[rises[8]][1]))
            tags.add("read-ack" if ack_i else "read-nak")
    return fails, tags


def run_case(desc):
    from luna.gateware.interface.i2c import I2CBus, I2CInitiator
    pads = I2CBus()
    P = desc["P"]
    dut = I2CInitiator(pads, P, clk_stretch=bool(desc["stretch"]))
    n = min(6000, max(1200, 90 * P))
    stim, rows = simulate(dut, pads, desc, n, Rng(desc["seed"]))
    fails, tags = monitor(desc, stim, rows)
    tags |= {"P=%d" % P if P >= 8 else "P<8", "stretch=%d" % desc["stretch"], "kind=%d" % desc["kind"]}
    return Case([P, desc["stretch"]], stim, rows, fails, sorted(tags), desc, NAMES_IN, NAMES_OUT)
