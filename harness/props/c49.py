"""C49 — UART transmitters (luna/gateware/interface/uart.py: UARTTransmitter, UARTMultibyteTransmitter)."""
from harness.common.framework import Case
from harness.common.rng import Rng
from harness.common import sim

PROP = "C49"
LEAN_MODULES = ["LunaVerif.Props.C49"]
DRIVER = "Driver/C49.lean"
REQUIRED_THEOREMS = ["line_is_8n1", "frame_on_line", "accept_only_when_framed_next", "multibyte_little_endian", "step_abs", "mbStep_abs", "framed_bits"]
RULE = ("cases = (transmitter kind, divisor in {1,2,3,10,217} (+ 4,5,7,16,33 thorough), byte_width 1..4) x valid "
        "pattern {back-to-back with payload changing every cycle, spaced around the frame length, 1-cycle valid "
        "pulses, random}; payloads random incl. 0x00/0xFF/0x55/0xAA; each trace ends with an idle tail so that every "
        "accepted byte is completely on the line")
ASSUMPTIONS = ["divisor >= 1, byte_width >= 1", "payload values fit their signal width (they are Signals)"]
PARTIAL = ""

SPECIAL = [0x00, 0xFF, 0x55, 0xAA, 0x01, 0x80]


def gen_cases(tier, rng):
    out = []
    divs = [1, 2, 3, 10, 217]
    per = {"quick": 2, "widen": 5, "thorough": 8}[tier]
    if tier == "thorough":
        divs = [1, 2, 3, 4, 5, 7, 10, 16, 33, 217]
    k = 0
    for d in divs:
        n = per if d < 100 else max(1, per // 2)
        for _ in range(n * 2):
            out.append({"kind": 0, "divisor": d, "width": 1, "seed": rng.u64(), "k": k})
            k += 1
        for w in (1, 2, 3, 4):
            if d > 100 and w > 2 and tier != "thorough":
                continue
            for _ in range(n):
                out.append({"kind": 1, "divisor": d, "width": w, "seed": rng.u64(), "k": k})
                k += 1
    return out


def make_stimulus(kind, d, w, rng, k):
    frame = 10 * d
    word = frame * (w if kind else 1)
    nwords = 6 if d < 100 else 2
    L = word * nwords + rng.range(0, 30)
    L = min(L, 9000)
    mode = k % 4
    pw = 8 * w if kind else 8

    def payload():
        if rng.chance(25):
            v = 0
            for _ in range(w if kind else 1):
                v = (v << 8) | rng.choice(SPECIAL)
            return v
        return rng.bits(pw)
    rows = []
    if mode == 0:            # back-to-back: valid always, payload changes every cycle
        rows = [[1, payload()] for _ in range(L)]
    elif mode == 1:          # spaced: request held for a while, gaps around one word time
        t = 0
        while t < L:
            gap = max(0, word + rng.range(-3, 3)) if rng.chance(60) else rng.range(0, 4)
            hold = rng.range(1, 3)
            p = payload()
            rows.extend([[1, p]] * hold)
            rows.extend([[0, payload()] for _ in range(gap)])
            t = len(rows)
    elif mode == 2:          # single-cycle pulses at random places (most are ignored while busy)
        rows = [[1 if rng.chance(100 // max(1, min(d, 50))) or rng.chance(3) else 0, payload()] for _ in range(L)]
    else:                    # random bursts
        t = 0
        while t < L:
            n = rng.range(1, 2 * word)
            rows.extend([[1, payload()] for _ in range(n)])
            rows.extend([[0, 0]] * rng.range(0, 2 * word))
            t = len(rows)
    rows = rows[:L]
    tail = (w + 1 if kind else 2) * frame + 5
    rows.extend([[0, rng.bits(pw)] for _ in range(tail)])
    return rows


def decode_line(tx, d):
    """An independent 8N1 receiver for a line whose bit time is exactly d cycles: returns
    (bytes [(start_cycle, value)], error or None).  Outside frames the line must be high; a low cycle
    outside a frame is the start bit of a frame that occupies exactly the next 10*d cycles."""
    out = []
    t = 0
    n = len(tx)
    while t < n:
        if tx[t] == 1:
            t += 1
            continue
        if t + 10 * d > n:
            return out, None, t            # incomplete frame at the end of the trace
        bits = []
        for b in range(10):
            seg = tx[t + b * d:t + (b + 1) * d]
            if any(x != seg[0] for x in seg):
                return out, (t + b * d, "bit %d of the frame starting at cycle %d is not held for %d cycles" % (b, t, d)), None
            bits.append(seg[0])
        if bits[0] != 0 or bits[9] != 1:
            return out, (t, "frame starting at cycle %d has start=%d stop=%d" % (t, bits[0], bits[9])), None
        out.append((t, sum(bit << i for i, bit in enumerate(bits[1:9]))))
        t += 10 * d
    return out, None, None


def expected_uart(d, valid, payload):
    """The byte transmitter's ports from the property: a byte is accepted when offered while the line is free
    (no frame in progress) or in the last cycle of a frame; its frame occupies the next 10*d cycles."""
    exp = []
    frame_bits, start = None, None      # current frame and its first cycle
    accepted = []
    for t in range(len(valid)):
        if frame_bits is not None and t - start >= 10 * d:
            frame_bits = None
        if frame_bits is None:
            tx, ready, idle, driving = 1, 1, 1, 0
        else:
            kth = (t - start) // d
            tx = frame_bits[kth]
            ready = int(t - start == 10 * d - 1)
            idle, driving = 0, 1
        exp.append((tx, ready, idle, driving))
        if ready and valid[t]:
            p = payload[t] & 0xFF
            accepted.append((t, p))
            frame_bits = [0] + [(p >> i) & 1 for i in range(8)] + [1]
            start = t + 1
    return exp, accepted


def expected_multibyte(d, w, valid, payload):
    """Word transmitter: an accepted word is queued as w bytes, least significant first; the inner byte
    transmitter takes the head of the queue whenever it can accept; the word port is ready while no word is
    queued, and in the cycle the last byte of the queued word is taken."""
    exp = []
    queue = []                      # bytes not yet taken by the byte transmitter
    frame_bits, start = None, None
    words = []
    for t in range(len(valid)):
        if frame_bits is not None and t - start >= 10 * d:
            frame_bits = None
        if frame_bits is None:
            tx, uready = 1, 1
        else:
            tx = frame_bits[(t - start) // d]
            uready = int(t - start == 10 * d - 1)
        idle = int(not queue)
        take = bool(queue) and uready
        ready = int((not queue) or (take and len(queue) == 1))
        exp.append((tx, ready, idle))
        if take:
            p = queue.pop(0)
            frame_bits = [0] + [(p >> i) & 1 for i in range(8)] + [1]
            start = t + 1
        if ready and valid[t]:
            v = payload[t] & ((1 << (8 * w)) - 1)
            words.append((t, v))
            queue = [(v >> (8 * i)) & 0xFF for i in range(w)]
    return exp, words


def run_case(desc):
    from luna.gateware.interface.uart import UARTTransmitter, UARTMultibyteTransmitter
    kind, d, w = desc["kind"], desc["divisor"], desc["width"]
    if kind == 0:
        dut = UARTTransmitter(divisor=d)
        outs = [dut.tx, dut.stream.ready, dut.idle, dut.driving]
        names = ["tx", "ready", "idle", "driving"]
    else:
        dut = UARTMultibyteTransmitter(byte_width=w, divisor=d)
        outs = [dut.tx, dut.stream.ready, dut.idle]
        names = ["tx", "ready", "idle"]
    stim = desc.get("stimulus") or make_stimulus(kind, d, w, Rng(desc["seed"]), desc.get("k", 0))
    rows = sim.run_cycles(dut, [dut.stream.valid, dut.stream.payload], outs, stim)
    valid = [r[0] & 1 for r in stim]
    payload = [r[1] for r in stim]
    tx = [r[0] for r in rows]
    fails = []
    what0 = "kind=%s divisor=%d width=%d: " % ("multibyte" if kind else "byte", d, w)
    # (1) the line, decoded by an independent 8N1 receiver, carries exactly the accepted bytes in order
    acc = [(t, payload[t]) for t in range(len(stim)) if valid[t] and rows[t][1]]
    if kind == 0:
        want_bytes = [p & 0xFF for _, p in acc]
    else:
        want_bytes = [(p >> (8 * i)) & 0xFF for _, p in acc for i in range(w)]
    got, err, partial_at = decode_line(tx, d)
    # the "everything accepted is completely on the line" part needs a quiet tail (replays of a shrunk trace are
    # cut shortly after the first failure and may end in the middle of a frame)
    need_tail = ((w + 1) if kind else 2) * 10 * d + 5
    quiet = 0
    for v in reversed(valid):
        if v:
            break
        quiet += 1
    has_tail = quiet >= need_tail
    gb = [b for _, b in got]
    if err:
        fails.append({"cycle": err[0], "sig": "line-not-8n1", "what": what0 + err[1]})
    elif partial_at is not None and has_tail:
        fails.append({"cycle": partial_at, "sig": "frame-unfinished", "what": what0 +
                      "a frame starting at cycle %d is still incomplete at the end of the idle tail" % partial_at})
    elif gb != want_bytes[:len(gb)] or (has_tail and len(gb) != len(want_bytes)):
        n = next((i for i, (a, b) in enumerate(zip(gb, want_bytes)) if a != b), min(len(gb), len(want_bytes)))
        fails.append({"cycle": got[n][0] if n < len(got) else len(tx) - 1,
                      "sig": "line-bytes" if kind == 0 else "multibyte-order",
                      "what": what0 + "line carries %d bytes %r..., accepted data requires %d bytes %r... (first difference "
                      "at byte %d)" % (len(gb), gb[n:n + 4], len(want_bytes), want_bytes[n:n + 4], n)})
    # (2) exact port timeline (tx, ready, idle[, driving])
    if not fails:
        exp, _ = (expected_uart(d, valid, payload) if kind == 0 else expected_multibyte(d, w, valid, payload))
        for t, (g, e) in enumerate(zip(rows, exp)):
            if tuple(g) != tuple(e):
                i = next(i for i in range(len(e)) if g[i] != e[i])
                sig = {"tx": "tx-timing", "ready": "accept-not-framed-next", "idle": "idle-wrong",
                       "driving": "driving-wrong"}[names[i]]
                fails.append({"cycle": t, "sig": sig, "what": what0 + "cycle %d: %s=%d, the 8N1 schedule of the accepted "
                              "data requires %d" % (t, names[i], g[i], e[i])})
                break
    # back-to-back frames: a frame starting exactly 10*d after the previous one
    b2b = any(b[0] - a[0] == 10 * d for a, b in zip(got, got[1:]))
    tags = ["kind=%d" % kind, "d=%d" % d, "w=%d" % w, "back-to-back" if b2b else "no-b2b",
            "gap-between-frames" if any(b[0] - a[0] > 10 * d for a, b in zip(got, got[1:])) else "no-gap",
            "bytes>=3" if len(got) >= 3 else "bytes<3",
            "ignored-valid" if any(valid[t] and not rows[t][1] for t in range(len(stim))) else "no-ignored-valid"]
    return Case([kind, d, w], stim, rows, fails, tags, desc, ["valid", "payload"], names)
