"""C41 — the LTSSM reaches U0 only through training and honours resets and timeouts
(luna/gateware/usb/usb3/link/ltssm.py: LTSSMController).

The real controller is elaborated ONCE per case (so that its FSM state register can be observed
by name for coverage tags and for the monitor's notion of "substate"), simulated at scaled-down
clock frequencies (time-outs of a few … a few thousand cycles) and compared port by port, cycle by
cycle, with the Lean model `LunaVerif.Ltssm` (lean/LunaVerif/Model/Usb3/Ltssm.lean).  The FSM state
itself is never compared (internal register), only the 17 output ports.

Stimulus kinds
  script : open-loop scenarios built from shortest paths to every FSM state: power-on to U0,
           recovery, hot reset, loopback, a warm reset (1..n cycles, also coinciding with the state's
           exit event) in every state, every time-out probed with the exit event / a warm reset at
           T-1, T and T+1 cycles after entry
  env    : a reactive random link partner / PHY (looks at the controller's state and answers with
           the events that state waits for, with random delays, stalls, spurious events, warm resets);
           the inputs it produced are recorded, so a replay is open-loop
  noise  : independent random strobes of several densities
"""
import math
import os
from fractions import Fraction

from harness.common.framework import Case
from harness.common.rng import Rng
from harness.common import sim

PROP = "C41"
LEAN_MODULES = ["LunaVerif.Props.C41"]
DRIVER = "Driver/C41.lean"
REQUIRED_THEOREMS = [
    "reset_removes_link_ready_next_cycle", "no_u0_during_reset", "reset_forces_rx_detect_reset",
    "link_ready_only_after_training", "link_ready_only_after_ts2_rx", "link_ready_only_after_lfps_sent",
    "link_ready_only_after_handshake_since_entry", "timeouts_respected", "timeout_leaves", "scrambling_in_u0",
]
RULE = ("cases = (clock frequency in {1 kHz .. 1 MHz}, loosen_requirements, LUNA_COMPLIANCE) x stimulus; "
        "stimuli: scripted shortest paths to every FSM state followed by warm resets / time-out probes at "
        "T-1,T,T+1 / exit events, a reactive random link partner with stalls, spurious events and warm "
        "resets, and pure random strobes")
ASSUMPTIONS = [
    "time-outs are cycle counts int(ceil(t*f)) of the simulated clock frequency f (real-time durations are "
    "cycle counts at the stated clock); the theorems hold for all counts with c12, c2 <= c360 < 2^width",
    "the model and the theorems describe the controller with the F18 repair (warm-reset handling emitted last "
    "in every state, and present in Rx.Detect.Active, Rx.Detect.Quiet and Polling.LFPS)",
    "'reset' = a cycle in which in_usb_reset is asserted (power-on reset reaches the controller through "
    "in_usb_reset; the port power_on_reset is not connected to anything in the gateware)",
]
PARTIAL = ""

IN = ["in_usb_reset", "trigger_link_recovery", "phy_ready", "disable_scrambling", "link_partner_detected",
      "no_link_partner_detected", "lfps_polling_detected", "lfps_cycles_sent", "ts1_detected",
      "inverted_ts1_detected", "ts2_detected", "hot_reset_requested", "loopback_requested",
      "no_scrambling_requested", "ts_burst_complete", "idle_handshake_complete",
      "enable_compliance_scrambling",
      # ports the gateware declares but never reads; driven randomly to show they are ignored
      "power_on_reset", "tseq_detected"]
IX = {n: k for k, n in enumerate(IN)}
OUT = ["link_ready", "entering_u0", "tx_electrical_idle", "engage_terminations", "invert_rx_polarity",
       "train_equalizer", "perform_rx_detection", "send_lfps_polling", "send_tseq_burst", "send_ts1_burst",
       "send_ts2_burst", "request_hot_reset", "request_no_scrambling", "enable_scrambling",
       "perform_idle_handshake", "act_as_loopback", "emit_compliance_pattern"]
OX = {n: k for k, n in enumerate(OUT)}

STATES = ["Rx.Detect.Reset", "Rx.Detect.Active", "Rx.Detect.Quiet", "Polling.LFPS", "Polling.RxEQ",
          "Polling.Active", "Polling.Configuration", "Polling.Configuration.Exit", "Polling.Idle", "U0",
          "Hot Reset.Active", "Hot Reset.Exit", "Recovery.Active", "Recovery.Configuration",
          "Recovery.Configuration.Exit", "Recovery.Idle", "Compliance", "Loopback", "SS.Inactive.Quiet",
          "SS.Inactive.Disconnect.Detect", "SS.Disabled.Default", "SS.Disabled.Error"]

# documented time-outs (seconds, as exact fractions) of the substates that have one
T12, T2, T360 = Fraction(12, 1000), Fraction(2, 1000), Fraction(360, 1000)
TIMEOUT = {
    "Rx.Detect.Quiet": T12, "Polling.LFPS": T360, "Polling.Active": T12, "Polling.Configuration": T12,
    "Polling.Idle": T2, "Hot Reset.Active": T12, "Hot Reset.Exit": T2, "Recovery.Active": T12,
    "Recovery.Configuration": T12, "Recovery.Idle": T2, "SS.Inactive.Quiet": T12,
}
FREQS = {"1k": 1e3, "2k": 2e3, "10k": 1e4, "25k": 25e3, "250k": 250e3, "1M": 1e6}


def counts(freq):
    """The integers the gateware computes for this frequency (same float expression as the source)."""
    c12 = int(math.ceil(12e-3 * freq))
    c2 = int(math.ceil(2e-3 * freq))
    c360 = int(math.ceil(360e-3 * freq))
    return c12, c2, c360


def exact_cycles(t, freq):
    return math.ceil(t * Fraction(int(freq)))


# ------------------------------------------------------------------------------------------- DUT
def build(freq, loosen, compliance):
    from amaranth.hdl import Fragment
    from luna.gateware.usb.usb3.link.ltssm import LTSSMController
    old = os.environ.pop("LUNA_COMPLIANCE", None)
    if compliance:
        os.environ["LUNA_COMPLIANCE"] = "1"
    try:
        dut = LTSSMController(ss_clock_frequency=freq, loosen_requirements=bool(loosen))
        frag = Fragment.get(dut, None)
    finally:
        os.environ.pop("LUNA_COMPLIANCE", None)
        if old is not None:
            os.environ["LUNA_COMPLIANCE"] = old
    st = sim.find_signal(frag, "fsm_state")
    ctr = sim.find_signal(frag, "cycles_in_state")
    if len(st) != 1 or len(ctr) != 1 or st[0].decoder is None:
        raise RuntimeError("cannot locate the LTSSM state register / time-out counter in the elaborated design")
    return dut, frag, st[0], ctr[0]


def state_name(sig, v):
    try:
        return sig.decoder(v).rsplit("/", 1)[0]
    except Exception:
        return "?%d" % v


def simulate(dut, frag, st_sig, ncycles, source):
    """source(t, state_name) -> input row; returns (stimulus, output rows, state names)."""
    from amaranth.sim import Simulator
    top = sim._Wrap(frag, ["ss"])
    s = Simulator(top)
    s.add_clock(1e-6, domain="ss")
    ins = [getattr(dut, n) for n in IN]
    outs = [getattr(dut, n) for n in OUT]
    imask = [(1 << len(x)) - 1 for x in ins]
    stim, rows, names = [], [], []
    from amaranth import Cat
    packed = Cat(*outs)          # one read per cycle instead of 17 (all outputs are 1 bit wide)
    assert all(len(o) == 1 for o in outs)
    nout = len(outs)

    async def tb(ctx):
        last = [None] * len(ins)
        for t in range(ncycles):
            name = state_name(st_sig, ctx.get(st_sig))
            row = source(t, name)
            row = [int(v) & m for v, m in zip(row, imask)]
            for k, v in enumerate(row):
                if v != last[k]:          # only touch the inputs that change
                    ctx.set(ins[k], v)
            last = row
            stim.append(row)
            names.append(name)
            v = ctx.get(packed)
            rows.append(tuple((v >> k) & 1 for k in range(nout)))
            await ctx.tick("ss")

    s.add_testbench(tb)
    s.run()
    return stim, rows, names


# --------------------------------------------------------------------------------------- stimulus
def ev(**kw):
    r = [0] * len(IN)
    r[IX["phy_ready"]] = 1
    for k, v in kw.items():
        r[IX[k]] = v
    return r


def paths():
    """Shortest input sequences from reset to (almost) every state; time-out waits are symbolic:
    ("wait", which) entries are expanded with the cycle counts of the frequency."""
    P = {}
    P["Rx.Detect.Reset"] = []
    P["Rx.Detect.Active"] = [ev()]
    P["Rx.Detect.Quiet"] = P["Rx.Detect.Active"] + [ev(no_link_partner_detected=1)]
    P["Polling.LFPS"] = P["Rx.Detect.Active"] + [ev(link_partner_detected=1)]
    P["Polling.RxEQ"] = P["Polling.LFPS"] + [ev(lfps_polling_detected=1, lfps_cycles_sent=16), ev(lfps_cycles_sent=20)]
    P["Polling.Active"] = P["Polling.RxEQ"] + [ev(ts_burst_complete=1)]
    P["Polling.Configuration"] = P["Polling.Active"] + [ev(ts_burst_complete=1), ev(ts1_detected=1)]
    P["Polling.Configuration.Exit"] = P["Polling.Configuration"] + [ev(ts2_detected=1), ev(ts_burst_complete=1)]
    P["Polling.Idle"] = P["Polling.Configuration.Exit"] + [ev(ts_burst_complete=1)]
    P["U0"] = P["Polling.Idle"] + [ev(idle_handshake_complete=1)]
    P["Recovery.Active"] = P["U0"] + [ev(trigger_link_recovery=1)]
    P["Recovery.Configuration"] = P["Recovery.Active"] + [ev(ts_burst_complete=1), ev(ts2_detected=1)]
    P["Recovery.Configuration.Exit"] = P["Recovery.Configuration"] + [ev(ts_burst_complete=1)]
    P["Recovery.Idle"] = P["Recovery.Configuration.Exit"] + [ev(ts_burst_complete=1)]
    common = [ev(ts1_detected=1), ev(ts2_detected=1), ev(ts_burst_complete=1), ev(ts_burst_complete=1), ev()]
    P["Hot Reset.Active"] = P["Polling.Active"] + [ev(ts_burst_complete=1, hot_reset_requested=1)] + common
    P["Hot Reset.Exit"] = P["Hot Reset.Active"] + [ev(ts2_detected=1), ev(ts_burst_complete=1)]
    P["Loopback"] = P["Polling.Active"] + [ev(ts_burst_complete=1, loopback_requested=1)] + common
    P["SS.Inactive.Quiet"] = P["Recovery.Active"] + [("wait", "c12")]
    P["SS.Inactive.Disconnect.Detect"] = P["SS.Inactive.Quiet"] + [("wait", "c12")]
    P["Compliance"] = P["Polling.LFPS"] + [("wait", "c360")]
    P["SS.Disabled.Default"] = P["Polling.LFPS"] + [ev(lfps_polling_detected=1), ("wait", "c360-1")]
    return P


# the event(s) that make a state move on (first = preparation rows at the start of the stay, second = exit row)
EXITS = {
    "Rx.Detect.Reset": ([], ev()),
    "Rx.Detect.Active": ([], ev(link_partner_detected=1)),
    "Rx.Detect.Quiet": ([], None),
    "Polling.LFPS": ([ev(lfps_polling_detected=1, lfps_cycles_sent=16)], ev(lfps_cycles_sent=20)),
    "Polling.RxEQ": ([], ev(ts_burst_complete=1)),
    "Polling.Active": ([ev(ts_burst_complete=1)], ev(ts1_detected=1)),
    "Polling.Configuration": ([ev(ts2_detected=1)], ev(ts_burst_complete=1)),
    "Polling.Configuration.Exit": ([], ev(ts_burst_complete=1)),
    "Polling.Idle": ([], ev(idle_handshake_complete=1)),
    "U0": ([], ev(ts1_detected=1)),
    "Hot Reset.Active": ([ev(ts2_detected=1)], ev(ts_burst_complete=1)),
    "Hot Reset.Exit": ([], ev(idle_handshake_complete=1)),
    "Recovery.Active": ([ev(ts_burst_complete=1)], ev(ts2_detected=1)),
    "Recovery.Configuration": ([], ev(ts_burst_complete=1)),
    "Recovery.Configuration.Exit": ([], ev(ts_burst_complete=1)),
    "Recovery.Idle": ([], ev(idle_handshake_complete=1)),
    "Compliance": ([], None),
    "Loopback": ([], None),
    "SS.Inactive.Quiet": ([], None),
    "SS.Inactive.Disconnect.Detect": ([], ev(no_link_partner_detected=1)),
    "SS.Disabled.Default": ([], None),
}
# alternative exit rows (other branches of the same state)
ALT_EXITS = {
    "Rx.Detect.Active": [ev(no_link_partner_detected=1), ev(link_partner_detected=1, no_link_partner_detected=1)],
    "Polling.LFPS": [ev(ts1_detected=1, lfps_cycles_sent=40), ev(lfps_cycles_sent=65535, lfps_polling_detected=1)],
    "Polling.Active": [ev(inverted_ts1_detected=1), ev(ts2_detected=1), ev(ts1_detected=1, inverted_ts1_detected=1)],
    "U0": [ev(trigger_link_recovery=1), ev(trigger_link_recovery=1, ts1_detected=1)],
    "SS.Inactive.Disconnect.Detect": [ev(link_partner_detected=1), ev(link_partner_detected=1, no_link_partner_detected=1)],
    "Hot Reset.Active": [ev(ts_burst_complete=1, hot_reset_requested=1)],
    "Polling.Idle": [ev(idle_handshake_complete=1, hot_reset_requested=1), ev(idle_handshake_complete=1, loopback_requested=1)],
    "Recovery.Idle": [ev(idle_handshake_complete=1, hot_reset_requested=1)],
}


def expand(rows, cnt):
    c12, c2, c360 = cnt
    out = []
    for r in rows:
        if isinstance(r, tuple):
            n = {"c12": c12 + 1, "c2": c2 + 1, "c360": c360 + 1, "c360-1": c360}[r[1]]
            out.extend([ev()] * n)
        else:
            out.append(list(r))
    return out


def with_reset(row):
    r = list(row)
    r[IX["in_usb_reset"]] = 1
    return r


def tail(rng, n=14):
    """a short cooperative continuation after the interesting moment"""
    pool = [ev(), ev(), ev(link_partner_detected=1), ev(lfps_polling_detected=1, lfps_cycles_sent=30),
            ev(ts_burst_complete=1), ev(ts1_detected=1), ev(ts2_detected=1), ev(idle_handshake_complete=1),
            ev(ts_burst_complete=1, ts2_detected=1), ev(lfps_cycles_sent=50)]
    return [list(rng.choice(pool)) for _ in range(n)]


def make_script(sc, freq, cnt, rng):
    """sc = {"state": S, "kind": …, "off": -1|0|1, "n": reset length, "alt": index}"""
    S = sc["state"]
    P = paths()
    rows = expand(P[S], cnt)
    prep, exit_row = EXITS[S]
    kind = sc["kind"]
    c12, c2, c360 = cnt
    if kind == "reach":            # reach the state, take its normal exit, continue
        rows += [list(r) for r in prep]
        if exit_row is not None:
            rows.append(list(exit_row))
    elif kind == "alt":
        alts = ALT_EXITS.get(S, [])
        rows += [list(r) for r in prep]
        if alts:
            rows.append(list(alts[sc.get("alt", 0) % len(alts)]))
    elif kind == "reset":          # warm reset of n cycles right after `delay` idle cycles in the state
        rows += [ev()] * sc.get("delay", 0)
        rows += [with_reset(ev())] * sc.get("n", 1)
    elif kind == "reset+exit":     # warm reset coinciding with the exit event (F18), held for n cycles
        rows += [list(r) for r in prep]
        x = exit_row if exit_row is not None else ev()
        if sc.get("alt") is not None and ALT_EXITS.get(S):
            x = ALT_EXITS[S][sc["alt"] % len(ALT_EXITS[S])]
        rows.append(with_reset(x))
        rows += [with_reset(rng.choice([ev(), x, ev(ts_burst_complete=1), ev(idle_handshake_complete=1),
                                        ev(ts1_detected=1), ev(ts2_detected=1)]))
                 for _ in range(sc.get("n", 1) - 1)]
    elif kind in ("timeout", "timeout-reset"):
        T = exact_cycles(TIMEOUT[S], freq)
        at = T + sc["off"]         # age (cycles since entry) at which the exit event / reset is applied
        rows += [list(r) for r in prep]
        rows += [ev()] * max(0, at - len(prep))
        if kind == "timeout-reset":
            rows.append(with_reset(ev()))
        elif exit_row is not None:
            rows.append(list(exit_row))
        else:
            rows.append(ev())
    elif kind == "recovery-walk-in-reset":   # the whole recovery sequence with in_usb_reset held (F18)
        seq = [ev(ts1_detected=1), ev(ts_burst_complete=1), ev(ts2_detected=1), ev(ts_burst_complete=1),
               ev(ts_burst_complete=1), ev(idle_handshake_complete=1), ev(), ev()]
        rows += [with_reset(r) for r in seq]
    elif kind == "reset-pulse-then-train":   # a reset pulse inside the state, then cooperative training (twice,
        rows += [with_reset(ev())] * sc.get("n", 1)   # in case the first attempt starts out of step)
        rows += expand(P["U0"], cnt) + [ev()] * 3 + expand(P["U0"], cnt)
    rows += tail(rng)
    return rows


class Env:
    """A reactive random link partner + PHY.  It sees the controller's current state (a register, so it
    is known before the inputs of the cycle are chosen) and mostly answers with what that state waits for."""

    RESP = {   # state -> [(input, weight)] events that state is waiting for
        "Rx.Detect.Active": [("link_partner_detected", 8), ("no_link_partner_detected", 2)],
        "Polling.LFPS": [("lfps_polling_detected", 6), ("ts1_detected", 1)],
        "Polling.RxEQ": [("ts_burst_complete", 6)],
        "Polling.Active": [("ts_burst_complete", 5), ("ts1_detected", 5), ("ts2_detected", 2), ("inverted_ts1_detected", 1)],
        "Polling.Configuration": [("ts_burst_complete", 5), ("ts2_detected", 5)],
        "Polling.Configuration.Exit": [("ts_burst_complete", 6)],
        "Polling.Idle": [("idle_handshake_complete", 6)],
        "U0": [("ts1_detected", 1), ("trigger_link_recovery", 1)],
        "Hot Reset.Active": [("ts_burst_complete", 5), ("ts2_detected", 5), ("hot_reset_requested", 3)],
        "Hot Reset.Exit": [("idle_handshake_complete", 6)],
        "Recovery.Active": [("ts_burst_complete", 5), ("ts1_detected", 3), ("ts2_detected", 3)],
        "Recovery.Configuration": [("ts_burst_complete", 5), ("ts2_detected", 5)],
        "Recovery.Configuration.Exit": [("ts_burst_complete", 6)],
        "Recovery.Idle": [("idle_handshake_complete", 6)],
        "SS.Inactive.Disconnect.Detect": [("link_partner_detected", 3), ("no_link_partner_detected", 5)],
    }
    TRAINING = {"Polling.RxEQ", "Polling.Active", "Polling.Configuration", "Polling.Configuration.Exit",
                "Recovery.Active", "Recovery.Configuration", "Recovery.Configuration.Exit"}

    def __init__(self, rng, freq, cnt):
        self.rng = rng
        self.cnt = cnt
        self.freq = freq
        r = rng
        self.speed = r.choice([3, 10, 30, 60])            # % chance per cycle that a waited-for event fires
        self.p_stall = r.choice([0, 5, 15, 40])           # % of state entries during which nothing is answered
        self.p_edge = r.choice([0, 20, 50])               # % of timed-state entries probed at T-1/T/T+1
        self.noise = r.choice([0, 0, 1, 4])               # per-mille spurious strobes per input
        self.reset_rate = r.choice([0, 1, 3, 20])         # per-mille cycles starting a warm reset
        self.reset_with_event = r.choice([0, 10, 40])     # % of fired events accompanied by a warm reset
        self.special = r.choice([0, 2, 10])               # % hot reset / loopback / no scrambling during training
        self.disable_scr = r.choice([0, 0, 1, 2])         # 0 never, 1 always, 2 toggling
        self.phy_flaky = r.chance(15)
        self.lfps_step = r.choice([1, 1, 2, 5])
        self.lfps_wild = r.choice([0, 0, 3])              # % cycles with an arbitrary 16-bit lfps_cycles_sent
        self.u0_dwell = r.choice([2, 20, 200])
        self.prev = None
        self.age = 0
        self.stall = False
        self.edge_at = None
        self.reset_left = 0
        self.lfps = 0
        self.tags = set()

    def __call__(self, t, name):
        r = self.rng
        if name != self.prev:
            self.prev, self.age = name, 0
            self.stall = r.chance(self.p_stall)
            if self.stall and name in TIMEOUT and exact_cycles(TIMEOUT[name], self.freq) > 4000 and not r.chance(15):
                self.stall = False
            self.edge_at = None
            if name in TIMEOUT and r.chance(self.p_edge):
                T = exact_cycles(TIMEOUT[name], self.freq)
                if T <= 4000 or r.chance(10):
                    off = r.choice([-1, 0, 1])
                    self.edge_at = T + off
                    self.edge_reset = r.chance(25)
            if name == "Polling.LFPS":
                self.lfps = 0
        else:
            self.age += 1
        row = ev()
        if self.phy_flaky and r.chance(10):
            row[IX["phy_ready"]] = 0
        if self.disable_scr == 1 or (self.disable_scr == 2 and r.chance(50)):
            row[IX["disable_scrambling"]] = 1
        # LFPS burst counter of the PHY
        if name == "Polling.LFPS":
            if self.age % self.lfps_step == 0:
                self.lfps = (self.lfps + 1) & 0xFFFF
            row[IX["lfps_cycles_sent"]] = self.lfps
        if r.chance(self.lfps_wild):
            row[IX["lfps_cycles_sent"]] = r.choice([r.below(65536), 65532 + r.below(4), 12 + r.below(8)])
        resp = self.RESP.get(name, [])
        fired = False
        if self.edge_at is not None:
            if self.age == self.edge_at:
                self.tags.add("edge:%s:%+d" % (name, self.age - exact_cycles(TIMEOUT[name], self.freq)))
                if self.edge_reset:
                    row[IX["in_usb_reset"]] = 1
                else:
                    for k, _w in resp:
                        if k not in ("hot_reset_requested", "no_link_partner_detected"):
                            row[IX[k]] = 1
                fired = True
            elif self.age < self.edge_at and name == "Polling.LFPS" and self.age == 0:
                row[IX["lfps_polling_detected"]] = 1
            elif self.age < self.edge_at and self.age == 0 and name in (
                    "Polling.Active", "Recovery.Active"):
                row[IX["ts_burst_complete"]] = 1
            elif self.age < self.edge_at and self.age == 0 and name in (
                    "Polling.Configuration", "Recovery.Configuration", "Hot Reset.Active"):
                row[IX["ts2_detected"]] = 1
        elif not self.stall or (name not in TIMEOUT and self.age > 50):
            dwell_ok = name != "U0" or self.age >= self.u0_dwell
            if resp and dwell_ok and r.chance(self.speed):
                k = r.weighted([(w, k) for k, w in resp])
                row[IX[k]] = 1
                fired = True
                if r.chance(30):
                    k2 = r.weighted([(w, k) for k, w in resp])
                    row[IX[k2]] = 1
        if name in self.TRAINING and r.chance(self.special):
            row[IX[r.choice(["hot_reset_requested", "loopback_requested", "no_scrambling_requested"])]] = 1
        if self.noise:
            for k in ("trigger_link_recovery", "link_partner_detected", "no_link_partner_detected",
                      "lfps_polling_detected", "ts1_detected", "inverted_ts1_detected", "ts2_detected",
                      "hot_reset_requested", "loopback_requested", "no_scrambling_requested",
                      "ts_burst_complete", "idle_handshake_complete"):
                if r.chance(self.noise, 1000):
                    row[IX[k]] = 1
        for k in ("enable_compliance_scrambling", "power_on_reset", "tseq_detected"):
            row[IX[k]] = r.below(2)
        # warm resets
        if self.reset_left > 0:
            self.reset_left -= 1
            row[IX["in_usb_reset"]] = 1
        elif r.chance(self.reset_rate, 1000) or (fired and r.chance(self.reset_with_event)):
            row[IX["in_usb_reset"]] = 1
            self.reset_left = r.choice([0, 0, 1, 3, 12])
            self.tags.add("reset-in:" + name)
        elif name in ("Loopback", "SS.Disabled.Default", "Compliance", "SS.Disabled.Error") and self.age > 30 \
                and r.chance(5):
            row[IX["in_usb_reset"]] = 1     # the only way out of these states
            self.tags.add("reset-in:" + name)
        return row


def noise_source(rng, density):
    def src(t, name):
        row = [1 if rng.chance(density) else 0 for _ in IN]
        row[IX["lfps_cycles_sent"]] = rng.choice([0, 13, 15, 16, 17, 20, 24, 65533, rng.below(65536)])
        row[IX["phy_ready"]] = 0 if rng.chance(10) else 1
        row[IX["in_usb_reset"]] = 1 if rng.chance(max(1, density // 6)) else 0
        return row
    return src


# ---------------------------------------------------------------------------------------- monitor
class Progress:
    """Greedy subsequence matcher: how many of `preds` (in order) the events fed so far contain as a
    subsequence.  Greedy matching is complete for subsequence patterns."""

    def __init__(self, preds):
        self.preds = preds
        self.k = 0

    def clear(self):
        self.k = 0

    def feed(self, e):
        if self.k < len(self.preds) and self.preds[self.k](e):
            self.k += 1

    def done(self):
        return self.k == len(self.preds)


def chains(loosen):
    g = lambda e, n: e[1][IX[n]]
    partner = lambda e: e[0] == "Rx.Detect.Active" and g(e, "link_partner_detected")
    lfps_rx = lambda e: e[0] == "Polling.LFPS" and (g(e, "lfps_polling_detected") or (loosen and g(e, "ts1_detected")))
    lfps_tx = lambda e: e[0] == "Polling.LFPS" and g(e, "lfps_cycles_sent") >= 16
    tseq = lambda e: e[0] == "Polling.RxEQ" and g(e, "ts_burst_complete")
    ts1_tx = lambda e: e[0] == "Polling.Active" and g(e, "ts_burst_complete")
    ts_rx = lambda e: e[0] == "Polling.Active" and (g(e, "ts1_detected") or g(e, "ts2_detected") or g(e, "inverted_ts1_detected"))
    ts2_rx_p = lambda e: e[0] in ("Polling.Active", "Polling.Configuration") and g(e, "ts2_detected")
    ts2_tx_p = lambda e: e[0] == "Polling.Configuration" and g(e, "ts_burst_complete")
    ts2_more = lambda e: e[0] == "Polling.Configuration.Exit" and g(e, "ts_burst_complete")
    ts2_rx = lambda e: e[0] in ("Polling.Active", "Polling.Configuration", "Recovery.Active",
                                "Recovery.Configuration", "Hot Reset.Active") and g(e, "ts2_detected")
    ts2_tx = lambda e: e[0] in ("Polling.Configuration", "Recovery.Configuration", "Hot Reset.Active") \
        and g(e, "ts_burst_complete")
    idle = lambda e: e[0] in ("Polling.Idle", "Recovery.Idle", "Hot Reset.Exit") and g(e, "idle_handshake_complete")
    since_reset = {
        "training-since-reset": [partner, lfps_rx, tseq, ts1_tx, ts_rx, ts2_tx_p, ts2_more],
        "ts2-received-since-reset": [partner, tseq, ts2_rx_p, ts2_tx_p],
        "lfps-sent-since-reset": [partner, lfps_tx, tseq],
    }
    since_entry = {"handshake-since-entry": [ts2_rx, ts2_tx, idle]}
    return since_reset, since_entry


ENTRY_STATES = ("Polling.LFPS", "Recovery.Active", "Hot Reset.Active")
SCR_ENTRY = ("Polling.RxEQ", "Polling.Active", "Recovery.Active")


def monitor(freq, loosen, stim, rows, names):
    fails = []
    seen = set()

    def fail(t, sig, what):
        if sig not in seen:
            seen.add(sig)
            fails.append({"cycle": t, "sig": sig, "what": what})

    since_reset, since_entry = chains(loosen)
    since_reset = {k: Progress(v) for k, v in since_reset.items()}
    since_entry = {k: Progress(v) for k, v in since_entry.items()}
    n_r = n_e = 0
    LR, EU0, SCR = OX["link_ready"], OX["entering_u0"], OX["enable_scrambling"]
    RST = IX["in_usb_reset"]
    our_req, partner_req, scr_known = 0, 0, False
    stay = 0
    for t in range(len(rows)):
        name = names[t]
        # ---- ghost logs describe the cycles before t
        if t > 0:
            e = (names[t - 1], stim[t - 1])
            if stim[t - 1][RST]:
                n_r = 0
                for p in since_reset.values():
                    p.clear()
            else:
                n_r += 1
                for p in since_reset.values():
                    p.feed(e)
            if name != names[t - 1] and name in ENTRY_STATES:
                n_e = 0
                for p in since_entry.values():
                    p.clear()
            else:
                n_e += 1
                for p in since_entry.values():
                    p.feed(e)
            if name != names[t - 1] and name in SCR_ENTRY:
                our_req, partner_req, scr_known = stim[t - 1][IX["disable_scrambling"]], 0, True
            else:
                partner_req |= stim[t - 1][IX["no_scrambling_requested"]]
        ready = rows[t][LR]
        if (name == "U0") != bool(ready):
            fail(t, "link-ready-not-u0", "link_ready=%d in state %s" % (ready, name))
        # ---- resets
        if t > 0 and stim[t - 1][RST] and ready:
            if rows[t - 1][LR]:
                fail(t, "reset-does-not-remove-link-ready",
                     "in_usb_reset was asserted in cycle %d with link_ready high; link_ready is still high in cycle %d" % (t - 1, t))
            else:
                fail(t, "u0-entered-during-reset",
                     "in_usb_reset was asserted in cycle %d (state %s) and the link reports ready in cycle %d" % (t - 1, names[t - 1], t))
        # ---- training
        if ready and (t == 0 or not rows[t - 1][LR]):
            for sig, p in since_reset.items():
                if not p.done():
                    fail(t, sig, "link_ready rises in cycle %d but the %d cycles since the last reset contain only the "
                                 "first %d of the %d steps of the required handshake sequence (%s)"
                         % (t, n_r, p.k, len(p.preds), sig))
            for sig, p in since_entry.items():
                if not p.done():
                    fail(t, sig, "link_ready rises in cycle %d but since the last entry to Polling / Recovery / "
                                 "Hot Reset (%d cycles ago) there was no TS2 exchange followed by an idle handshake "
                                 "(%d of %d steps)" % (t, n_e, p.k, len(p.preds)))
        # ---- time-outs
        stay = stay + 1 if (t > 0 and names[t - 1] == name) else 1
        if name in TIMEOUT:
            T = exact_cycles(TIMEOUT[name], freq)
            if stay > T + 1:
                fail(t, "timeout-exceeded:" + name,
                     "state %s occupied for %d cycles; its time-out is %s s = %d cycles at %g Hz" % (name, stay, TIMEOUT[name], T, freq))
        # ---- scrambling
        if ready and scr_known:
            want = int(not (our_req or partner_req))
            if rows[t][SCR] != want:
                fail(t, "scrambling-in-u0", "U0 in cycle %d: enable_scrambling=%d but our side requested no scrambling=%d, "
                                            "partner requested no scrambling=%d" % (t, rows[t][SCR], our_req, partner_req))
    return fails


# ------------------------------------------------------------------------------------------ cases
def gen_cases(tier, rng):
    out = []

    def add(freq, kind, loosen=1, compliance=0, **kw):
        d = {"freq": FREQS[freq], "fname": freq, "loosen": loosen, "compliance": compliance, "kind": kind,
             "seed": rng.u64()}
        d.update(kw)
        out.append(d)

    pending = {}

    def script(freq, loosen=1, compliance=0, alone=False, **sc):
        """queue a scenario; scenarios of the same configuration are batched into one simulation"""
        if alone:
            add(freq, "script", loosen=loosen, compliance=compliance, scripts=[sc])
        else:
            pending.setdefault((freq, loosen, compliance), []).append(sc)

    def flush(batch):
        for (freq, loosen, compliance), scs in sorted(pending.items()):
            scs = rng.shuffle(scs)
            for k in range(0, len(scs), batch):
                add(freq, "script", loosen=loosen, compliance=compliance, scripts=scs[k:k + batch])
        pending.clear()

    timed = list(TIMEOUT)
    pick2 = rng.choice([S for S in timed if TIMEOUT[S] == T2])
    pick12 = rng.choice([S for S in timed if TIMEOUT[S] == T12])
    all_states = [s for s in STATES if s not in ("SS.Disabled.Error", "Compliance")]
    if tier == "quick":
        full, some, env_n, noise_n = ["2k"], ["10k", "250k", "1M"], 10, 3
    elif tier == "widen":
        full, some, env_n, noise_n = ["1k", "2k"], ["10k", "25k"], 40, 8
    else:
        full, some, env_n, noise_n = ["1k", "2k", "10k", "25k"], ["250k", "1M"], 60, 12
    # --- scripted matrix at the low frequencies
    for f in full:
        for S in all_states:
            lo = rng.below(2)
            script(f, state=S, kind="reach")
            for a in range(len(ALT_EXITS.get(S, []))):
                script(f, loosen=(a + lo) % 2, state=S, kind="alt", alt=a)
            for n in (1, 2, 5):
                script(f, loosen=lo, state=S, kind="reset", n=n, delay=rng.below(3))
            script(f, state=S, kind="reset+exit", n=1)
            script(f, loosen=lo, state=S, kind="reset+exit", n=rng.range(2, 6))
            for a in range(len(ALT_EXITS.get(S, []))):
                script(f, state=S, kind="reset+exit", n=2, alt=a)
            script(f, state=S, kind="reset-pulse-then-train", n=rng.range(1, 3))
        for S in timed:
            long = TIMEOUT[S] == T360
            for off in (-1, 0, 1):
                script(f, alone=long, state=S, kind="timeout", off=off)
                script(f, loosen=0, alone=long, state=S, kind="timeout-reset", off=off)
        script(f, state="U0", kind="recovery-walk-in-reset")
        # Compliance is only reachable while polling has never been seen since power-on: own simulations
        for comp in (0, 1):
            script(f, compliance=comp, alone=True, state="Compliance", kind="reach")
            script(f, compliance=comp, alone=True, state="Compliance", kind="reset", n=2, delay=3)
            script(f, compliance=comp, alone=True, state="Compliance", kind="reset+exit", n=1)
            script(f, compliance=comp, alone=True, state="Compliance", kind="reset-pulse-then-train", n=1)
        # first scenario of a simulation starts from the true power-on state: one of each kind alone
        script(f, alone=True, state="U0", kind="reach")
        script(f, alone=True, state="Polling.Idle", kind="reset+exit", n=2)
        script(f, alone=True, state="Polling.LFPS", kind="reset-pulse-then-train", n=1)
    flush(8)
    # --- reduced scripted set at the higher frequencies (one offset per timed state, rotating)
    for f in some:
        for k, S in enumerate(timed):
            if TIMEOUT[S] == T360 and f in ("250k", "1M") and tier != "thorough":
                continue
            offs = (-1, 0, 1) if tier == "thorough" else (rng.choice([-1, 0, 1]),)
            if tier == "quick" and f == "1M" and S not in (pick2, pick12):
                continue      # quick keeps two probes at 1 MHz (a 2 ms and a 12 ms state, rotating with the seed)
            for off in offs:
                script(f, loosen=rng.below(2), alone=True, state=S,
                       kind=rng.choice(["timeout", "timeout", "timeout-reset"]), off=off)
        script(f, state="U0", kind="reach")
        script(f, state="Polling.Idle", kind="reset+exit", n=2)
    flush(4)
    # --- reactive environment
    if tier == "quick":
        env_plan = [("1k", 6), ("2k", 6), ("10k", 4)]
    elif tier == "widen":
        env_plan = [("1k", env_n), ("2k", env_n), ("10k", env_n), ("25k", env_n), ("250k", 6), ("1M", 6)]
    else:
        env_plan = [("1k", env_n), ("2k", env_n), ("10k", env_n), ("25k", env_n), ("250k", 6), ("1M", 6)]
    for f, cnt_ in env_plan:
        for k in range(cnt_):
            add(f, "env", loosen=rng.below(2), compliance=1 if (rng.chance(20) and f not in ("250k", "1M")) else 0)
    for k in range(noise_n):
        add(rng.choice(["1k", "2k", "10k"]), "noise", loosen=rng.below(2), compliance=rng.below(2),
            density=rng.choice([2, 10, 30, 50]))
    # longest simulations first, so that the pool is not left waiting for one straggler
    out.sort(key=lambda d: -_cost(d))
    return out


def _cost(d):
    if d["kind"] == "env":
        return ENV_LEN[d["fname"]]
    if d["kind"] == "noise":
        return 3000
    c12, c2, c360 = counts(d["freq"])
    n = 0
    for sc in d["scripts"]:
        n += 40
        if sc["state"] in ("Compliance", "SS.Disabled.Default") or (sc["state"] == "Polling.LFPS" and "off" in sc):
            n += c360
        elif "off" in sc or sc["state"].startswith("SS.Inactive"):
            n += 2 * c12
    return n


ENV_LEN = {"1k": 4000, "2k": 5000, "10k": 9000, "25k": 14000, "250k": 30000, "1M": 60000}


def run_case(desc):
    freq, loosen, compliance = desc["freq"], int(desc["loosen"]), int(desc["compliance"])
    cnt = counts(freq)
    dut, frag, st_sig, ctr_sig = build(freq, loosen, compliance)
    ctr_mod = 1 << len(ctr_sig)
    rng = Rng(desc["seed"])
    tags = set()
    if desc.get("stimulus"):
        rows_in = desc["stimulus"]
        source = lambda t, name: rows_in[t]
        n = len(rows_in)
    elif desc["kind"] == "script":
        # several scenarios in one simulation, separated by a warm reset (which brings the repaired
        # controller back to Rx.Detect.Reset but deliberately leaves the "seen" latches as they are)
        rows_in = []
        for k, sc in enumerate(desc["scripts"]):
            if k:
                rows_in += [with_reset(ev())] * 2
            rows_in += make_script(sc, freq, cnt, rng)
            tags.add("script:%s:%s%s" % (sc["kind"], sc["state"], (":%+d" % sc["off"]) if "off" in sc else ""))
        source = lambda t, name: rows_in[t]
        n = len(rows_in)
    elif desc["kind"] == "env":
        env = Env(rng, freq, cnt)
        source = env
        n = desc.get("len") or ENV_LEN[desc["fname"]]
    else:
        source = noise_source(rng, desc.get("density", 10))
        n = desc.get("len") or 3000
    stim, rows, names = simulate(dut, frag, st_sig, n, source)
    if desc["kind"] == "env" and not desc.get("stimulus"):
        tags |= env.tags
    fails = monitor(freq, loosen, stim, rows, names)
    # the cycle counts the Lean model is configured with must be the exact ceilings (checked here so that a
    # float artefact in the gateware's own computation would show up as a monitor failure, not be copied)
    for t_, c_ in zip((T12, T2, T360), cnt):
        if exact_cycles(t_, freq) != c_:
            fails.append({"cycle": 0, "sig": "timeout-constant", "what":
                          "the gateware computes %d cycles for %s s at %g Hz, exact value %d" % (c_, t_, freq, exact_cycles(t_, freq))})
    for a, b in zip(names, names[1:]):
        if a != b:
            tags.add("tr:%s>%s" % (a, b))
    for k in range(1, len(names)):
        if stim[k - 1][IX["in_usb_reset"]]:
            tags.add("reset-in:" + names[k - 1])
    stay = 1
    for k in range(1, len(names)):
        stay = stay + 1 if names[k] == names[k - 1] else 1
        if names[k] in TIMEOUT and stay == exact_cycles(TIMEOUT[names[k]], freq) + 1:
            tags.add("timeout-reached:" + names[k])
    tags |= {"st:" + s for s in set(names)}
    tags.add("f=" + desc["fname"])
    tags.add("loosen=%d" % loosen)
    tags.add("compliance=%d" % compliance)
    tags.add("kind=" + desc["kind"])
    cfg = [cnt[0], cnt[1], cnt[2], ctr_mod, loosen, compliance]
    return Case(cfg, stim, [list(r) for r in rows], fails, sorted(tags), desc, IN, OUT)
