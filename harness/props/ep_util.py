"""Shared machinery of C12 / C14: non-control endpoints of a whole `USBDevice` at transaction level.

Built on `harness/common/devharness.py` (imported, not modified):

* `EpHarness`      DevHarness + (a) several schedules on ONE elaborated device (`Simulator.reset()` between
                   them; elaboration is the expensive part) and (b) the event
                   `["hs+produce", pid, ep, [bytes], last, offset]` that offers producer bytes to a stream IN
                   endpoint *while* a host handshake is being received (needed to make the halt-clear strobe
                   coincide with `packet_ready`, F8)
* `make_spec`      device with 2 stream IN + 2 stream OUT + 1 status endpoint (same and different numbers in
                   the two directions)
* `EpHost`         adaptive legal host: IN / OUT / PING transactions on every endpoint, tokens nobody owns,
                   tokens for other devices, lost handshakes, retries, wrong data PIDs, corrupted data, control
                   transfers (CLEAR_FEATURE(ENDPOINT_HALT) for every (number, direction), stalled
                   CLEAR_FEATUREs, GET_STATUS, SET_CONFIGURATION, SET_ADDRESS), producer/consumer/signal events
* `owners`         which endpoint each event of a schedule belongs to (recomputed from the events, so that a
                   replayed stimulus is classified the same way)
* `case_rows`      rows for the Lean event-level model (`Driver/EpDev.lean`, model 0)
"""
from harness.common.rng import Rng
from harness.common import devharness as DH
from harness.common import usbref as U
from harness.props import dev_ctl

S, I, O, P = U.PID_SETUP, U.PID_IN, U.PID_OUT, U.PID_PING
D0, D1, D2, DM = U.PID_DATA0, U.PID_DATA1, U.PID_DATA2, U.PID_MDATA
ACK, NAK, STALL = U.PID_ACK, U.PID_NAK, U.PID_STALL

DRIVER = "Driver/EpDev.lean"
KIND_CODE = {"in": 0, "out": 1, "sig": 2}


# ----------------------------------------------------------------------------- device under test
def out_depth(e):
    return e[3] if len(e) > 3 else 2 * e[2] - 1


def make_spec(rng, shape="std"):
    """2 stream IN, 2 stream OUT, 1 status endpoint.  One IN/OUT pair shares its number, the other two have
    numbers of their own; the status endpoint has a number no other IN endpoint has (it may share it with an
    OUT endpoint)."""
    nums = list(range(1, 16))
    nums = rng.shuffle(nums)
    a, b, c, d = nums[:4]
    mps = lambda: rng.choice([4, 8, 8, 16, 64])
    m_out1, m_out2 = mps(), mps()
    eps = [["in", a, mps()], ["in", b, mps()],
           ["out", a, m_out1, rng.choice([2 * m_out1 - 1, 2 * m_out1 - 1, m_out1 + 3, 3 * m_out1])],
           ["out", c, m_out2],
           ["sig", rng.choice([d, c]), rng.choice([8, 16, 16, 24, 13])]]
    eps = rng.shuffle(eps)
    return {"shape": shape, "desc": DH.descriptor_table(shape, rng), "eps": eps, "handlers": []}


def cfg_ints(spec):
    out = [0, len(spec["eps"])]
    for e in spec["eps"]:
        out += [KIND_CODE[e[0]], e[1], e[2], out_depth(e) if e[0] == "out" else 0]
    return out + dev_ctl.cfg_ints(spec)


class EpHarness(DH.DevHarness):
    """DevHarness that can run several schedules on the same elaborated design."""

    def run_many(self, scripts):
        """scripts: list of (event list | generator function).  Returns one EventResult list per script; the
        device is put back into its power-on state before every script but the very first."""
        u = self.utmi

        async def tb(ctx):
            script = self._script
            self.cycle, self.tx_rows, self.log = 0, [], []
            self._rx, self._ls, self._ready = (0, 0, 0), None, None
            ctx.set(u.rx_active, 0)
            ctx.set(u.rx_valid, 0)
            ctx.set(u.rx_data, 0)
            ctx.set(u.line_state, self.LINE_J)
            self._ls = self.LINE_J
            ctx.set(self.dev.connect, 1)
            ctx.set(u.tx_ready, 1)
            self._ready = 1
            for _ in range(4):
                await self._tick(ctx)
            if callable(script):
                gen = script(self)
                try:
                    ev = gen.send(None)
                    while True:
                        res = await self._event(ctx, ev)
                        ev = gen.send(res)
                except StopIteration:
                    pass
            else:
                for ev in script:
                    await self._event(ctx, ev)

        if not getattr(self, "_tb_added", False):
            self.sim.add_testbench(tb)
            self._tb_added = True
            self._runs = 0
        logs = []
        for script in scripts:
            self._script = script
            if self._runs:
                self.sim.reset()
            self._runs += 1
            self.sim.run()
            logs.append(self.log)
        return logs

    async def _event(self, ctx, ev):
        if ev[0] != "hs+produce":
            return await super()._event(ctx, ev)
        # a host handshake during which the producer offers bytes to a stream IN endpoint: byte i is
        # presented from cycle `offset + i` (counted from the first cycle of the handshake packet) until
        # the endpoint takes it
        _k, pid, epn, data, last, offset = ev
        start = self.cycle
        self.tx_rows = []
        st = self.endpoints[("in", epn)].stream
        rows = U.render_rx(U.handshake_packet(pid)) if self.rng is None else \
            U.render_rx(U.handshake_packet(pid), self.rng, lead_in=self.rng.range(1, 2))
        rows = list(rows) + [(0, 0, 0)] * 30
        pending = list(data)
        accepted = 0
        for t, r in enumerate(rows):
            if pending and t >= offset:
                ctx.set(st.payload, pending[0])
                ctx.set(st.valid, 1)
                ctx.set(st.first, int(accepted == 0))
                ctx.set(st.last, int(bool(last) and len(pending) == 1))
                took = ctx.get(st.ready)
            else:
                ctx.set(st.valid, 0)
                ctx.set(st.last, 0)
                ctx.set(st.first, 0)
                took = 0
            await self._tick(ctx, r)
            if took:
                pending.pop(0)
                accepted += 1
        ctx.set(st.valid, 0)
        ctx.set(st.last, 0)
        ctx.set(st.first, 0)
        await self._window(ctx, self._r(3, 6))
        resp = DH.decode_response(U.parse_tx(self.tx_rows))
        res = DH.EventResult(list(ev), resp, ctx.get(self.address), ctx.get(self.configuration), accepted,
                             self.cycle - start, start, [ctx.get(s) for s in self.probe_signals])
        self.log.append(res)
        return res


# ----------------------------------------------------------------------------- who owns an event
def ep_owner(spec, pid, ep):
    """The endpoint a token with this PID and endpoint number is addressed to: 'ctl', (kind, number) or None."""
    if ep == 0:
        return "ctl"
    for e in spec["eps"]:
        if e[1] != ep:
            continue
        if pid == I and e[0] in ("in", "sig"):
            return (e[0], ep)
        if pid in (O, P) and e[0] == "out":
            return (e[0], ep)
    return None


def owners(spec, events, results):
    """Per event: 'ctl', (kind, number), or None (nobody on this device: unowned endpoint / direction, other
    address, SOF, idle time).  Packets following a token belong to the token's transaction."""
    out = []
    cur = None
    addr = 0
    for ev, r in zip(events, results):
        k = ev[0]
        if k == "tok":
            cur = ep_owner(spec, ev[1], ev[3]) if ev[2] == addr else None
            out.append(cur)
        elif k in ("data", "hs", "quiet", "hs+produce"):
            out.append(cur)
        elif k == "produce":
            out.append(("in", ev[1]))
        elif k == "consume":
            out.append(("out", ev[1]))
        elif k == "signal":
            out.append(("sig", ev[1]))
        else:
            out.append(None)
        addr = r.address
    return out


def obs_of(r):
    """What an endpoint shows of itself in one event: its transmission and what it exchanged with the application."""
    d = r.delivered
    if isinstance(d, list):
        d = [list(x) for x in d]
    return (r.resp.kind, r.resp.pid, tuple(r.resp.payload), repr(d))


# ----------------------------------------------------------------------------- the legal host
class EpHost:
    """Adaptive host.  `script(harness)` is a generator for `DevHarness.run`; `events`/`results` record the run."""

    def __init__(self, rng, spec, n_txn, profile="c12"):
        self.rng, self.spec, self.n_txn, self.profile = rng, spec, n_txn, profile
        self.tags = set()
        self.addr = 0
        self.ins = [e for e in spec["eps"] if e[0] == "in"]
        self.outs = [e for e in spec["eps"] if e[0] == "out"]
        self.sigs = [e for e in spec["eps"] if e[0] == "sig"]
        self.out_pid = {e[1]: 0 for e in self.outs}       # host-side data toggle per OUT endpoint
        self.out_fill = {e[1]: 0 for e in self.outs}      # upper bound of the FIFO fill level
        self.events, self.results = [], []

    def tag(self, t):
        self.tags.add(t)

    def emit(self, ev):
        r = yield ev
        self.events.append(ev)
        self.results.append(r)
        return r

    # -- transactions
    def in_txn(self, ep, kind):
        rng = self.rng
        r = yield from self.emit(["tok", I, self.addr, ep])
        if r.resp.is_data:
            self.tag("%s:data%d" % (kind, 1 if r.resp.pid == D1 else 0))
            if not r.resp.payload:
                self.tag(kind + ":zlp")
            k = rng.weighted([(8, "ack"), (1, "lost"), (1, "next")])
            self.tag(kind + ":" + k)
            if k == "ack":
                yield from self.emit(["hs", ACK])
            elif k == "lost":
                yield from self.emit(["quiet"])
        elif r.resp.is_hs(NAK):
            self.tag(kind + ":nak")

    def produce(self, e):
        rng = self.rng
        n = rng.choice([1, 2, e[2] - 1, e[2], e[2], e[2] + 1, 2 * e[2], 3])
        r = yield from self.emit(["produce", e[1], rng.bytes(max(1, n)), int(rng.chance(70))])
        if r.delivered < max(1, n):
            self.tag("in:producer-stalled")

    def out_txn(self, e):
        rng = self.rng
        ep, mps, depth = e[1], e[2], out_depth(e)
        room = depth - self.out_fill[ep]
        if room < mps and rng.chance(50):
            yield from self.consume(e)
            room = depth - self.out_fill[ep]
        n = rng.choice([0, 1, 2, mps - 1, mps, mps, 3])
        n = max(0, min(n, room, mps))
        toggle = self.out_pid[ep]
        k = rng.weighted([(10, "good"), (2, "wrongpid"), (2, "badcrc"), (1, "odd-pid")])
        pid = D1 if toggle else D0
        if k == "wrongpid":
            pid = D0 if toggle else D1
        elif k == "odd-pid":
            pid = rng.choice([D2, DM])
        self.tag("out:" + k)
        if any(o[1] != ep and n > o[2] for o in self.outs):
            self.tag("out:packet-longer-than-the-other-out-endpoints-mps")
        yield from self.emit(["tok", O, self.addr, ep])
        r = yield from self.emit(["data", pid, rng.bytes(n), int(k != "badcrc")])
        if r.resp.is_hs(ACK):
            self.out_fill[ep] += n
            if n == mps:
                self.tag("out:full-packet")
            if n == 0:
                self.tag("out:zlp")
            if k == "good":
                if rng.chance(88):
                    self.out_pid[ep] ^= 1
                else:
                    self.tag("out:host-missed-ack")       # the host will repeat the packet's PID
        elif r.resp.is_hs(NAK):
            self.tag("out:nak")

    def consume(self, e):
        n = self.rng.choice([1, 3, e[2], 2 * e[2], 1000])
        r = yield from self.emit(["consume", e[1], n])
        got = len(r.delivered)
        self.out_fill[e[1]] = 0 if got < n else max(0, self.out_fill[e[1]] - got)
        self.tag("out:consume")

    def ping(self):
        rng = self.rng
        ep = rng.choice([e[1] for e in self.spec["eps"]] + [rng.range(1, 15)])
        r = yield from self.emit(["tok", P, self.addr, ep])
        if r.resp.is_hs(ACK):
            self.tag("ping:ack")
        elif r.resp.is_hs(NAK):
            self.tag("ping:nak")
        else:
            self.tag("ping:none")

    def unowned(self):
        """A transaction addressed to an endpoint number / direction nobody owns, or to another device."""
        rng = self.rng
        k = rng.weighted([(3, "in"), (3, "out"), (2, "other-dev")])
        self.tag("unowned:" + k)
        if k == "other-dev":
            addr = rng.choice([a for a in (1, 2, 55, 127) if a != self.addr])
            ep = rng.choice([e[1] for e in self.spec["eps"]] + [0])
            pid = rng.choice([I, O, P])
            yield from self.emit(["tok", pid, addr, ep])
            if pid == O:
                n = rng.choice([0, 1, 4, 8, 9, 17, 65])       # also longer than the max packet size of this device's OUT endpoints
                if n > min([e[2] for e in self.outs] or [1024]):
                    self.tag("unowned:out-packet-longer-than-an-out-endpoints-mps")
                yield from self.emit(["data", rng.choice([D0, D1]), rng.bytes(n), 1])
            return
        pid = I if k == "in" else O
        cands = [n for n in range(1, 16) if ep_owner(self.spec, pid, n) is None]
        # prefer numbers that exist in the other direction
        pref = [n for n in cands if any(e[1] == n for e in self.spec["eps"])]
        ep = rng.choice(pref if pref and rng.chance(70) else cands)
        yield from self.emit(["tok", pid, self.addr, ep])
        if pid == O:
            n = rng.choice([0, 1, 4, 8, 9, 17, 65])       # also longer than the max packet size of this device's OUT endpoints
            if n > min([e[2] for e in self.outs] or [1024]):
                self.tag("unowned:out-packet-longer-than-an-out-endpoints-mps")
            yield from self.emit(["data", rng.choice([D0, D1]), rng.bytes(n), 1])

    # -- control transfers
    def control(self):
        rng = self.rng
        eps = self.spec["eps"]
        k = rng.weighted([(12, "clear_halt"), (3, "clear_stall"), (2, "get_status"), (2, "set_config"),
                          (1, "set_address"), (1, "get_descriptor")])
        self.tag("ctl:" + k)
        if k == "clear_halt":
            if rng.chance(80):
                e = rng.choice(eps)
                num = e[1] ^ rng.choice([0, 0, 0, 0, 0, 8, 4, 1])       # sometimes a number one bit away from an existing one
                idx = num | (0x80 if (e[0] != "out") ^ rng.chance(12) else 0)
            else:
                idx = rng.below(16) | (0x80 if rng.chance(50) else 0)
            idx |= rng.choice([0, 0, 0, 0x10, 0x7000])          # reserved bits of wIndex are ignored
            su = DH.setup_bytes(0x02, 1, 0, idx, 0)
        elif k == "clear_stall":
            e = rng.choice(eps)
            idx = e[1] | (0x80 if e[0] != "out" else 0)
            su = rng.choice([DH.setup_bytes(0x00, 1, 0, idx, 0), DH.setup_bytes(0x02, 1, 1, idx, 0),
                             DH.setup_bytes(0x01, 1, 0, idx, 0), DH.setup_bytes(0x02, 1, 0x100, idx, 0)])
        elif k == "get_status":
            su = DH.setup_bytes(0x82, 0, 0, rng.choice([0x81, 0x01, 0]), 2)
        elif k == "set_config":
            su = DH.setup_bytes(0x00, 9, rng.choice([0, 1, 2]), 0, 0)
        elif k == "set_address":
            su = DH.setup_bytes(0x00, 5, rng.choice([0, 3, 17, 99]), 0, 0)
        else:
            su = DH.setup_bytes(0x80, 6, 0x0100, 0, 18)
        if any(o[2] < 8 for o in self.outs):
            self.tag("ctl:setup-packet-longer-than-an-out-endpoints-mps")
        yield from self.emit(["tok", S, self.addr, 0])
        r = yield from self.emit(["data", D0, su, 1])
        if not r.resp.is_hs(ACK):
            return
        if rng.chance(8):
            self.tag("ctl:abandoned")
            return
        if rng.chance(25):                                   # traffic for other endpoints inside the control transfer
            yield from self.bulk()
        if su[0] & 0x80 and (su[6] or su[7]):
            r = yield from self.emit(["tok", I, self.addr, 0])
            if r.resp.is_data:
                yield from self.emit(["hs", ACK])
            if rng.chance(25):
                yield from self.bulk()
            yield from self.emit(["tok", O, self.addr, 0])
            yield from self.emit(["data", D1, [], 1])
            return
        r = yield from self.emit(["tok", I, self.addr, 0])
        if r.resp.is_data:
            j = rng.weighted([(9, "ack"), (1, "lost")])
            if j == "ack":
                yield from self.emit(["hs", ACK])
                self.tag("ctl:%s-completed" % k)
                if k == "set_address":
                    self.addr = su[2] & 0x7F
            else:
                self.tag("ctl:status-ack-lost")
                yield from self.emit(["quiet"])
        elif r.resp.is_hs(STALL):
            self.tag("ctl:stalled")

    def bulk(self):
        rng = self.rng
        k = rng.weighted([(6, "in"), (5, "out"), (3, "sig"), (2, "ping"), (3, "unowned"), (3, "produce"), (2, "consume"),
                          (2, "signal"), (1, "sof"), (1, "quiet")])
        if k == "in" and self.ins:
            e = rng.choice(self.ins)
            if rng.chance(55):
                yield from self.produce(e)
            yield from self.in_txn(e[1], "in")
        elif k == "out" and self.outs:
            yield from self.out_txn(rng.choice(self.outs))
        elif k == "sig" and self.sigs:
            e = rng.choice(self.sigs)
            if rng.chance(50):
                yield from self.emit(["signal", e[1], rng.bits(e[2] + 2)])
            yield from self.in_txn(e[1], "sig")
        elif k == "ping":
            yield from self.ping()
        elif k == "unowned":
            yield from self.unowned()
        elif k == "produce" and self.ins:
            yield from self.produce(rng.choice(self.ins))
        elif k == "consume" and self.outs:
            yield from self.consume(rng.choice(self.outs))
        elif k == "signal" and self.sigs:
            e = rng.choice(self.sigs)
            yield from self.emit(["signal", e[1], rng.bits(e[2] + 2)])
        elif k == "sof":
            yield from self.emit(["sof", rng.below(2048)])
        else:
            yield from self.emit(["quiet"])

    def script(self, _harness):
        rng = self.rng
        p_ctl = 22 if self.profile == "c14" else 10
        for _ in range(self.n_txn):
            if rng.chance(p_ctl):
                yield from self.control()
            else:
                yield from self.bulk()
        # drain: what the OUT endpoints still hold, and one more packet from every IN endpoint
        for e in self.outs:
            yield from self.emit(["consume", e[1], 100000])
        for e in self.ins + self.sigs:
            r = yield from self.emit(["tok", I, self.addr, e[1]])
            if r.resp.is_data:
                yield from self.emit(["hs", ACK])


def run_schedule(h, desc, rng, spec, profile, tags, fails, babble_sig):
    """Run the case's schedule on the real device: the recorded stimulus when the description carries one
    (replay), else a fresh adaptive host.  A device that transmits without end is a finding, not an
    infrastructure problem: it is reported as a monitor failure and the schedule is cut there."""
    host = None
    try:
        if desc.get("stimulus"):
            events = [DH.decode_event(r) for r in desc["stimulus"]]
            results = h.run_many([events])[0]
        else:
            host = EpHost(rng.fork("host"), spec, desc.get("n_txn", 100), profile)
            results = h.run_many([host.script])[0]
            events = host.events
            tags |= host.tags
    except RuntimeError as ex:
        if "does not end" not in str(ex):
            raise
        results = list(h.log)
        events = [r.event for r in results]
        fails.append({"cycle": len(results), "sig": babble_sig,
                      "what": "after %d events the device transmits for more than 6000 cycles without end" % len(results)})
    return events, results


# ----------------------------------------------------------------------------- rows for the Lean model
def app_ints(r):
    d = r.delivered
    if d is None:
        return [0]
    if isinstance(d, int):
        return [1, d]
    return [len(d)] + [b + 256 * int(bool(l)) + 512 * int(bool(f)) for (b, f, l) in d]


def case_rows(events, results):
    ins = [DH.encode_event(e) for e in events]
    outs = [[1, r.address, r.configuration] + r.resp.encode() + app_ints(r) for r in results]
    return ins, outs


NAMES_IN = ["event…"]
NAMES_OUT = ["legal", "address", "configuration", "resp_kind", "resp_pid", "resp_len"] + ["byte/app%d" % i for i in range(80)]
