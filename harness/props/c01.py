"""C01 — token detection (luna/gateware/usb/usb2/packet.py: USBTokenDetector)."""
from harness.common.framework import Case
from harness.common.rng import Rng
from harness.common import sim, usbref

PROP = "C01"
LEAN_MODULES = ["LunaVerif.Props.C01"]
DRIVER = "Driver/C01.lean"
REQUIRED_THEOREMS = ["token_events_exact", "no_event_unless_three_bytes", "no_event_foreign_address",
                     "sof_ignores_address", "no_event_on_corruption", "token_events_rendered"]
RULE = ("cases = (filter_by_address, clock/fs_only of the private timer) x stimulus kind; token grammar: first byte any "
        "value 0..255 (weighted to token PIDs), 0..6 bytes, CRC good or one bit of the 16 body bits flipped, own / "
        "foreign address (address input also changed between and during packets), rx_valid gaps 0..9, truncation = "
        "rx_active dropped after every byte position; nested = one rx_active span holding a rejected head (bad-CRC / "
        "foreign-address token, bad PID byte, cut-short token) + 0..2 filler bytes / rx_valid gaps 0..2 + the three "
        "bytes of a well-formed own-address token or SOF (must give no event: over-long); random legal UTMI streams; random ILLEGAL streams (model "
        "comparison only); thorough: every 11-bit payload x {OUT, IN, SETUP, PING, SOF} once each + all 256 PID bytes")
ASSUMPTIONS = [
    "the UTMI receive history is legal (rx_valid only while rx_active and not in the cycle rx_active rises); a "
    "'received packet' is the list of rx_valid bytes between rx_active rising and falling",
    "the device address is the value of the `address` input in the cycle the packet ends (rx_active first low)",
    "CRC5 in the model is the bit-serial reference Crc.usb2Crc5 (C30 proves the gateware network equal to it)",
]
PARTIAL = ""

TOKEN_PIDS = [usbref.PID_OUT, usbref.PID_IN, usbref.PID_SETUP, usbref.PID_PING]
CONFIGS = [(60, 0), (60, 1), (12, 1)]
OUT_NAMES = ["pid", "address", "endpoint", "new_token", "ready_for_response", "frame", "new_frame",
             "is_in", "is_out", "is_setup", "is_ping"]


def legal_rx(rows):
    prev = 0
    for r in rows:
        a, v = r[0], r[1]
        if v and not (a and prev):
            return False
        prev = a
    return True


def render(packet, gaps, lead, idle, addr_fn, speed, rng):
    rows = []
    for _ in range(lead):
        rows.append([1, 0, rng.below(256), addr_fn(), speed])
    for b, g in zip(packet, gaps):
        rows.append([1, 1, b, addr_fn(), speed])
        for _ in range(g):
            rows.append([1, 0, rng.below(256), addr_fn(), speed])
    for _ in range(idle):
        rows.append([0, 0, rng.below(256), addr_fn(), speed])
    return rows


def token_bytes(pid_byte, d11, crc=None):
    c = usbref.usb2_crc5(d11) if crc is None else crc
    w = d11 | (c << 11)
    return [pid_byte, w & 0xFF, w >> 8]


def make_stimulus(desc, rng):
    kind = desc["kind"]
    fso = desc["fs_only"]
    speed = 1 if fso else rng.choice([0, 1, 1, 2])
    own = rng.below(128)
    state = {"addr": own}

    def addr_fn():
        # the address input mostly holds the device address, and sometimes moves (SET_ADDRESS) at any time
        if rng.chance(1, 400):
            state["addr"] = rng.below(128)
        return state["addr"]

    rows = [[0, 0, 0, state["addr"], speed] for _ in range(rng.range(0, 3))]
    if kind == "grammar":
        for _ in range(140):
            own = state["addr"]
            pidb = rng.weighted([(10, usbref.pid_byte(rng.choice(TOKEN_PIDS))), (4, usbref.pid_byte(usbref.PID_SOF)),
                                 (2, usbref.pid_byte(rng.below(16))), (2, rng.below(256)),
                                 (1, usbref.pid_byte(rng.choice(TOKEN_PIDS + [usbref.PID_SOF])) ^ (1 << rng.below(8)))])
            a = rng.weighted([(6, own), (2, rng.below(128)), (1, own ^ (1 << rng.below(7)))])
            d11 = a | (rng.below(16) << 7)
            if rng.chance(10):
                d11 = rng.weighted([(1, 0), (1, 0x7FF), (1, rng.below(2048))])
            pkt = token_bytes(pidb, d11)
            if rng.chance(15):                       # one bit of the 16 body bits flipped
                k = rng.below(16)
                pkt[1 + k // 8] ^= 1 << (k % 8)
            n = rng.weighted([(12, 3), (1, 0), (1, 1), (2, 2), (2, 4), (1, 5), (1, 6)])
            pkt = (pkt + [rng.below(256) for _ in range(3)])[:n]
            gaps = [rng.weighted([(6, 0), (2, 1), (1, 2), (1, rng.range(3, 9))]) for _ in pkt]
            rows += render(pkt, gaps, rng.choice([1, 1, 2, 5]), rng.choice([1, 1, 1, 2, 6]), addr_fn, speed, rng)
    elif kind == "random-legal":
        prev = 0
        p_val = rng.choice([30, 60, 95])
        toks = [usbref.pid_byte(p) for p in TOKEN_PIDS + [usbref.PID_SOF]]
        for _ in range(1000):
            a = int(rng.chance(60)) if not prev else int(rng.chance(93))
            v = int(a and prev and rng.chance(p_val))
            d = rng.weighted([(1, rng.choice(toks)), (3, rng.below(256))])
            rows.append([a, v, d, addr_fn(), speed])
            prev = a
    elif kind == "random-illegal":
        toks = [usbref.pid_byte(p) for p in TOKEN_PIDS + [usbref.PID_SOF]]
        for _ in range(800):
            rows.append([int(rng.chance(75)), int(rng.chance(60)), rng.weighted([(1, rng.choice(toks)), (3, rng.below(256))]),
                         addr_fn(), speed])
    elif kind == "payloads":
        # every 11-bit payload in [lo, hi) with each of the five token PIDs
        for d11 in range(desc["lo"], desc["hi"]):
            for pid in TOKEN_PIDS + [usbref.PID_SOF]:
                if rng.chance(75):
                    state["addr"] = d11 & 0x7F
                else:
                    state["addr"] = rng.below(128)
                pkt = token_bytes(usbref.pid_byte(pid), d11)
                rows += render(pkt, [rng.choice([0, 0, 0, 1]) for _ in pkt], 1, 1, lambda: state["addr"], speed, rng)
    elif kind == "pids":
        for pidb in range(256):
            a = state["addr"]
            d11 = a | (rng.below(16) << 7)
            rows += render(token_bytes(pidb, d11), [0, 0, rng.below(2)], 1, 1, lambda: state["addr"], speed, rng)
    elif kind == "nested":
        # packets inside packets: ONE rx_active span = a rejected head (bad-CRC token / foreign-address token / bad
        # PID byte, possibly cut short) + 0..2 filler bytes / rx_valid gaps + the three bytes of a well-formed token
        # for the current address (or a well-formed SOF).  Over-long => no event whatever the tail looks like.
        toks = TOKEN_PIDS + [usbref.PID_SOF]
        for _ in range(110):
            own = state["addr"]
            hk = rng.weighted([(6, "badcrc"), (2, "foreign"), (2, "badpid"), (1, "good"), (1, "short")])
            hp = usbref.pid_byte(rng.choice(toks))
            hd = own | (rng.below(16) << 7)
            head = token_bytes(hp, hd)
            if hk == "badcrc":
                k = rng.below(16)
                head[1 + k // 8] ^= 1 << (k % 8)
            elif hk == "foreign":
                head = token_bytes(usbref.pid_byte(rng.choice(TOKEN_PIDS)), (own ^ (1 << rng.below(7))) | (rng.below(16) << 7))
            elif hk == "badpid":
                head[0] = rng.weighted([(2, hp ^ (1 << rng.below(8))), (1, rng.below(256))])
                head = head[:rng.choice([1, 1, 3])]
            elif hk == "short":
                head = head[:rng.range(1, 2)]
            fill = [rng.weighted([(1, rng.below(256)), (1, usbref.pid_byte(rng.choice(toks)))])
                    for _ in range(rng.weighted([(2, 0), (3, 1), (1, 2)]))]
            tail = token_bytes(usbref.pid_byte(rng.weighted([(4, rng.choice(TOKEN_PIDS)), (1, usbref.PID_SOF)])),
                               own | (rng.below(16) << 7))
            pkt = head + fill + tail
            if rng.chance(15):
                pkt += token_bytes(usbref.pid_byte(rng.choice(toks)), own | (rng.below(16) << 7))
            gaps = [rng.weighted([(6, 0), (3, 1), (1, 2)]) for _ in pkt]
            rows += render(pkt, gaps, rng.choice([1, 1, 2]), rng.choice([1, 1, 2, 4]), lambda: state["addr"], speed, rng)
            if rng.chance(25):                       # an ordinary token in between keeps the positive side exercised
                rows += render(token_bytes(usbref.pid_byte(rng.choice(toks)), own | (rng.below(16) << 7)), [0, 0, 0],
                               1, rng.choice([1, 2]), lambda: state["addr"], speed, rng)
            if rng.chance(5):
                state["addr"] = rng.below(128)
    return rows


def token_of(pkt):
    """Specification, from the property text: a 3-byte packet with valid check nibble and matching CRC5."""
    if len(pkt) != 3 or not usbref.pid_ok(pkt[0]):
        return None
    w = pkt[1] | (pkt[2] << 8)
    d11 = w & 0x7FF
    if (w >> 11) != usbref.usb2_crc5(d11):
        return None
    pid = pkt[0] & 0xF
    if pid == usbref.PID_SOF:
        return ("sof", d11)
    if pid in TOKEN_PIDS:
        return ("token", pid, d11 & 0x7F, d11 >> 7)
    return None


def monitor(filt, stim, rows):
    fails = []
    tags = set()
    cur = None
    exp_tok = None       # None | ('token', pid, addr, ep)
    exp_sof = None
    prev = None
    ix = {n: i for i, n in enumerate(OUT_NAMES)}

    def fail(t, sig, what):
        if not any(f["sig"] == sig for f in fails):
            fails.append({"cycle": t, "sig": sig, "what": what})

    for t, (inp, out) in enumerate(zip(stim, rows)):
        a, v, d, addr, _speed = inp
        nt, nf = out[ix["new_token"]], out[ix["new_frame"]]
        if nt != int(exp_tok is not None):
            fail(t, "new_token-strobe", "new_token=%d at cycle %d; the packet that ended in the previous cycle requires %d"
                 % (nt, t, int(exp_tok is not None)))
        elif exp_tok is not None:
            got = (out[ix["pid"]], out[ix["address"]], out[ix["endpoint"]])
            if got != exp_tok[1:]:
                fail(t, "token-fields", "token reported as (pid,addr,ep)=%s, the packet was %s" % (got, exp_tok[1:]))
            flags = (out[ix["is_in"]], out[ix["is_out"]], out[ix["is_setup"]], out[ix["is_ping"]])
            want = tuple(int(exp_tok[1] == p) for p in (usbref.PID_IN, usbref.PID_OUT, usbref.PID_SETUP, usbref.PID_PING))
            if flags != want:
                fail(t, "token-kind-flags", "is_in/out/setup/ping=%s for pid %d" % (flags, exp_tok[1]))
        if nf != int(exp_sof is not None):
            fail(t, "new_frame-strobe", "new_frame=%d at cycle %d; the packet that ended in the previous cycle requires %d"
                 % (nf, t, int(exp_sof is not None)))
        elif exp_sof is not None and out[ix["frame"]] != exp_sof:
            fail(t, "frame-value", "frame=%d after SOF %d" % (out[ix["frame"]], exp_sof))
        if prev is not None:
            if not nf and out[ix["frame"]] != prev[ix["frame"]]:
                fail(t, "frame-unstable", "frame changed %d -> %d without a SOF" % (prev[ix["frame"]], out[ix["frame"]]))
            if not nt and (out[ix["address"]], out[ix["endpoint"]]) != (prev[ix["address"]], prev[ix["endpoint"]]):
                fail(t, "token-fields-unstable", "address/endpoint changed without a token event")
        prev = out
        exp_tok = exp_sof = None
        if cur is None:
            if a:
                cur = []
        elif not a:
            ev = token_of(cur)
            tags.add("len%d" % min(len(cur), 5))
            if ev is None:
                if len(cur) == 3:
                    tags.add("len3-rejected" + ("-badnibble" if not usbref.pid_ok(cur[0]) else ""))
            elif ev[0] == "sof":
                exp_sof = ev[1]
                tags.add("sof")
            else:
                if not filt or ev[2] == addr:
                    exp_tok = ev
                    tags.add("token-pid%d" % ev[1])
                else:
                    tags.add("token-foreign")
            cur = None
        elif v:
            cur.append(d)
    return fails, tags


def gen_cases(tier, rng):
    out = []
    n = {"quick": 6, "widen": 16, "thorough": 20}[tier]
    for filt in (1, 0):
        for clk, fso in CONFIGS:
            for k in range(n if (clk, fso) == (60, 0) else max(1, n // 3)):
                out.append({"filter": filt, "clk": clk, "fs_only": fso, "kind": "grammar", "seed": rng.u64()})
            for k in range(max(1, n // 3)):
                out.append({"filter": filt, "clk": clk, "fs_only": fso, "kind": "random-legal", "seed": rng.u64()})
            out.append({"filter": filt, "clk": clk, "fs_only": fso, "kind": "random-illegal", "seed": rng.u64()})
        out.append({"filter": filt, "clk": 60, "fs_only": 0, "kind": "pids", "seed": rng.u64()})
    if tier == "thorough":
        for lo in range(0, 2048, 32):
            out.append({"filter": 1 if (lo // 32) % 4 else 0, "clk": 60, "fs_only": 0, "kind": "payloads",
                        "lo": lo, "hi": lo + 32, "seed": rng.u64()})
    else:
        lo = rng.below(2048 - 16)
        out.append({"filter": 1, "clk": 60, "fs_only": 0, "kind": "payloads", "lo": lo, "hi": lo + 16, "seed": rng.u64()})
    # appended last so that the seeds of the cases above do not move
    for filt, k in ((1, max(3, n // 2)), (0, 1)):
        for _ in range(k):
            out.append({"filter": filt, "clk": 60, "fs_only": 0, "kind": "nested", "seed": rng.u64()})
    return out


def run_case(desc):
    from luna.gateware.usb.usb2.packet import USBTokenDetector
    from luna.gateware.interface.utmi import UTMIInterface
    utmi = UTMIInterface()
    dut = USBTokenDetector(utmi=utmi, filter_by_address=bool(desc["filter"]), domain_clock=desc["clk"] * 1e6,
                           fs_only=bool(desc["fs_only"]))
    stim = desc.get("stimulus") or make_stimulus(desc, Rng(desc["seed"]))
    itf = dut.interface
    outs = [itf.pid, itf.address, itf.endpoint, itf.new_token, itf.ready_for_response, itf.frame, itf.new_frame,
            itf.is_in, itf.is_out, itf.is_setup, itf.is_ping]
    rows = sim.run_cycles(dut, [utmi.rx_active, utmi.rx_valid, utmi.rx_data, dut.address, dut.speed], outs, stim,
                          domain="usb")
    legal = legal_rx(stim)
    if desc["kind"] != "random-illegal" and not desc.get("stimulus") and not legal:
        raise AssertionError("stimulus generator %s left the LegalRx predicate" % desc["kind"])
    if legal:
        fails, tags = monitor(desc["filter"], stim, rows)
    else:
        fails, tags = [], {"illegal-history(model comparison only)"}
    if any(r[4] for r in rows):
        tags.add("ready_for_response")
    tags.update({"kind=" + desc["kind"], "filter=%d" % desc["filter"], "clk=%d,fs_only=%d" % (desc["clk"], desc["fs_only"])})
    return Case([desc["filter"], int(desc["clk"] == 12), desc["fs_only"]], stim, rows, fails, sorted(tags), desc,
                ["rx_active", "rx_valid", "rx_data", "address", "speed"], OUT_NAMES)
