"""C25 — gateware full-speed PHY (luna/gateware/interface/gateware_phy/{transmitter,receiver,phy}.py).

The real `GatewarePHY` is simulated with two phase-related clocks (`usb_io` = 48 MHz, `usb` = 12 MHz = every
4th usb_io edge) and a stub for the I/O record.  Rows of a case are *packets* (or glue samples), not cycles:

  kind "tx"  (Lean sub-model 1 = `encode`): input row = the bytes handed to the PHY, output row = the line symbols
             observed on D+/D- while the PHY drove the bus (one per bit time; 0 = SE0, 1 = J, 2 = K), preceded by
             their number.
  kind "rx"  (sub-model 2 = `decode`): input row = the ideal per-bit waveform put on D+/D- (resampled at 4x with a
             sampling phase and a clock offset), output row = [0, n, bytes…] as delivered on rx_data/rx_valid, or
             [1, -] when rx_error was raised.
  kind "glue" (sub-model 3): input row = op_mode, tx_valid, tx_data[0], term_select, dp/dm_pulldown (+3 unused);
             output row = d_p.o, d_n.o, oe, pullup.o, pulldown.o (d_p.o/d_n.o/oe masked in normal mode, where they
             belong to the transmitter and are checked by kind "tx").
  kind "phy" (sub-model 7 = `FsPhy.step phase`, the cycle-level transmit chain inside the op-mode switch): one row per
             usb_io (48 MHz) cycle; input row = op_mode, tx_valid, tx_data, term_select, dp/dm_pulldown; output row =
             tx_ready, d_p.o, d_n.o, oe, pullup.o, pulldown.o.  op_mode and the pull requests change at every phase of
             a transmission; the monitor judges every usb_io cycle.
"""
from harness.common.framework import Case
from harness.common.rng import Rng
from harness.common import sim

PROP = "C25"
LEAN_MODULES = ["LunaVerif.Props.C25", "LunaVerif.Lemmas.C25Tx12", "LunaVerif.Lemmas.C25TxIo", "LunaVerif.Props.C25Tx",
                "LunaVerif.Lemmas.C25RxFront", "LunaVerif.Lemmas.C25RxBack", "LunaVerif.Props.C25Rx",
                "LunaVerif.Lemmas.C25RxFifo", "LunaVerif.Lemmas.C25RxFifoStream", "LunaVerif.Lemmas.C25RxFifoSpaced",
                "LunaVerif.Lemmas.C25RxCdc", "LunaVerif.Lemmas.C25RxCdcStreams", "LunaVerif.Lemmas.C25RxCdcPacket",
                "LunaVerif.Props.C25RxUsb", "LunaVerif.Lemmas.C25RxErrSeen", "LunaVerif.Props.C25RxUsbErr",
                "LunaVerif.Props.C25Phy",
                "LunaVerif.Lemmas.C25RxDriftFront", "LunaVerif.Lemmas.C25RxDriftBack", "LunaVerif.Props.C25RxDrift",
                "LunaVerif.Lemmas.C25RxCdcDriftFifo", "LunaVerif.Lemmas.C25RxCdcDriftStreams",
                "LunaVerif.Lemmas.C25RxCdcDriftCross", "LunaVerif.Lemmas.C25RxCdcDriftPacket",
                "LunaVerif.Props.C25RxUsbDrift", "LunaVerif.Lemmas.C25RxCdcDriftErr",
                "LunaVerif.Props.C25RxUsbDriftErr"]
DRIVER = "Driver/C25.lean"
REQUIRED_THEOREMS = ["decode_encode", "no_seven_ones_on_wire", "stuff_error_detected", "never_drives_in_nondriving",
                     "pulls_follow_requests",
                     # cycle-level transmit chain (Model/Phy/FsTx.lean)
                     "tx_pipeline_emits_encode", "each_byte_accepted_once", "packet12", "io_packet", "loopIo_split",
                     "idle_stays_quiescent", "reset_quiescent", "no_ready_without_valid",
                     # cycle-level receive chain (Model/Phy/FsRx.lean)
                     "rx_pipeline_decodes_encode", "stuff_error_detected_cycle", "run_split", "front_blocks",
                     "back_blocks", "unstuff_run", "shifter_bytes", "lock", "reset_idle", "idle_holds_error",
                     # the clock-domain crossing (Model/Phy/FsRxCdc.lean)
                     "fifo_isolated_write", "fifo_idle", "fifo_block_write", "fifo_stream", "cdc_split", "evN_bits",
                     "evS_bits", "packet_streams", "combine", "rx_delivers_to_usb", "pays_spaced_any",
                     "stuff_error_seen_by_usb",
                     # the whole PHY with the operating mode changing during a transmission (Model/Phy/FsPhy.lean)
                     "phy_never_drives_in_nondriving", "phy_pulls_follow_requests", "phy_normal_is_tx",
                     "phy_other_modes_idle_tx", "phy_raw_drive",
                     # the receive chain under clock drift (cell streams of 3/4/5 samples per bit)
                     "rx_pipeline_decodes_encode_drift", "stuff_error_detected_cycle_drift", "blockD", "front_blocksD",
                     "back_vblocks", "track_of_drift", "trackable_of_drift", "lockD", "floor_cells_driftOk",
                     "rx_drift_nominal", "rx_packets_drift",
                     # the clock-domain crossing under clock drift
                     "fifo_write17", "fifo_window", "fifo_vstream", "outs_vstreams", "run_packetD_outs", "seg_append",
                     "seg_start", "seg_bytes", "seg_last", "pays_spaced7_any", "split_last", "data_tail_seg",
                     "packet_seg", "rx_delivers_to_usb_drift", "rx_packets_to_usb_drift", "err_seen_core",
                     "stuff_error_seen_by_usb_drift", "stuff_error_seen_by_usb_drift_env"]
RULE = ("tx: packets of 1..70 random / all-ones / stuffing-boundary bytes, tx_data garbage between packets, random "
        "inter-packet gaps, the producer holds each byte until tx_ready; the D+/D- waveform is compared bit by bit "
        "with the Lean `encode` and with an independent Python encoder.  txc/txp: the cycle-level Lean model of the "
        "transmit chain (`FsTx.step phase`, the function the theorems are about) against the real GatewarePHY (txc) and "
        "the bare TxPipeline (txp, also fit_dat/fit_oe) usb_io cycle by usb_io cycle, for all four phases between the "
        "usb clock and the bit-strobe counter; stimulus: handshake-obeying producer with random (also too short) gaps "
        "and idle garbage, tx_valid toggling at random usb cycles, and inputs changing in arbitrary usb_io cycles.  "
        "rx: `encode` waveforms (and waveforms with a "
        "seventh 1 inserted) resampled at 4x with sampling phase 0..3 (+fraction) and clock offsets 0, +-0.1%, "
        "+-0.25%, random idle gaps -- every third case instead as a drifting CELL STREAM drawn from the envelope of the drift "
        "theorems (the Python twin `drift_ok` of the Lean predicate `driftOk`: every bit cell 3, 4 or 5 samples, two "
        "cells of length != 4 at least 8 cells apart -- 9 for the packets with a seventh 1 --, slow / fast / 3s and 5s "
        "mixed, slips mostly as dense as allowed, from the first cell on; SKEW as in the Lean predicate `SkewOk`: at "
        "J<->K transitions the first sample of the new cell shows SE0 or SE1 -- the two lines seen switching one "
        "sample apart, either order, per transition with probability 0 / 30 / 100 % --; any number >= 20 of idle samples "
        "between packets); delivered bytes compared with the Lean `decode`.  rxc: the cycle-level Lean model "
        "of the receive chain (`FsRx.step`) against the real RxPipeline usb_io cycle by usb_io cycle on 21 signals (the "
        "ports of RxClockDataRecovery, RxNRZIDecoder, RxPacketDetect, RxBitstuffRemover, RxShifter, the write ports of "
        "both clock-domain-crossing FIFOs, o_receive_error); stimulus: nominal-rate packets (good / seventh 1) in all "
        "four sampling phases, mode 'envelope': the same packets as drifting cell streams from the envelope of the drift "
        "theorems (as for rx; same monitor as at nominal rate: events written into the clock-domain crossing = start, "
        "the bytes, end; no error on a good packet; error latched after a seventh 1; coverage tags env:len3, env:len5, "
        "env:slip-in-first-cell, -in-se0, -late-in-long-run, -in-single-cell-run, env:slips-closest, env:3-and-5-mixed, "
        "env:skew-se0, env:skew-se1, env:skew-at-lock, env:skew-in-3-sample-cell), "
        "the same with clock offsets up to +-10% and truncated / non-byte-multiple packets and "
        "gaps down to 0 bit times, single-cycle glitches incl. SE1, and random line states.  rxd: the same stimulus, the "
        "Lean model with the clock-domain crossing (`FsRxCdc.step phase`: both AsyncFIFOBuffered with Gray pointers, "
        "synchronizers, memory, output register, and o_pkt_in_progress) against the usb-domain outputs of the real "
        "RxPipeline usb_io cycle by usb_io cycle, all four usb clock phases.  glue: random op_mode / "
        "tx_valid / term_select / pull-down requests every 12 MHz cycle.  phy: the real GatewarePHY against the Lean "
        "model `FsPhy.step phase` (transmit chain inside the op-mode switch) usb_io cycle by usb_io cycle on tx_ready, "
        "d_p.o, d_n.o, oe, pullup.o, pulldown.o, all four usb clock phases, with op_mode switching between 0/1/2/3 WHILE a "
        "transmission is in flight: a handshake-obeying producer sends short packets (all-ones / stuffing-boundary / "
        "random bytes); per packet op_mode leaves normal mode at a usb_io-cycle offset that steps (stride 37) through "
        "the whole range after an anchor event -- up to 16 cycles before tx_valid rises, 0..55 after it rose (before and "
        "during SYNC), 0..39 after a non-final byte was accepted (mid-byte, stuffed bits), 0..39 after the last byte was "
        "presented, 0..87 after tx_valid fell (each of the ~11 drain bit times, each cycle of SE0 SE0 J, and after) -- "
        "followed by up to 2 further mode changes (durations 1..200 cycles) or 4..24 flips every 1..6 cycles (mode "
        "'chatter'), then back to normal; tx_valid held / dropped at the switch / dropped later (also off the usb edge); "
        "term_select and the pull-down requests toggle at random usb_io cycles throughout; mode 'async': all six inputs "
        "change at random usb_io cycles.  Monitor per usb_io cycle: op_mode = 1 => d_p.oe = d_n.oe = 0 in the SAME "
        "cycle (the switch is combinational in the code as it is: latency 0, measured, tag phy:nondriving-same-cycle), "
        "raw drive in op_mode 2, pull-up / pull-down equal their requests; coverage tags from the real TxPipeline's "
        "hidden o_oe / o_usbp / o_usbn / fit_oe and the bit stuffer's o_stall (op1-while-tx-drives, -during-se0, "
        "-during-stuffed-bit, -while-draining, -before-sync-on-wire, change-to-N-while-tx-drives ...).  phy with "
        "desc.io = pulldown / pullup / none (appended after the other cases): the I/O record lacks the optional "
        "`pullup` and/or `pulldown` member (GatewarePHY wires each up only if the record has it); same stimulus and "
        "monitor, an output that does not exist is masked, one that exists is judged against its request in every "
        "usb_io cycle (tags phy:io=<shape>, phy:pulldown-requested)")
ASSUMPTIONS = [
    "the UTMI producer keeps tx_valid and the byte stable until tx_ready and drops tx_valid after the last tx_ready "
    "(theorems: the closed loop with `Prod`; tx_data arbitrary while tx_valid is low)",
    "usb (12 MHz) is usb_io (48 MHz) divided by 4, edge aligned; the phase between the usb edge and the PHY's "
    "bit-strobe counter is constant (theorems and co-simulation cover all four phases)",
    "a packet starts with the transmit path quiescent: tx_valid low from reset to the first usb cycle boundary, and "
    "low for at least five bit times after the last data bit of the previous packet (i.e. until its EOP is out); "
    "TxPipeline only looks at tx_valid when its shifter runs empty, a shorter gap merges two packets",
    "operating-mode theorems (phy_never_drives_in_nondriving, phy_pulls_follow_requests, ...): none -- any state of the "
    "transmit chain (reachable or not), any usb clock phase, any per-usb_io-cycle history of op_mode / tx_valid / tx_data "
    "/ term_select / pull-down requests",
    "received packets are separated by at least 4 bit times of idle (J)",
    "receive theorems: NOMINAL rate, every line symbol sampled exactly four times in the usb_io domain, both lines "
    "changing in the same sample (no SE1, no glitches), any of the four sampling phases against the receiver's idle bit "
    "clock; the path starts in an idle state `idleSt c e` (bus idle for 15 cycles after reset, or 11 idle cycles after "
    "the previous packet; c = free-running bit-stuff counter 0..6, e = error latch of the previous packet, both "
    "arbitrary); rx_pipeline_decodes_encode / stuff_error_detected_cycle are about what is written into the two "
    "AsyncFIFOBuffered clock-domain crossings",
    "receive theorems under clock drift (rx_pipeline_decodes_encode_drift, stuff_error_detected_cycle_drift): the line "
    "is a stream of bit cells of 3, 4 or 5 usb_io samples each; at a J<->K transition the two lines may be seen "
    "switching one sample apart, in either order, independently per transition (the first sample of the new cell "
    "shows SE0 or SE1: `SkewOk`), elsewhere every sample of a cell shows its symbol; two cells of "
    "length != 4 at least 8 cells apart (`DriftOk`; for packets that violate bit stuffing: at least longest-run + 1 "
    "cells apart, `trackable_of_drift`); a transmitter within +-0.25 % of the nominal bit rate, transitions at "
    "floor(phi + k T), produces such streams with the slips at least 100 cells apart (floor_cells_driftOk); the packet "
    "starts after any number of idle samples from an idle state `idleSt c e` and is followed by at least 15 idle "
    "samples; about the writes into the clock-domain crossing",
    "end-to-end receive theorem rx_delivers_to_usb: in addition usb (12 MHz) is usb_io (48 MHz) divided by 4, edge aligned, "
    "any constant phase; both FIFOs empty and settled when the packet starts (any pointer position / memory contents; "
    "true 15 cycles after reset and 27 idle cycles after the previous packet); the packet has at least one byte; "
    "Amaranth 0.5.9's AsyncFIFOBuffered as modelled in Model/Phy/FsRxCdc.lean (tied to the real one by the rxd cases)",
    "end-to-end receive theorems under clock drift (rx_delivers_to_usb_drift, rx_packets_to_usb_drift; "
    "stuff_error_seen_by_usb_drift for any `trackable` cell stream, i.e. slips further apart than the longest run of the "
    "illegal packet, stuff_error_seen_by_usb_drift_env): the drift + skew "
    "envelope of rx_pipeline_decodes_encode_drift (DriftOk, SkewOk) and the environment of rx_delivers_to_usb (usb = "
    "usb_io / 4 edge aligned, any constant phase; both FIFOs empty and settled at the packet start, any pointers / "
    "memory; at least one byte; at least 4 (m + 7) + 3 idle samples, m >= 0, after the second SE0 before the next "
    "packet); the two AsyncFIFOBuffered are the same register-level model `FsRxCdc.Fifo` as in the nominal-rate "
    "theorems (abstraction = that model of Amaranth's FIFO, tied to the real one by the rxd cases)",
]
PARTIAL = ("Transmit direction fully in theorems over the cycle-level model that is co-simulated against the gateware "
           "(tx_pipeline_emits_encode, each_byte_accepted_once, for all byte lists, all four clock phases, any number of "
           "packets), as are the line code (decode_encode, no_seven_ones_on_wire, stuff_error_detected) and the op-mode / "
           "pull-up / pull-down glue -- the latter also with the operating mode and the pull requests changing in any "
           "usb_io cycle of a transmission (phy_never_drives_in_nondriving, phy_pulls_follow_requests over `FsPhy.step` = "
           "the transmit chain inside the op-mode switch, co-simulated against the real GatewarePHY by the phy cases; "
           "what a packet cut short by a mode change looks like on the wire is not specified by the property and only "
           "tied by co-simulation).  Receive direction: over the cycle-level models of the whole receive chain and of "
           "its clock-domain crossing (both co-simulated against the real RxPipeline cycle by cycle), the nominal-rate "
           "waveform of `encode bytes`, in any sampling phase and any usb clock phase, is delivered to the 12 MHz side as "
           "exactly start, the bytes in order with strobe while in-progress, end, with no error while in progress "
           "(rx_delivers_to_usb, rx_pipeline_decodes_encode), and seven consecutive 1s anywhere in a packet latch the "
           "error until the next packet start and are seen as rx_error while rx_active is high "
           "(stuff_error_detected_cycle, stuff_error_seen_by_usb).  Clock drift: the receive chain up to the writes "
           "into the clock-domain crossing is proved for every drifting cell stream -- every bit cell 3, 4 or 5 samples "
           "of the 48 MHz sampler, two cells of length != 4 at least 8 cells apart (+-0.25 % has them at least 100 "
           "apart: floor_cells_driftOk), the two lines seen switching in the same sample or one sample apart in either "
           "order at any J<->K transition (SkewOk), any sampling phase, any byte list, any number of packets: start, the bytes once "
           "and in order, end, no error (rx_pipeline_decodes_encode_drift), and a seventh 1 latches the error "
           "(stuff_error_detected_cycle_drift); exactly one strobe of the clock recovery per bit cell on a sample of "
           "that cell (front_blocksD, track_of_drift; bit stuffing = a transition at least every 7 cells).  The CLOCK-DOMAIN "
           "CROSSING under drift is proved for correctly encoded packets: for every cell stream of that envelope, every "
           "usb clock phase, any number of packets, the 12 MHz side sees start, each byte once and in order with strobe "
           "while in-progress, end, no error while in progress, and both FIFOs are empty and settled again afterwards "
           "(rx_delivers_to_usb_drift, rx_packets_to_usb_drift; each AsyncFIFOBuffered, the same register-level model as "
           "in the nominal-rate theorems, never holds more than one entry: a write is shown at the 4th usb-edge cycle "
           "after it and the FIFO is empty again 16 cycles after the write, fifo_write17, writes >= 24 cycles apart, "
           "pays_spaced7_any).  A packet with seven consecutive 1s anywhere, as any trackable cell stream, "
           "shows rx_error while rx_active is high at a usb edge, for every usb clock phase "
           "(stuff_error_seen_by_usb_drift).  So nothing of the property is left outside theorems except (a) the "
           "stated envelope and (b) the FIFO abstraction: the theorems are over `FsRxCdc.Fifo`, the register-level model "
           "of Amaranth 0.5.9's AsyncFIFOBuffered(depth=4) (Gray pointers, 2-FF synchronizers as plain flops, usb = "
           "usb_io / 4 edge aligned with a constant phase -- no metastability, no phase wander between the two clocks), "
           "tied to the real FIFO by the rxd co-simulation only.  Outside the envelope (co-simulation only): "
           "jitter beyond one sample per 8 cells, a skew between the two lines of more than one "
           "sample, glitches inside a cell; packets without any byte (SYNC directly followed by EOP) are outside "
           "rx_delivers_to_usb (start and end flags would be in flight in the flags FIFO together).")

SE0, J, K = 0, 1, 2


# ------------------------------------------------------------------------------------------------ reference codec
def py_encode(data):
    """Independent reference: list of symbols, one per bit time."""
    bits = [0, 0, 0, 0, 0, 0, 0, 1]
    ones = 1           # the 1 that ends SYNC counts [USB 2.0 7.1.9]
    for b in data:
        for i in range(8):
            bit = (b >> i) & 1
            bits.append(bit)
            if bit:
                ones += 1
                if ones == 6:
                    bits.append(0)
                    ones = 0
            else:
                ones = 0
    level = J
    out = []
    for bit in bits:
        if not bit:
            level = K if level == J else J
        out.append(level)
    return out + [SE0, SE0, J]


def py_decode(w):
    """bytes of a well-formed waveform, "violation" for a seventh 1, None otherwise (independent of py_encode)."""
    if len(w) < 11 or w[-3:] != [SE0, SE0, J] or SE0 in w[:-3]:
        return None
    prev, bits = J, []
    for s in w[:-3]:
        bits.append(1 if s == prev else 0)
        prev = s
    if bits[:8] != [0, 0, 0, 0, 0, 0, 0, 1]:
        return None
    ones, data, drop = 1, [], False
    for bit in bits[8:]:
        if drop:
            if bit:
                return "violation"
            drop, ones = False, 0
            continue
        data.append(bit)
        ones = ones + 1 if bit else 0
        if ones == 6:
            drop = True
    if len(data) % 8:
        return None
    return [sum(data[i + j] << j for j in range(8)) for i in range(0, len(data), 8)]


def nrzi_syms(bits):
    level = J
    out = []
    for bit in bits:
        if not bit:
            level = K if level == J else J
        out.append(level)
    return out


# ------------------------------------------------------------------------------------------------ DUT
class _Pin:
    def __init__(self, name, i=False, o=False, oe=False):
        from amaranth import Signal
        if i:
            self.i = Signal(name=name + "_i")
        if o:
            self.o = Signal(name=name + "_o")
        if oe:
            self.oe = Signal(name=name + "_oe")


class _IO:
    """The I/O record stub.  `pullup` / `pulldown` are optional members of the record GatewarePHY is written for
    (it asks `hasattr(io, ...)`): both are present unless switched off."""

    def __init__(self, pullup=True, pulldown=True):
        self.d_p = _Pin("d_p", i=True, o=True, oe=True)
        self.d_n = _Pin("d_n", i=True, o=True, oe=True)
        if pullup:
            self.pullup = _Pin("pullup", o=True)
        if pulldown:
            self.pulldown = _Pin("pulldown", o=True)
        self.vbus_valid = _Pin("vbus_valid", i=True)


class Bench:
    """Runs the real GatewarePHY.  `agents` are objects with pre(k, b) (set inputs for usb_io cycle k; called
    before the outputs of that cycle are read) and post(k, b) (look at the outputs of cycle k)."""

    def __init__(self):
        from luna.gateware.interface.gateware_phy.phy import GatewarePHY
        self.io = _IO()
        self.dut = GatewarePHY(io=self.io)

    def run(self, ncycles, agents):
        from amaranth.sim import Simulator
        io, dut = self.io, self.dut
        top = sim._Wrap(dut, ["usb_io", "usb"])
        s = Simulator(top)
        P = 1e-6
        s.add_clock(P, domain="usb_io")
        s.add_clock(4 * P, phase=P / 2, domain="usb")
        bench = self

        async def tb(ctx):
            bench.ctx = ctx
            ctx.set(io.d_p.i, 1)
            ctx.set(io.d_n.i, 0)
            ctx.set(io.vbus_valid.i, 1)
            for k in range(ncycles):
                bench.k = k
                bench.usb_edge_next = (k % 4 == 0)     # the tick that ends this cycle is also a usb edge
                bench.usb_cycle_start = (k % 4 == 1) or k == 0
                for a in agents:
                    a.pre(k, bench)
                for a in agents:
                    a.post(k, bench)
                await ctx.tick("usb_io")

        s.add_testbench(tb)
        s.run()

    def get(self, sig):
        return self.ctx.get(sig)

    def set(self, sig, v):
        self.ctx.set(sig, v)


class LineRecorder:
    """Records the driven symbols: for every maximal interval with oe = 1, the per-cycle (d_p.o, d_n.o)."""

    def __init__(self):
        self.bursts = []       # [start_cycle, [sym per usb_io cycle]]
        self.cur = None
        self.oe_mismatch = None

    def pre(self, k, b):
        pass

    def post(self, k, b):
        io = b.io
        oe = b.get(io.d_p.oe)
        if oe != b.get(io.d_n.oe) and self.oe_mismatch is None:
            self.oe_mismatch = k
        if oe:
            p, n = b.get(io.d_p.o), b.get(io.d_n.o)
            sym = {(1, 0): J, (0, 1): K, (0, 0): SE0, (1, 1): 3}[(p, n)]
            if self.cur is None:
                self.cur = [k, []]
                self.bursts.append(self.cur)
            self.cur[1].append(sym)
        else:
            self.cur = None


class TxProducer:
    """UTMI transmit side: a list of (gap_usb_cycles, bytes, garbage) jobs."""

    def __init__(self, jobs, rng):
        self.jobs = list(jobs)
        self.rng = rng
        self.state = "gap"
        self.left = self.jobs[0][0] if self.jobs else 0
        self.idx = 0
        self.pos = 0
        self.accepted = []         # per job: list of bytes that were on tx_data when tx_ready was seen
        self.ready_while_idle = None
        self.done = not self.jobs
        self.pending = None
        self.finish_cycle = None

    def pre(self, k, b):
        if not b.usb_cycle_start:
            return
        d = b.dut
        if self.pending is not None:
            valid, data = self.pending
            b.set(d.tx_valid, valid)
            b.set(d.tx_data, data)
            self.pending = None
        if self.done:
            return
        if self.state == "gap":
            if self.left > 0:
                self.left -= 1
                if self.jobs[self.idx][2]:
                    b.set(d.tx_data, self.rng.below(256))
                return
            self.state = "send"
            self.pos = 0
            self.accepted.append([])
            b.set(d.tx_valid, 1)
            b.set(d.tx_data, self.jobs[self.idx][1][0])

    def post(self, k, b):
        if not b.usb_edge_next:
            return
        d = b.dut
        rdy = b.get(d.tx_ready)
        if self.state != "send":
            if rdy and self.ready_while_idle is None and b.get(d.op_mode) == 0:
                self.ready_while_idle = k
            return
        if rdy:
            data = self.jobs[self.idx][1]
            self.accepted[-1].append(b.get(d.tx_data))
            self.pos += 1
            if self.pos < len(data):
                self.pending = (1, data[self.pos])
            else:
                self.pending = (0, self.rng.below(256) if self.jobs[self.idx][2] else 0)
                self.idx += 1
                if self.idx >= len(self.jobs):
                    self.done = True
                    self.finish_cycle = k
                    self.state = "idle"
                else:
                    self.state = "gap"
                    self.left = self.jobs[self.idx][0]


class LineDriver:
    """Drives D+/D- inputs from a per-usb_io-cycle list of symbols (J when exhausted)."""

    def __init__(self, samples):
        self.samples = samples

    def pre(self, k, b):
        s = self.samples[k] if k < len(self.samples) else J
        b.set(b.io.d_p.i, 1 if s in (J, 3) else 0)      # 3 = SE1
        b.set(b.io.d_n.i, 1 if s in (K, 3) else 0)

    def post(self, k, b):
        pass


class RxRecorder:
    def __init__(self):
        self.events = []    # per usb cycle: (k, active, valid, data, error, complete)
        self.prev = None

    def pre(self, k, b):
        pass

    def post(self, k, b):
        if not b.usb_edge_next:
            return
        d = b.dut
        t = (b.get(d.rx_active), b.get(d.rx_valid), b.get(d.rx_data), b.get(d.rx_error), b.get(d.rx_complete))
        # rx_error / rx_complete are only meaningful together with receive-active framing
        if t[0] or t[1] or (self.prev and self.prev[0]):
            self.events.append((k,) + t)
        self.prev = t


class GlueAgent:
    def __init__(self, rows):
        self.rows = rows
        self.i = 0
        self.obs = []
        self.cur = None

    def pre(self, k, b):
        if not b.usb_cycle_start or self.i >= len(self.rows):
            return
        r = self.rows[self.i]
        self.i += 1
        d = b.dut
        b.set(d.op_mode, r[0]); b.set(d.tx_valid, r[1]); b.set(d.tx_data, r[2]); b.set(d.term_select, r[3])
        b.set(d.dp_pulldown, r[4]); b.set(d.dm_pulldown, r[5])
        self.cur = r

    def post(self, k, b):
        if self.cur is None or not b.usb_edge_next:
            return
        io = b.io
        self.obs.append((k, list(self.cur), [b.get(io.d_p.o), b.get(io.d_n.o), b.get(io.d_p.oe), b.get(io.pullup.o),
                                              b.get(io.pulldown.o)], b.get(io.d_n.oe)))


# ------------------------------------------------------------------------------------------------ stimulus
def gen_bytes(rng, maxlen):
    kind = rng.weighted([(5, "rand"), (3, "ones"), (3, "edge"), (2, "pid"), (1, "zeros")])
    n = rng.weighted([(3, rng.range(1, 4)), (4, rng.range(1, 12)), (2, rng.range(1, maxlen))])
    if kind == "rand":
        return rng.bytes(n)
    if kind == "ones":
        return [0xFF] * n
    if kind == "zeros":
        return [0] * n
    if kind == "pid":
        pid = rng.below(16)
        return [((~pid & 0xF) << 4) | pid] + rng.bytes(n - 1)
    # runs of 1s of length 5, 6, 7 across byte boundaries
    out = []
    for _ in range(n):
        out.append(rng.choice([0x3F, 0x7E, 0xFC, 0xF8, 0x1F, 0xFF, 0x7F, 0xFE, 0xE0, 0x07, 0xC0, 0x03, 0x80, 0x01]))
    return out


def gen_cases(tier, rng):
    if tier == "quick":
        n = {"tx": 14, "rx": 18, "glue": 3}
    elif tier == "widen":
        n = {"tx": 60, "rx": 80, "glue": 10}
    else:
        n = {"tx": 300, "rx": 400, "glue": 30}
    out = []
    for kind, cnt in n.items():
        for k in range(cnt):
            out.append({"kind": kind, "seed": rng.u64(), "k": k, "big": int(tier == "thorough" and k % 10 == 0)})
    # cycle-level transmit model: GatewarePHY ("txc") and the bare TxPipeline ("txp"), all four clock phases
    nc = {"quick": 12, "widen": 40}.get(tier, 160)
    for k in range(nc):
        out.append({"kind": "txc" if k % 3 else "txp", "seed": rng.u64(), "k": k, "phase": k % 4,
                    "mode": ["packets", "packets", "random", "packets", "async"][k % 5],
                    "cycles": 1200 if tier != "thorough" else 3000, "big": int(tier == "thorough" and k % 8 == 0)})
    # cycle-level receive model: the bare RxPipeline, usb_io cycle by usb_io cycle
    nr = {"quick": 12, "widen": 40}.get(tier, 160)
    for k in range(nr):
        out.append({"kind": "rxc", "seed": rng.u64(), "k": k,
                    "mode": ["nominal", "drift", "envelope", "noise", "nominal", "random"][k % 6],
                    "big": int(tier == "thorough" and k % 8 == 0)})
    # the same with the clock-domain crossing: usb-domain outputs of RxPipeline, all four usb clock phases
    nd = {"quick": 8, "widen": 24}.get(tier, 120)
    for k in range(nd):
        out.append({"kind": "rxd", "seed": rng.u64(), "k": k, "phase": k % 4,
                    "mode": ["nominal", "drift", "nominal", "noise", "random", "nominal", "envelope", "drift"][k % 8],
                    "big": int(tier == "thorough" and k % 8 == 0)})
    # the whole PHY with op_mode / pull requests changing at every phase of a transmission, all four usb clock phases
    np_ = {"quick": 16, "widen": 48}.get(tier, 240)
    for k in range(np_):
        out.append({"kind": "phy", "seed": rng.u64(), "k": k, "phase": k % 4, "mode": _PHY_MODES[k % len(_PHY_MODES)],
                    "cycles": 2400 if tier != "thorough" else 4000, "big": int(tier == "thorough" and k % 8 == 0)})
    # the other shapes of the I/O record: the optional members `pullup` / `pulldown` missing (one, the other, both);
    # appended after the older cases so that their seeds do not move
    ns = {"quick": 6, "widen": 12}.get(tier, 36)
    for k in range(ns):
        out.append({"kind": "phy", "seed": rng.u64(), "k": k, "phase": k % 4, "mode": _PHY_MODES[k % len(_PHY_MODES)],
                    "cycles": 1200, "big": 0, "io": _IO_SHAPES[k % len(_IO_SHAPES)]})
    return out


def resample(syms, phase, ppm):
    """4x oversampling of an ideal per-bit waveform by a sampler whose clock is `ppm` off; `phase` in [0,4)."""
    period = 4.0 * (1.0 + ppm * 1e-6)
    n = int(len(syms) * period + phase) + 1
    out = []
    for c in range(n):
        x = (c - phase) / period
        if x < 0:
            out.append(J)
        else:
            i = int(x)
            out.append(syms[i] if i < len(syms) else J)
    return out


def drift_ok(lens, M):
    """The drift envelope of the receive theorems, as in Lean (`driftOk M M lens`, Lemmas/C25RxDriftFront.lean): every
    bit cell has 3, 4 or 5 samples and two cells of length != 4 are at least M cells apart."""
    g = M
    for n in lens:
        if n == 4:
            g += 1
        elif n in (3, 5) and g + 1 >= M:
            g = 0
        else:
            return False
    return True


def envelope_lens(rng, n, M):
    """cell lengths (48 MHz samples per bit cell) inside the envelope `drift_ok(., M)`: a slow / fast transmitter (all
    slips 5 resp. 3), or 3s and 5s mixed; slips mostly as close together as the envelope allows, sometimes 100 apart
    (+-0.25 %); the first slip anywhere from the very first cell (the K the receiver locks on) on"""
    style = rng.weighted([(3, "slow"), (3, "fast"), (3, "mixed"), (1, "nominal")])
    lens = [4] * n
    if style != "nominal":
        i = rng.below(M + 2)
        while i < n:
            lens[i] = 5 if style == "slow" else 3 if style == "fast" else rng.choice([3, 5])
            i += rng.weighted([(5, M), (2, M + rng.below(5)), (1, 100)])
    assert drift_ok(lens, M), lens
    return lens


def envelope_samples(rng, waves, viol):
    """per-sample symbols for the packets `waves` (symbols per bit, each ending in the J of the EOP) as drifting cell
    streams from the envelope of the theorems (rx_pipeline_decodes_encode_drift: M = 8 for correctly stuffed packets, a
    line transition at least every 7 cells; stuff_error_detected_cycle_drift / trackable_of_drift: M = longest run + 1 =
    9 for the packets of bad_stuff_wave); any number of idle samples >= 20 (= EOP J + 4 bit times) between packets, so
    every sampling phase occurs"""
    out = [J] * rng.range(16, 48)
    tags = set()
    for w, v in zip(waves, viol):
        M = 9 if v else 8
        lens = envelope_lens(rng, len(w) - 1, M)
        # skew (Lean `SkewOk`): at J<->K transitions the first sample of the new cell may show SE0 (the falling line was
        # seen first) or SE1 (the rising line first), independently at every transition
        skew = rng.weighted([(3, 0), (2, 30), (1, 100)])
        last = None
        prev = J
        for i, (sym, n) in enumerate(zip(w[:-1], lens)):
            first = sym
            if skew and {prev, sym} == {J, K} and rng.chance(skew):
                first = rng.choice([SE0, 3])
                tags.add("env:skew-se%d" % (0 if first == SE0 else 1))
                if n == 3:
                    tags.add("env:skew-in-3-sample-cell")
                if i == 0:
                    tags.add("env:skew-at-lock")
            out += [first] + [sym] * (n - 1)
            prev = sym
            if n != 4:
                tags.add("env:len%d" % n)
                if i == 0:
                    tags.add("env:slip-in-first-cell")
                if sym == SE0:
                    tags.add("env:slip-in-se0")
                if i >= 5 and all(x == sym for x in w[i - 5:i]):
                    tags.add("env:slip-late-in-long-run")
                if i + 1 < len(w) and w[i - 1] != sym and w[i + 1] != sym:
                    tags.add("env:slip-in-single-cell-run")
                if last is not None and i - last == M:
                    tags.add("env:slips-closest")
                if last is not None and lens[last] != n:
                    tags.add("env:3-and-5-mixed")
                last = i
        out += [J] * rng.range(20, 120)
    return out + [J] * 24, tags


# ------------------------------------------------------------------------------------------------ cases
def run_tx(desc):
    rng = Rng(desc["seed"])
    if desc.get("stimulus"):
        packets = [list(r) for r in desc["stimulus"]]
    else:
        prng = rng.fork("packets")
        packets = [gen_bytes(prng, 70 if desc.get("big") else 24) for _ in range(prng.range(2, 5))]
    rng = rng.fork("timing")
    garbage = rng.chance(50)
    jobs = [(rng.range(22, 60), p, garbage) for p in packets]
    b = Bench()
    prod = TxProducer(jobs, rng.fork("prod"))
    rec = LineRecorder()
    rxr = RxRecorder()
    total = sum(4 * (g + 8 + 9 * len(p) + 12) for g, p, _ in jobs) + 200
    b.run(total, [prod, rec, rxr])
    fails = []

    def fail(t, sig, what):
        fails.append({"cycle": int(t), "sig": sig, "what": what})

    outputs = []
    tags = {"tx"}
    if rec.oe_mismatch is not None:
        fail(rec.oe_mismatch, "oe-differ", "d_p.oe != d_n.oe at usb_io cycle %d" % rec.oe_mismatch)
    if prod.ready_while_idle is not None:
        fail(prod.ready_while_idle, "ready-while-idle", "tx_ready asserted while tx_valid is low (usb_io cycle %d)" % prod.ready_while_idle)
    if not prod.done:
        fail(0, "tx-not-finished", "the PHY did not accept all bytes (%d of %d packets done)" % (prod.idx, len(jobs)))
    if len(rec.bursts) != len(packets):
        fail(0, "burst-count", "%d driven intervals for %d packets" % (len(rec.bursts), len(packets)))
    for i, p in enumerate(packets):
        want = py_encode(p)
        obs = None
        if i < len(rec.bursts):
            start, cyc = rec.bursts[i]
            if len(cyc) % 4:
                fail(start, "burst-not-multiple-of-bit", "driven interval of %d usb_io cycles" % len(cyc))
            obs = []
            for j in range(0, len(cyc) - len(cyc) % 4, 4):
                q = cyc[j:j + 4]
                if len(set(q)) != 1:
                    fail(start + j, "glitch-in-bit", "line changes inside a bit time: %s" % q)
                obs.append(q[0])
            if obs != want:
                pos = next((x for x in range(min(len(obs), len(want))) if obs[x] != want[x]), min(len(obs), len(want)))
                fail(start + 4 * pos, "tx-waveform", "packet %s: D+/D- differs from the encoding at bit time %d "
                     "(got %s, want %s; lengths %d/%d)" % (p, pos, obs[pos:pos + 6], want[pos:pos + 6], len(obs), len(want)))
        if i < len(prod.accepted) and prod.accepted[i] != p and prod.done:
            fail(0, "byte-accept", "bytes accepted by tx_ready %s != bytes offered %s" % (prod.accepted[i], p))
        outputs.append(([len(obs)] + obs) if obs is not None else [None])
        if any(x == 0xFF for x in p):
            tags.add("tx:ff")
        if len(want) > 8 + 8 * len(p) + 3:
            tags.add("tx:stuffed")
        if p and (p[-1] & 0xFC) == 0xFC:
            tags.add("tx:stuff-after-last-bit?")
    if rxr.events:
        fail(rxr.events[0][0], "rx-while-tx", "receiver reported activity while transmitting: %s" % (rxr.events[0],))
    return Case([1], packets, outputs, fails[:5], sorted(tags), desc, ["bytes…"], ["n", "symbols…"])


def run_rx(desc):
    rng0 = Rng(desc["seed"])
    rng = rng0.fork("packets")
    if desc.get("stimulus"):
        waves = [list(r) for r in desc["stimulus"]]
    else:
        waves, metas = [], []
        for _ in range(rng.range(2, 4)):
            p = gen_bytes(rng, 70 if desc.get("big") else 20)
            if rng.chance(20):
                # insert a seventh 1 somewhere in the stuffed stream: sync + data bits with 7 ones, never stuffed
                pre = rng.bytes(rng.range(0, 3))
                bits = [0] * 7 + [1]
                ones = 0
                for byte in pre:
                    for i in range(8):
                        bit = (byte >> i) & 1
                        bits.append(bit)
                        ones = ones + 1 if bit else 0
                        if ones == 6:
                            bits.append(0)
                            ones = 0
                bits += [0] + [1] * 7 + [0] * 8
                while (len(bits) - 8) % 8:
                    bits.append(0)
                waves.append(nrzi_syms(bits) + [SE0, SE0, J])
                metas.append("violation")
            else:
                waves.append(py_encode(p))
                metas.append(p)
    metas = [py_decode(w) for w in waves]
    rng = rng0.fork("timing")
    phase = rng.below(4) + rng.below(100) / 100.0
    ppm = rng.choice([0, 0, 1000, -1000, 2500, -2500])
    ideal = [J] * rng.range(4, 12)
    marks = []
    for w in waves:
        marks.append(len(ideal))
        ideal += w + [J] * rng.range(4, 40)
    samples = resample(ideal, phase, ppm)
    envelope = desc.get("k", 0) % 3 == 2
    if envelope:
        # every third case: drifting cell streams from the envelope of the receive theorems instead of a constant offset
        samples, envtags = envelope_samples(rng0.fork("envelope"), waves, [m == "violation" for m in metas])
    b = Bench()
    rxr = RxRecorder()
    rec = LineRecorder()
    b.run(len(samples) + 80, [LineDriver(samples), rxr, rec])
    fails = []

    def fail(t, sig, what):
        fails.append({"cycle": int(t), "sig": sig, "what": what})

    if rec.bursts:
        fail(rec.bursts[0][0], "drives-while-receiving", "the PHY drove D+/D- while only receiving")
    # split the events into packets by rx_active
    pk = []
    cur = None
    for (k, act, val, data, err, comp) in rxr.events:
        if act and cur is None:
            cur = {"start": k, "bytes": [], "err": False, "end": None}
            pk.append(cur)
        if val:
            if cur is None:
                fail(k, "rx-valid-outside-active", "rx_valid without rx_active at usb_io cycle %d" % k)
            else:
                cur["bytes"].append(data)
        if err and cur is not None:
            cur["err"] = True
        if not act and cur is not None:
            cur["end"] = k
            cur = None
    outputs = []
    tags = ({"rx", "rx:envelope"} | envtags) if envelope else {"rx", "ppm=%d" % ppm, "phase=%d" % int(phase)}
    if len(pk) != len(waves):
        fail(0, "rx-packet-count", "%d receive-active intervals for %d packets on the line" % (len(pk), len(waves)))
    for i, w in enumerate(waves):
        got = pk[i] if i < len(pk) else None
        m = metas[i]
        if got is None:
            outputs.append([None])
            continue
        if got["err"]:
            outputs.append([1, None])
        else:
            outputs.append([0, len(got["bytes"])] + got["bytes"])
        if m == "violation":
            tags.add("rx:violation")
            if not got["err"]:
                fail(got["start"], "stuff-error-not-reported", "a seventh consecutive 1 was not reported on rx_error")
        elif m is not None:
            if got["err"]:
                fail(got["start"], "rx-error-on-good-packet", "rx_error for a correctly encoded packet %s" % m)
            elif got["bytes"] != m:
                fail(got["start"], "rx-bytes", "delivered %s for packet %s (phase %.2f, %d ppm)" % (got["bytes"], m, phase, ppm))
            if len(w) > 8 + 8 * len(m) + 3:
                tags.add("rx:stuffed")
    return Case([2], waves, outputs, fails[:5], sorted(tags), desc, ["symbols…"], ["kind", "n", "bytes…"])


def run_glue(desc):
    rng = Rng(desc["seed"])
    if desc.get("stimulus"):
        rows = [list(r) for r in desc["stimulus"]]
    else:
        rows = []
        op = 1
        for _ in range(300):
            if rng.chance(30):
                op = rng.choice([1, 2, 3, 1, 2, 0])
            # in normal mode keep the transmitter idle (tx_valid = 0): its outputs are checked by the tx cases
            rows.append([op, rng.below(2) if op != 0 else 0, rng.below(256), rng.below(2), rng.below(2), rng.below(2), 0, 0, 0])
    b = Bench()
    ag = GlueAgent(rows)
    b.run(4 * len(rows) + 8, [ag])
    fails = []
    outputs = []
    inputs = []
    tags = {"glue"}
    since_normal_tx = 0
    for (k, r, o, dn_oe) in ag.obs:
        op, txv, txd, term, dpd, dmd = r[:6]
        tags.add("op=%d" % op)
        if o[2] != dn_oe:
            fails.append({"cycle": k, "sig": "oe-differ", "what": "d_p.oe != d_n.oe"})
        if op == 1 and (o[2] or dn_oe):
            fails.append({"cycle": k, "sig": "drives-in-nondriving", "what":
                          "op_mode = 1 (UTMI non-driving) but D+/D- are driven (tx_valid=%d)" % txv})
        if op == 2 and txv and not (o[2] and o[0] == (txd & 1) and o[1] == 1 - (txd & 1)):
            fails.append({"cycle": k, "sig": "raw-drive", "what":
                          "op_mode = 2 (no bit-stuffing/NRZI) with tx_valid: expected raw drive of tx_data[0]=%d, got "
                          "d_p.o=%d d_n.o=%d oe=%d" % (txd & 1, o[0], o[1], o[2])})
        if o[3] != term:
            fails.append({"cycle": k, "sig": "pullup", "what": "pullup.o=%d but term_select=%d (dp/dm_pulldown=%d/%d)"
                          % (o[3], term, dpd, dmd)})
        if o[4] != (dpd | dmd):
            fails.append({"cycle": k, "sig": "pulldown", "what": "pulldown.o=%d but dp_pulldown|dm_pulldown=%d" % (o[4], dpd | dmd)})
        inputs.append([op, txv, txd & 1, term, dpd, dmd, 0, 0, 0])
        if op == 0:
            outputs.append([None, None, None, o[3], o[4]])
        elif op == 2 and not txv:
            outputs.append([None, None, o[2], o[3], o[4]])     # data lines are don't-care while not driven
        elif op in (1, 3):
            outputs.append([None, None, o[2], o[3], o[4]])
        else:
            outputs.append(o)
    d = dict(desc)
    d.setdefault("stimulus", rows)
    return Case([3], inputs, outputs, fails[:5], sorted(tags), desc,
                ["op_mode", "tx_valid", "tx_data0", "term_select", "dp_pulldown", "dm_pulldown", "-", "-", "-"],
                ["d_p.o", "d_n.o", "oe", "pullup.o", "pulldown.o"])


# ------------------------------------------------------------------------------------------------ cycle-level tx
class _TxStim:
    """Per-usb_io-cycle stimulus for the cycle-level transmit model (Lean sub-model 4 = `FsTx.step phase`).

    mode "packets": a UTMI producer obeying the handshake (holds tx_valid and the byte until tx_ready, drops
                    tx_valid after the last tx_ready), random gaps (sometimes shorter than the documented
                    minimum: the model follows the code there too), tx_data garbage while idle;
    mode "random":  tx_valid toggling at random usb cycles with random data;
    mode "async":   as "random" but the inputs may change in any usb_io cycle."""

    def __init__(self, rng, mode, phase, big):
        self.rng, self.mode, self.phase = rng, mode, phase
        self.valid, self.data = 0, 0
        self.queue = []
        self.gap = rng.range(0, 12)
        self.garbage = rng.chance(60)
        self.big = big
        self.npackets = 0
        self.p_toggle = rng.choice([3, 10, 30])
        self.stuff_last = False

    def usb_cycle_start(self, k):
        # the usb edge ends the cycles with k % 4 == phase; the producer's outputs change right after it
        return k == 0 or (k - 1) % 4 == self.phase

    def row(self, k):
        rng = self.rng
        if self.mode == "packets":
            if self.usb_cycle_start(k) and not self.valid:
                if self.gap > 0:
                    self.gap -= 1
                    if self.garbage:
                        self.data = rng.below(256)
                else:
                    self.queue = gen_bytes(rng, 40 if self.big else 10)
                    if rng.chance(25):
                        self.queue[-1] = 0xFC          # the packet's last bit is the sixth 1: STUFF_LAST_BIT
                        self.stuff_last = True
                    self.npackets += 1
                    self.valid, self.data = 1, self.queue[0]
        elif self.mode == "random" and self.usb_cycle_start(k) or self.mode == "async":
            if rng.chance(self.p_toggle if self.mode == "random" else max(1, self.p_toggle // 3)):
                self.valid ^= 1
            if rng.chance(40):
                self.data = rng.choice([0xFF, 0x7F, 0xFE, 0xFC, 0x3F, 0x00, rng.below(256), rng.below(256)])
        return [self.valid, self.data]

    def feedback(self, k, ready):
        """called with the tx_ready observed in usb_io cycle k (before its tick)"""
        if self.mode != "packets" or k % 4 != self.phase or not (ready and self.valid):
            return
        self.queue.pop(0)
        if self.queue:
            self.nxt = (1, self.queue[0])
        else:
            self.nxt = (0, self.rng.below(256) if self.garbage else 0)
            self.gap = self.rng.weighted([(6, self.rng.range(16, 40)), (2, self.rng.range(0, 16))])

    def apply_pending(self):
        if getattr(self, "nxt", None) is not None:
            self.valid, self.data = self.nxt
            self.nxt = None


def run_txcycle(desc):
    """kind "txc": the real GatewarePHY (normal op-mode), kind "txp": the real TxPipeline on its own with the
    bit strobe generated as GatewarePHY does (every 4th usb_io cycle) -- compared usb_io cycle by usb_io cycle with
    the Lean model `FsTx.step phase` (tx_ready, D+, D-, oe; for "txp" also fit_dat / fit_oe)."""
    from amaranth.sim import Simulator
    rng = Rng(desc["seed"])
    phase = desc.get("phase", 0)
    mode = desc.get("mode", "packets")
    whole = desc["kind"] == "txc"
    n = desc.get("cycles", 1600)
    rows = [list(r) for r in desc["stimulus"]] if desc.get("stimulus") else None
    stim = _TxStim(rng.fork("stim"), mode, phase, desc.get("big", 0))
    if whole:
        from luna.gateware.interface.gateware_phy.phy import GatewarePHY
        io = _IO()
        dut = GatewarePHY(io=io)
        ins = [dut.tx_valid, dut.tx_data]
        outs = [dut.tx_ready, io.d_p.o, io.d_n.o, io.d_p.oe]
    else:
        from luna.gateware.interface.gateware_phy.transmitter import TxPipeline
        dut = TxPipeline()
        ins = [dut.i_oe, dut.i_data_payload]
        outs = [dut.o_data_strobe, dut.o_usbp, dut.o_usbn, dut.o_oe, dut.fit_dat, dut.fit_oe]
    top = sim._Wrap(dut, ["usb_io", "usb"])
    s = Simulator(top)
    P = 1e-6
    s.add_clock(P, domain="usb_io")
    s.add_clock(4 * P, phase=P / 2 + phase * P, domain="usb")
    inputs, outputs = [], []
    fails = []

    async def tb(ctx):
        if whole:
            ctx.set(io.d_p.i, 1)
            ctx.set(io.d_n.i, 0)
            ctx.set(io.vbus_valid.i, 1)
        k = 0
        while k < (len(rows) if rows is not None else n):
            if rows is not None:
                r = rows[k]
            else:
                if stim.usb_cycle_start(k):
                    stim.apply_pending()
                r = stim.row(k)
            ctx.set(ins[0], r[0])
            ctx.set(ins[1], r[1])
            if not whole:
                ctx.set(dut.i_bit_strobe, int(k % 4 == 0))
            o = [ctx.get(x) for x in outs]
            if whole and o[3] != ctx.get(io.d_n.oe):
                fails.append({"cycle": k, "sig": "oe-differ", "what": "d_p.oe != d_n.oe at usb_io cycle %d" % k})
            if rows is None:
                stim.feedback(k, o[0])
            inputs.append(list(r))
            outputs.append(o + ([None, None] if whole else []))
            await ctx.tick("usb_io")
            k += 1

    s.add_testbench(tb)
    s.run()
    tags = {desc["kind"], "%s:phase=%d" % (desc["kind"], phase), "%s:%s" % (desc["kind"], mode)}
    if any(o[0] for o in outputs):
        tags.add("txc:ready")
    if any(o[3] and not o[1] and not o[2] for o in outputs):
        tags.add("txc:se0")
    if stim.npackets > 1:
        tags.add("txc:several-packets")
    if stim.stuff_last:
        tags.add("txc:stuff-last-bit")
    d = dict(desc)
    return Case([4, phase], inputs, outputs, fails[:5], sorted(tags), d, ["tx_valid", "tx_data"],
                ["tx_ready", "d_p.o", "d_n.o", "oe", "fit_dat", "fit_oe"])


# ------------------------------------------------------------------------------------------------ whole PHY, op-mode changes
_PHY_MODES = ["directed", "directed", "chatter", "directed", "async"]
# which optional members the I/O record has ("both" = the shape of all other cases)
_IO_SHAPES = ["pulldown", "pullup", "none"]


class _PhyStim:
    """Per-usb_io-cycle stimulus for the whole GatewarePHY with the operating mode changing WHILE it transmits
    (Lean sub-model 7 = `FsPhy.step phase`).  Row = [op_mode, tx_valid, tx_data, term_select, dp_pulldown, dm_pulldown].

    mode "directed": a UTMI producer obeying the handshake sends short packets (many with stuffed bits); for every
                     packet a plan says where op_mode leaves normal mode, anchored at an event of the transmission and
                     offset by a number of usb_io cycles that steps through its whole range (stride 37, coprime to the
                     range, so consecutive packets / cases visit every offset):
                       "gap"   0..15 cycles before tx_valid rises (tx_valid raised while not in normal mode)
                       "rise"  0..55 cycles after tx_valid rose (pipeline latency, SYNC on the wire, first data bits)
                       "mid"   0..39 cycles after a byte other than the last was accepted (mid-byte, stuffed bits)
                       "last"  0..39 cycles after the last byte was put on tx_data (in the last byte)
                       "fall"  0..87 cycles after tx_valid fell (the ~11 bit times in which last byte, stuffed bits and
                               EOP drain, every usb_io cycle of the SE0 SE0 J, and just after)
                     then a chain of 1..3 further mode changes (to 1, 2, 3 or back to 0, each after 1..200 cycles),
                     ending in normal mode; tx_valid is held by the producer (it only sees tx_ready = 0), dropped at the
                     switch, or dropped some cycles into the foreign mode;
    mode "chatter":  as "directed" but op_mode flips between two modes every 1..6 cycles for a while (back and forth);
    mode "async":    all six inputs change at random usb_io cycles.
    The pull-up / pull-down requests change at random cycles in every mode (also mid-packet)."""

    RANGES = {"gap": 16, "rise": 56, "mid": 40, "last": 40, "fall": 88}

    def __init__(self, rng, mode, phase, big):
        self.rng, self.mode, self.phase, self.big = rng, mode, phase, big
        self.op, self.valid, self.data = 0, 0, 0
        self.term, self.dpd, self.dmd = rng.below(2), rng.below(2), rng.below(2)
        self.p_pull = rng.choice([1, 4, 12])
        self.queue, self.npk = [], 0
        self.gap = rng.range(1, 10)
        self.garbage = rng.chance(60)
        self.nxt = None
        self.sched = []            # [(cycle, op_mode)] pending mode changes, ascending
        self.drop_at = None        # cycle from which tx_valid is forced low (the SIE abandons the packet)
        self.ctr = {a: rng.below(1000) for a in self.RANGES}
        self.plan = None
        self.nbytes = 0
        self.acc = 0
        self.tags = set()
        self.p_toggle = rng.choice([2, 5, 12])
        self.adrop = False

    def usb_cycle_start(self, k):
        return k == 0 or (k - 1) % 4 == self.phase

    # -- planning
    def _offset(self, anchor):
        r = self.RANGES[anchor]
        self.ctr[anchor] += 1
        return (self.ctr[anchor] * 37) % r

    def _dur(self):
        rng = self.rng
        return rng.weighted([(2, 1), (4, rng.range(2, 8)), (4, rng.range(9, 48)), (3, rng.range(49, 200))])

    def _make_plan(self, n):
        rng = self.rng
        anchor = rng.weighted([(1, "gap"), (2, "rise"), (3, "mid"), (2, "last"), (5, "fall"), (1, "none")])
        if anchor == "mid" and n < 2:
            anchor = "fall"
        j = rng.below(n - 1) if anchor == "mid" else None
        first = rng.weighted([(5, 1), (2, 2), (2, 3)])
        seq = [(first, self._dur())]
        if self.mode == "chatter":
            other = rng.choice([m for m in (0, 1, 2, 3) if m != first])
            for i in range(rng.range(4, 24)):
                seq.append((other if i % 2 == 0 else first, rng.range(1, 6)))
        else:
            for _ in range(rng.weighted([(5, 0), (3, 1), (2, 2)])):
                nm = rng.choice([m for m in (0, 1, 2, 3) if m != seq[-1][0]])
                seq.append((nm, self._dur()))
        txv = rng.weighted([(5, "hold"), (3, "drop"), (2, "droplater")])
        return {"anchor": anchor, "j": j, "off": self._offset(anchor) if anchor != "none" else 0, "seq": seq, "txv": txv}

    def _fire(self, k, anchor, j=None):
        """the anchor event of the current plan happens in usb_io cycle k"""
        pl = self.plan
        if pl is None or pl["anchor"] != anchor or (anchor == "mid" and pl["j"] != j) or pl.get("fired"):
            return
        pl["fired"] = True
        t = k + pl["off"]
        for m, d in pl["seq"]:
            self.sched.append((t, m))
            t += d
        self.sched.append((t, 0))
        self.adrop = self.rng.chance(30)     # tx_valid falls in any usb_io cycle, not only after a usb edge
        if pl["txv"] == "drop":
            self.drop_at = k + pl["off"]
        elif pl["txv"] == "droplater":
            self.drop_at = k + pl["off"] + self.rng.range(1, 60)
        self.tags.add("phy:plan:" + anchor)
        self.tags.add("phy:plan:to=%d" % pl["seq"][0][0])
        self.tags.add("phy:plan:" + pl["txv"])

    # -- per cycle
    def row(self, k):
        rng = self.rng
        if self.mode == "async":
            if rng.chance(self.p_toggle):
                self.valid ^= 1
            if rng.chance(20):
                self.data = rng.choice([0xFF, 0x7F, 0xFE, 0xFC, 0x00, rng.below(256), rng.below(256)])
            if rng.chance(2):
                self.op = rng.choice([0, 0, 0, 1, 1, 2, 3])
        else:
            while self.sched and self.sched[0][0] <= k:
                self.op = self.sched.pop(0)[1]
            if self.drop_at is not None and k >= self.drop_at and (self.adrop or self.usb_cycle_start(k)):
                if self.valid:
                    # the SIE abandons the packet
                    self.valid, self.queue, self.nxt, self.plan = 0, [], None, None
                    self.gap = rng.range(12, 40)
                    self.tags.add("phy:tx_valid-dropped-by-plan")
                self.drop_at = None
            if self.usb_cycle_start(k) and not self.valid:
                if self.plan is None and not self.sched:
                    # plan the next packet now, so that a "gap" switch can precede the rise
                    n = rng.weighted([(4, 1), (4, 2), (3, rng.range(3, 5)), (1, rng.range(5, 12 if self.big else 7))])
                    self.nbytes = n
                    self.plan = self._make_plan(n)
                    if self.plan["anchor"] == "gap":
                        self.gap = max(self.gap, 5)
                if self.gap > 0:
                    self.gap -= 1
                    if self.garbage:
                        self.data = rng.below(256)
                    if self.plan is not None and self.plan["anchor"] == "gap" and 4 * self.gap <= 16:
                        self._fire(k + 4 * self.gap - 16, "gap")
                elif self.plan is not None:
                    kind = rng.weighted([(4, "ones"), (3, "edge"), (3, "rand")])
                    n = self.nbytes
                    if kind == "ones":
                        self.queue = [0xFF] * n
                    elif kind == "edge":
                        self.queue = [rng.choice([0x3F, 0x7E, 0xFC, 0xF8, 0x1F, 0xFF, 0x7F, 0xFE, 0xE0, 0x07, 0x80, 0x01])
                                      for _ in range(n)]
                    else:
                        self.queue = rng.bytes(n)
                    if rng.chance(20):
                        self.queue[-1] = 0xFC
                    self.npk += 1
                    self.acc = 0
                    self.valid, self.data = 1, self.queue[0]
                    self._fire(k, "rise")
                    if n == 1:
                        self._fire(k, "last")
        if rng.chance(self.p_pull):
            which = rng.below(3)
            if which == 0:
                self.term ^= 1
            elif which == 1:
                self.dpd ^= 1
            else:
                self.dmd ^= 1
        return [self.op, self.valid, self.data, self.term, self.dpd, self.dmd]

    def feedback(self, k, ready):
        """tx_ready as observed in usb_io cycle k (before its tick); the usb edge ends the cycles k % 4 == phase"""
        if self.mode == "async" or k % 4 != self.phase or not (ready and self.valid):
            return
        self.queue.pop(0) if self.queue else None
        j = self.acc
        self.acc += 1
        if self.queue:
            self.nxt = (1, self.queue[0])
            self._fire(k + 1, "mid", j)
            if len(self.queue) == 1:
                self._fire(k + 1, "last")
        else:
            self.nxt = (0, self.rng.below(256) if self.garbage else 0)
            self.gap = self.rng.weighted([(6, self.rng.range(18, 36)), (2, self.rng.range(0, 17))])
            self._fire(k + 1, "fall")
            self.plan = None

    def apply_pending(self):
        if self.nxt is not None:
            self.valid, self.data = self.nxt
            self.nxt = None


def build_phy(shape="both"):
    """The real GatewarePHY on the I/O stub plus handles on the TxPipeline / TxBitstuffer instances it creates inside
    `elaborate` (for coverage tags only: which phase of a transmission a mode change hit).  Classes are wrapped for
    the duration of the elaboration, as in `build_rx_pipeline`; nothing of the gateware is changed."""
    from amaranth.sim import Simulator
    import luna.gateware.interface.gateware_phy.phy as Pm
    import luna.gateware.interface.gateware_phy.transmitter as Tm
    cap = {}

    def mk(name, cls):
        class Spy(cls):
            def __init__(self, *a, **k):
                super().__init__(*a, **k)
                cap.setdefault(name, []).append(self)
        Spy.__name__ = cls.__name__
        Spy.__qualname__ = cls.__qualname__
        return Spy

    o_tx, o_bs = Pm.TxPipeline, Tm.TxBitstuffer
    Pm.TxPipeline = mk("TxPipeline", o_tx)
    Tm.TxBitstuffer = mk("TxBitstuffer", o_bs)
    try:
        io = _IO(pullup=shape in ("both", "pullup"), pulldown=shape in ("both", "pulldown"))
        dut = Pm.GatewarePHY(io=io)
        top = sim._Wrap(dut, ["usb_io", "usb"])
        s = Simulator(top)          # elaborates
    finally:
        Pm.TxPipeline, Tm.TxBitstuffer = o_tx, o_bs
    return dut, io, s, (cap.get("TxPipeline") or [None])[0], (cap.get("TxBitstuffer") or [None])[0]


def run_phy(desc):
    """kind "phy": the real GatewarePHY with op_mode (and the pull-up / pull-down requests) changing at any usb_io
    cycle of a transmission, compared usb_io cycle by usb_io cycle with the Lean model `FsPhy.step phase` (the transmit
    chain inside the op-mode switch) on tx_ready, d_p.o, d_n.o, oe, pullup.o, pulldown.o.  The monitor judges EVERY
    usb_io cycle: in a cycle whose op_mode is non-driving both output enables are low -- in that same cycle: the switch
    is combinational in the code as it is (latency 0, measured: tag phy:nondriving-same-cycle).
    desc["io"] = "pulldown" | "pullup" | "none": the I/O record lacks the other optional pull member(s); an output that
    does not exist is reported as None (masked in the model comparison, not judged), one that exists is judged against
    its request exactly as with both present."""
    rng = Rng(desc["seed"])
    shape = desc.get("io", "both")
    phase = desc.get("phase", 0)
    mode = desc.get("mode", "directed")
    n = desc.get("cycles", 2400)
    rows = [list(r) for r in desc["stimulus"]] if desc.get("stimulus") else None
    stim = _PhyStim(rng.fork("stim"), mode, phase, desc.get("big", 0))
    dut, io, s, txp, bs = build_phy(shape)
    ins = [dut.op_mode, dut.tx_valid, dut.tx_data, dut.term_select, dut.dp_pulldown, dut.dm_pulldown]
    outs = [dut.tx_ready, io.d_p.o, io.d_n.o, io.d_p.oe, io.pullup.o if hasattr(io, "pullup") else None,
            io.pulldown.o if hasattr(io, "pulldown") else None]
    hidden = [txp.o_oe, txp.o_usbp, txp.o_usbn, txp.fit_oe] if txp is not None else []
    if bs is not None:
        hidden.append(bs.o_stall)
    P = 1e-6
    s.add_clock(P, domain="usb_io")
    s.add_clock(4 * P, phase=P / 2 + phase * P, domain="usb")
    inputs, outputs, dnoe, hid = [], [], [], []

    async def tb(ctx):
        ctx.set(io.d_p.i, 1)
        ctx.set(io.d_n.i, 0)
        ctx.set(io.vbus_valid.i, 1)
        k = 0
        while k < (len(rows) if rows is not None else n):
            if rows is not None:
                r = rows[k]
            else:
                if stim.usb_cycle_start(k):
                    stim.apply_pending()
                r = stim.row(k)
            for sig, v in zip(ins, r):
                ctx.set(sig, v)
            o = [ctx.get(x) if x is not None else None for x in outs]
            dnoe.append(ctx.get(io.d_n.oe))
            hid.append([ctx.get(x) for x in hidden])
            if rows is None:
                stim.feedback(k, o[0])
            inputs.append(list(r))
            outputs.append(o)
            await ctx.tick("usb_io")
            k += 1

    s.add_testbench(tb)
    s.run()
    fails = []
    tags = {"phy", "phy:phase=%d" % phase, "phy:" + mode, "phy:io=" + shape} | stim.tags

    def fail(k, sig, what):
        if sum(1 for f in fails if f["sig"] == sig) < 2:
            fails.append({"cycle": k, "sig": sig, "what": what})

    prev = None
    since = 0          # usb_io cycles since op_mode last changed
    for k, (r, o) in enumerate(zip(inputs, outputs)):
        op, txv, txd, term, dpd, dmd = r
        rdy, dpo, dno, dpoe, pu, pd = o
        since = since + 1 if prev is not None and prev[0] == op else 0
        if dpoe != dnoe[k]:
            fail(k, "oe-differ", "d_p.oe != d_n.oe at usb_io cycle %d" % k)
        if op == 1 and (dpoe or dnoe[k]):
            fail(k, "drives-in-nondriving", "usb_io cycle %d: op_mode = 1 (UTMI non-driving, for %d cycles) but D+/D- are "
                 "driven (d_p.oe=%d d_n.oe=%d d_p.o=%d d_n.o=%d, tx_valid=%d)" % (k, since + 1, dpoe, dnoe[k], dpo, dno, txv))
        if op == 2 and txv and not (dpoe and dnoe[k] and dpo == (txd & 1) and dno == 1 - (txd & 1)):
            fail(k, "raw-drive", "usb_io cycle %d: op_mode = 2 (no bit-stuffing/NRZI) with tx_valid: expected raw drive of "
                 "tx_data[0]=%d, got d_p.o=%d d_n.o=%d oe=%d" % (k, txd & 1, dpo, dno, dpoe))
        if pu is not None and pu != term:
            fail(k, "pullup", "usb_io cycle %d: pullup.o=%d but term_select=%d (op_mode=%d, dp/dm_pulldown=%d/%d; I/O "
                 "record: %s)" % (k, pu, term, op, dpd, dmd, shape))
        if pd is not None and pd != (dpd | dmd):
            fail(k, "pulldown", "usb_io cycle %d: pulldown.o=%d but dp_pulldown|dm_pulldown=%d (op_mode=%d; I/O record: "
                 "%s)" % (k, pd, dpd | dmd, op, shape))
        if pd is not None and (dpd | dmd):
            tags.add("phy:pulldown-requested")
        # coverage, from the real transmitter's own outputs (hidden behind the op-mode switch)
        h = hid[k]
        if h:
            t_oe, t_p, t_n, fit_oe = h[:4]
            stall = h[4] if len(h) > 4 else 0
            eop = t_oe and not t_p and not t_n
            if op != 0 and t_oe:
                tags.add("phy:op%d-while-tx-drives" % op)
                if eop:
                    tags.add("phy:op%d-during-se0" % op)
                if fit_oe and stall:
                    tags.add("phy:op%d-during-stuffed-bit" % op)
                if not fit_oe:
                    tags.add("phy:op%d-while-draining" % op)
            if op != 0 and fit_oe and not t_oe:
                tags.add("phy:op%d-before-sync-on-wire" % op)
            if prev is not None and prev[0] != op:
                tags.add("phy:change-%d-to-%d" % (prev[0], op))
                if t_oe:
                    tags.add("phy:change-to-%d-while-tx-drives" % op)
                    if eop:
                        tags.add("phy:change-to-%d-during-se0" % op)
                    if op == 1 and not dpoe:
                        tags.add("phy:nondriving-same-cycle")      # latency 0 from op_mode to oe
            if prev is not None and prev[3:] != r[3:] and (t_oe or dpoe):
                tags.add("phy:pull-request-change-while-transmitting")
        if rdy:
            tags.add("phy:ready")
        prev = r
    return Case([7, phase], inputs, outputs, fails[:6], sorted(tags), dict(desc),
                ["op_mode", "tx_valid", "tx_data", "term_select", "dp_pulldown", "dm_pulldown"],
                ["tx_ready", "d_p.o", "d_n.o", "oe", "pullup.o", "pulldown.o"])



# ------------------------------------------------------------------------------------------------ cycle-level rx
_RX_SPIED = ["RxClockDataRecovery", "RxNRZIDecoder", "RxPacketDetect", "RxBitstuffRemover", "RxShifter",
             "AsyncFIFOBuffered"]


def build_rx_pipeline():
    """The real RxPipeline plus handles on the sub-blocks it creates inside `elaborate` (their ports are ordinary
    attributes, but the instances are locals of `elaborate`): the classes are wrapped, for the duration of the
    elaboration only, by subclasses that remember their instances.  Nothing of the gateware is changed."""
    from amaranth.sim import Simulator
    import luna.gateware.interface.gateware_phy.receiver as R
    cap = {}
    orig = {n: getattr(R, n) for n in _RX_SPIED}

    def mk(name, cls):
        class Spy(cls):
            def __init__(self, *a, **k):
                super().__init__(*a, **k)
                cap.setdefault(name, []).append(self)
        Spy.__name__ = cls.__name__
        Spy.__qualname__ = cls.__qualname__
        return Spy

    for n in _RX_SPIED:
        setattr(R, n, mk(n, orig[n]))
    try:
        dut = R.RxPipeline()
        top = sim._Wrap(dut, ["usb_io", "usb"])
        s = Simulator(top)          # elaborates
    finally:
        for n in _RX_SPIED:
            setattr(R, n, orig[n])
    assert all(len(cap.get(n, [])) == (2 if n == "AsyncFIFOBuffered" else 1) for n in _RX_SPIED), \
        "RxPipeline no longer instantiates the expected sub-blocks: %s" % {k: len(v) for k, v in cap.items()}
    return dut, s, cap


def bad_stuff_wave(rng):
    """SYNC, some correctly stuffed bytes, then a 0 and seven 1s (never stuffed), padding, EOP"""
    pre = rng.bytes(rng.range(0, 3))
    bits = [0] * 7 + [1]
    ones = 1
    for byte in pre:
        for i in range(8):
            bit = (byte >> i) & 1
            bits.append(bit)
            ones = ones + 1 if bit else 0
            if ones == 6:
                bits.append(0)
                ones = 0
    bits += [0] + [1] * 7 + [0] * rng.range(0, 9)
    return nrzi_syms(bits) + [SE0, SE0, J]


def rxc_stimulus(rng, mode, big):
    """per-usb_io-cycle symbols (0 = SE0, 1 = J, 2 = K, 3 = SE1) and, for mode "nominal", the list of
    (kind, bytes) of the packets on the line"""
    if mode == "random":
        out, cur = [], J
        p = rng.choice([3, 10, 25, 60])
        for _ in range(1500):
            if rng.chance(p):
                cur = rng.weighted([(4, J), (4, K), (2, SE0), (1, 3)])
            out.append(cur)
        return out, None
    ideal = [J] * rng.range(4, 12)
    metas = []
    waves = []
    for _ in range(rng.range(2, 5)):
        kind = rng.weighted([(6, "good"), (2, "violation"), (1, "truncated"), (1, "odd"), (2, "shortsync")])
        if mode in ("nominal", "envelope") and kind in ("truncated", "odd", "shortsync"):
            kind = "good"
        p = gen_bytes(rng, 40 if big else 12)
        if kind == "good":
            w = py_encode(p)
        elif kind == "violation":
            w = bad_stuff_wave(rng)
        elif kind == "truncated":
            w = py_encode(p)
            w = w[:rng.range(1, len(w) - 3)] + [SE0, SE0, J]
        elif kind == "shortsync":
            # SYNC cut short by an SE0 when the packet detector has counted 4..6 zeros
            w = py_encode(p)[:rng.range(4, 8)] + [SE0] * rng.range(1, 2) + [J]
        else:
            w = py_encode(p)
            cut = rng.range(1, 7)
            w = w[:-3 - cut] + [SE0, SE0, J]
        metas.append((kind, p))
        waves.append(w)
        # nominal: at least 4 bit times of idle between packets (ASSUMPTIONS); otherwise also shorter gaps
        ideal += w + [J] * (rng.range(4, 30) if mode == "nominal" else rng.weighted([(3, rng.range(4, 30)), (1, rng.range(0, 3))]))
    ideal += [J] * 6
    if mode == "nominal":
        return resample(ideal, rng.below(4), 0), metas
    if mode == "envelope":
        # drifting cell streams from the envelope of the drift theorems; same monitor as at nominal rate
        samples, envtags = envelope_samples(rng, waves, [k == "violation" for k, _ in metas])
        return samples, metas + [("tags", sorted(envtags))]
    if mode == "drift":
        return resample(ideal, rng.below(4) + rng.below(100) / 100.0,
                        rng.choice([1000, -1000, 2500, -2500, 20000, -20000, 100000, -100000])), None
    samples = resample(ideal, rng.below(4), rng.choice([0, 0, 2500, -2500]))
    # noise: single-cycle glitches on one or both lines
    for _ in range(rng.range(1, 12)):
        i = rng.below(len(samples))
        samples[i] = rng.choice([SE0, J, K, 3])
    return samples, None


def run_rxcycle(desc):
    """kind "rxc": the real RxPipeline compared usb_io cycle by usb_io cycle with the Lean model `FsRx.step`
    (Lean sub-model 5) on the ports of every sub-block, the write ports of the two clock-domain-crossing FIFOs and
    the latched receive error.  The monitor states the property on what is written into the FIFOs."""
    rng = Rng(desc["seed"])
    mode = desc.get("mode", "nominal")
    metas = None
    envtags = []
    if desc.get("stimulus"):
        rows = [list(r) for r in desc["stimulus"]]
    else:
        samples, metas = rxc_stimulus(rng.fork("stim"), mode, desc.get("big", 0))
        if metas and metas[-1][0] == "tags":
            envtags = metas.pop()[1]
        rows = [[1 if x in (J, 3) else 0, 1 if x in (K, 3) else 0] for x in samples]
    dut, s, cap = build_rx_pipeline()
    cdr, nr, det = cap["RxClockDataRecovery"][0], cap["RxNRZIDecoder"][0], cap["RxPacketDetect"][0]
    bs, sh = cap["RxBitstuffRemover"][0], cap["RxShifter"][0]
    pf, ff = cap["AsyncFIFOBuffered"]
    assert len(pf.w_data) == 8 and len(ff.w_data) == 2
    outs = [cdr.line_state_valid, cdr.line_state_dj, cdr.line_state_dk, cdr.line_state_se0, cdr.line_state_se1,
            nr.o_valid, nr.o_data, nr.o_se0, det.o_pkt_start, det.o_pkt_active, det.o_pkt_end,
            bs.o_data, bs.o_stall, bs.o_error, sh.o_put, sh.o_data, pf.w_en, pf.w_data, ff.w_en, ff.w_data,
            dut.o_receive_error]
    phase = desc.get("phase", desc.get("k", 0) % 4)
    if desc["kind"] == "rxd":
        c = _run_rxd(desc, rows, metas, dut, s, pf, ff, phase, mode)
        c.tags = sorted(set(c.tags) | set(envtags))
        return c
    P = 1e-6
    s.add_clock(P, domain="usb_io")
    s.add_clock(4 * P, phase=P / 2 + phase * P, domain="usb")
    outputs = []
    ovf = []

    async def tb(ctx):
        for k, r in enumerate(rows):
            ctx.set(dut.i_usbp, r[0])
            ctx.set(dut.i_usbn, r[1])
            o = [ctx.get(x) for x in outs]
            if (o[16] and not ctx.get(pf.w_rdy)) or (o[18] and not ctx.get(ff.w_rdy)):
                ovf.append(k)
            outputs.append(o)
            await ctx.tick("usb_io")

    s.add_testbench(tb)
    s.run()
    fails = []
    tags = {"rxc", "rxc:" + mode} | set(envtags)
    # events written into the clock-domain crossing, in order
    ev = []
    for k, o in enumerate(outputs):
        if o[18]:
            ev.append((k, "start" if o[19] & 2 else "end", o[19]))
        if o[16]:
            ev.append((k, "byte", o[17]))
    if any(o[13] for o in outputs):
        tags.add("rxc:bitstuff-error-strobe")
    if any(o[20] for o in outputs):
        tags.add("rxc:error-latched")
    if any(o[4] for o in outputs):
        tags.add("rxc:se1")
    if any(e[1] == "byte" for e in ev):
        tags.add("rxc:bytes")
    if ovf and mode != "random":
        fails.append({"cycle": ovf[0], "sig": "rxc-fifo-overflow", "what": "a write into the clock-domain crossing "
                      "FIFO while it was full (usb_io cycle %d)" % ovf[0]})
    if metas is not None:
        # nominal rate: the property, on what goes into the clock-domain crossing
        want = []
        for kind, p in metas:
            want.append(("start", None))
            if kind == "good":
                want += [("byte", b) for b in p]
            else:
                want.append(("…", None))
            want.append(("end", None))
        # split observed events into packets
        pk, cur = [], None
        for (k, what, v) in ev:
            if what == "start":
                cur = {"k": k, "bytes": [], "end": None}
                pk.append(cur)
            elif cur is None or cur["end"] is not None:
                fails.append({"cycle": k, "sig": "rxc-event-outside-packet", "what": "%s written into the "
                              "clock-domain crossing outside of a packet (usb_io cycle %d)" % (what, k)})
            elif what == "byte":
                cur["bytes"].append(v)
            else:
                cur["end"] = k
        if len(pk) != len(metas):
            fails.append({"cycle": 0, "sig": "rxc-packet-count", "what": "%d packet starts for %d packets on the line"
                          % (len(pk), len(metas))})
        for (kind, p), got in zip(metas, pk):
            nxt = min([q["k"] for q in pk if q["k"] > got["k"]] + [len(outputs)])
            err = [k for k in range(got["k"] + 1, nxt) if outputs[k][20]]
            if got["end"] is None:
                fails.append({"cycle": got["k"], "sig": "rxc-no-end", "what": "packet start without packet end"})
            if kind == "good":
                tags.add("rxc:good-packet")
                if got["bytes"] != p:
                    fails.append({"cycle": got["k"], "sig": "rxc-bytes", "what": "bytes written into the clock-domain "
                                  "crossing %s != packet %s" % (got["bytes"], p)})
                if err:
                    fails.append({"cycle": err[0], "sig": "rxc-error-on-good-packet", "what":
                                  "o_receive_error during / after a correctly encoded packet %s" % p})
            elif kind == "violation":
                tags.add("rxc:violation")
                if got["end"] is not None and not all(outputs[k][20] for k in range(got["end"], nxt)):
                    fails.append({"cycle": got["end"], "sig": "rxc-stuff-error-not-latched", "what":
                                  "seven consecutive 1s: o_receive_error is not held from the end of the packet "
                                  "to the next packet start"})
    d = dict(desc)
    return Case([5], rows, outputs, fails[:5], sorted(tags), d, ["i_usbp", "i_usbn"],
                ["ls_valid", "ls_dj", "ls_dk", "ls_se0", "ls_se1", "nrzi.o_valid", "nrzi.o_data", "nrzi.o_se0",
                 "pkt_start", "pkt_active", "pkt_end", "bs.o_data", "bs.o_stall", "bs.o_error", "sh.o_put",
                 "sh.o_data", "payload.w_en", "payload.w_data", "flags.w_en", "flags.w_data", "o_receive_error"])


def _run_rxd(desc, rows, metas, dut, s, pf, ff, phase, mode):
    """kind "rxd": the usb-domain outputs of the real RxPipeline (behind its two AsyncFIFOBuffered) compared usb_io cycle
    by usb_io cycle with the Lean model `FsRxCdc.step phase` (sub-model 6), for the four phases of the usb clock.  The
    monitor states the property on the usb-domain outputs, sampled at the usb edges as the UTMI side would."""
    outs = [dut.o_data_strobe, dut.o_data_payload, dut.o_pkt_start, dut.o_pkt_end, dut.o_pkt_in_progress,
            dut.o_receive_error, pf.w_rdy, ff.w_rdy]
    P = 1e-6
    s.add_clock(P, domain="usb_io")
    s.add_clock(4 * P, phase=P / 2 + phase * P, domain="usb")
    outputs = []

    async def tb(ctx):
        for k, r in enumerate(rows):
            ctx.set(dut.i_usbp, r[0])
            ctx.set(dut.i_usbn, r[1])
            outputs.append([ctx.get(x) for x in outs])
            await ctx.tick("usb_io")

    s.add_testbench(tb)
    s.run()
    raw = outputs
    # o_data_payload is only meaningful with o_data_strobe (otherwise it shows a stale FIFO slot): don't care
    outputs = [[o[0], o[1] if o[0] else None] + o[2:] for o in raw]
    fails = []
    tags = {"rxd", "rxd:" + mode, "rxd:phase=%d" % phase}
    # what the 12 MHz side sees: one sample per usb cycle (at the usb edge)
    usb = [(k, o) for k, o in enumerate(outputs) if k % 4 == phase]
    if any(o[0] for _, o in usb):
        tags.add("rxd:strobe")
    if any(not o[6] or not o[7] for o in outputs):
        tags.add("rxd:fifo-full")
    if metas is not None:
        pk, cur = [], None
        for k, o in usb:
            strobe, data, st, en, act, err = o[:6]
            if st:
                cur = {"k": k, "bytes": [], "end": None, "err": False}
                pk.append(cur)
            if strobe:
                if not act:
                    fails.append({"cycle": k, "sig": "rxd-strobe-outside-active", "what": "o_data_strobe without "
                                  "o_pkt_in_progress (usb_io cycle %d), byte %#x" % (k, data)})
                elif cur is not None:
                    cur["bytes"].append(data)
            if cur is not None and cur["end"] is None and act and err:
                cur["err"] = True
            if en and cur is not None:
                cur["end"] = k
        if len(pk) != len(metas):
            fails.append({"cycle": 0, "sig": "rxd-packet-count", "what": "%d o_pkt_start pulses for %d packets on the line"
                          % (len(pk), len(metas))})
        for (kind, p), got in zip(metas, pk):
            if got["end"] is None:
                fails.append({"cycle": got["k"], "sig": "rxd-no-end", "what": "o_pkt_start without o_pkt_end"})
            if kind == "good":
                tags.add("rxd:good-packet")
                if got["bytes"] != p:
                    fails.append({"cycle": got["k"], "sig": "rxd-bytes", "what": "bytes delivered with o_data_strobe "
                                  "and o_pkt_in_progress %s != packet %s (usb phase %d)" % (got["bytes"], p, phase)})
                if got["err"]:
                    fails.append({"cycle": got["k"], "sig": "rxd-error-on-good-packet", "what":
                                  "o_receive_error while o_pkt_in_progress for a correctly encoded packet %s" % p})
            elif kind == "violation":
                tags.add("rxd:violation")
                if not got["err"]:
                    fails.append({"cycle": got["k"], "sig": "rxd-stuff-error-not-reported", "what":
                                  "seven consecutive 1s: o_receive_error not seen at a usb edge while o_pkt_in_progress"})
    return Case([6, phase], rows, outputs, fails[:5], sorted(tags), dict(desc), ["i_usbp", "i_usbn"],
                ["o_data_strobe", "o_data_payload", "o_pkt_start", "o_pkt_end", "o_pkt_in_progress", "o_receive_error",
                 "payload.w_rdy", "flags.w_rdy"])


def run_case(desc):
    return {"tx": run_tx, "rx": run_rx, "glue": run_glue, "txc": run_txcycle, "txp": run_txcycle,
            "rxc": run_rxcycle, "rxd": run_rxcycle, "phy": run_phy}[desc["kind"]](desc)
