"""C55 — strobe stretcher (luna/gateware/utils/cdc.py: stretch_strobe_signal)."""
from harness.common.framework import Case
from harness.common.rng import Rng
from harness.common import sim

PROP = "C55"
LEAN_MODULES = ["LunaVerif.Props.C55"]
DRIVER = "Driver/C55.lean"
REQUIRED_THEOREMS = ["stretcher_exact", "window_any_iff", "step_out"]
RULE = ("cases = (to_cycles, allow_delay) x strobe pattern; patterns: isolated strobes at distances around "
        "to_cycles, bursts, random densities; also with the requested clock domain next to a faster unrelated one "
        "(dom) and with the output signal supplied by the caller (given: supplied and returned signal both judged)")
ASSUMPTIONS = ["to_cycles >= 1 (the Python function documents this precondition)"]
PARTIAL = ""


def gen_cases(tier, rng):
    ns = list(range(1, 13)) + [16, 17, 31, 32, 33, 63, 64, 65, 70]
    if tier == "quick":
        per = 2
    elif tier == "widen":
        per = 6
    else:
        per = 12
        ns = list(range(1, 80)) + [100, 127, 128, 129, 200]
    out = []
    for n in ns:
        for d in (0, 1):
            for k in range(per):
                out.append({"n": n, "allow_delay": d, "seed": rng.u64(), "k": k})
    # the same with the caller-selected clock domain (`domain=m.d.usb`) next to a faster, unrelated
    # `sync` clock: the stretch must be counted in cycles of the requested domain
    for n in ([2, 3, 4, 5, 8, 17] if tier == "quick" else [1, 2, 3, 4, 5, 7, 8, 9, 16, 17, 33]):
        for d in (0, 1):
            for k in range(2 if tier == "quick" else 6):
                out.append({"n": n, "allow_delay": d, "seed": rng.u64(), "k": k, "dom": 1})
    # the caller hands in the signal to drive (`output=`, as car.stretch_sync_strobe_to_usb does): both that
    # signal and the returned one must carry the stretched strobe
    for n in ([1, 2, 3, 5] if tier == "quick" else [1, 2, 3, 4, 5, 8, 9, 17]):
        for d in (0, 1):
            for k in range(2 if tier == "quick" else 6):
                out.append({"n": n, "allow_delay": d, "seed": rng.u64(), "k": k, "given": 1, "dom": k % 2})
    return out


def make_stimulus(n, rng, k):
    L = 6 * n + 40
    mode = k % 3
    rows = []
    if mode == 0:      # isolated strobes with gaps around n
        t = 0
        gap = rng.range(0, 3)
        while len(rows) < L:
            rows.extend([[0]] * gap)
            rows.append([1])
            gap = max(0, n + rng.range(-3, 3))
    elif mode == 1:    # random density
        p = rng.choice([2, 10, 30, 60, 95])
        rows = [[1 if rng.chance(p) else 0] for _ in range(L)]
    else:              # bursts
        while len(rows) < L:
            rows.extend([[1]] * rng.range(1, n + 2))
            rows.extend([[0]] * rng.range(0, 2 * n + 2))
    return rows[:L]


def run_case(desc):
    from amaranth import Module, Signal
    from luna.gateware.utils.cdc import stretch_strobe_signal
    n, d = desc["n"], bool(desc["allow_delay"])
    m = Module()
    strobe = Signal()
    stim = desc.get("stimulus") or make_stimulus(n, Rng(desc["seed"]), desc.get("k", 0))
    kw = {"domain": m.d.usb} if desc.get("dom") else {}
    simkw = {"domain": "usb", "extra_clocks": {"sync": 1e-6 / 3.7}} if desc.get("dom") else {}
    fails = []
    if desc.get("given"):
        given = Signal()
        ret = stretch_strobe_signal(m, strobe, to_cycles=n, allow_delay=d, output=given, **kw)
        both = sim.run_cycles(m, [strobe], [given, ret], stim, **simkw)
        rows = [[r[0]] for r in both]
        for t, (g, r) in enumerate(both):
            if g != r:
                fails.append({"cycle": t, "sig": "stretch-given-output", "what":
                              "to_cycles=%d allow_delay=%d, output= supplied by the caller: the supplied signal is %d "
                              "while the returned one is %d at cycle %d" % (n, d, g, r, t)})
                break
    else:
        out = stretch_strobe_signal(m, strobe, to_cycles=n, allow_delay=d, **kw)
        rows = sim.run_cycles(m, [strobe], [out], stim, **simkw)
    # ---- property monitor on the real trace (independent of the Lean model)
    delay = 1 if (d and n > 1) else 0
    s = [r[0] for r in stim]
    for t, (o,) in enumerate(rows):
        want = int(any(s[t - k - delay] for k in range(n) if t - k - delay >= 0))
        if o != want:
            fails.append({"cycle": t, "sig": "stretch-window", "what":
                          "to_cycles=%d allow_delay=%d: output=%d at cycle %d but a strobe within the window says %d"
                          % (n, d, o, t, want)})
            break
    tags = ["n=%d" % n if n < 4 else "n>=4", "delay=%d" % d, "domain=usb" if desc.get("dom") else "domain=sync",
            "output=given" if desc.get("given") else "output=returned"]
    return Case([n, int(d)], stim, rows, fails, tags, desc, ["strobe"], ["output"])
