"""C15 — isochronous IN endpoint (luna/gateware/usb/usb2/endpoints/isochronous_stream_in.py).

Standalone co-simulation of the real USBIsochronousStreamInEndpoint: a closed-loop host agent issues
SOFs (new_frame + bytes_in_frame) and IN tokens (ready_for_response) for this / another endpoint, the
PHY-side `tx.ready` and the producer stream's `valid` follow random densities.  The monitor reads the
property from the outside: per cycle (what must be on the tx stream) and per frame (byte count, packet
lengths, PID sequence, ZLPs), independently of the Lean model.
"""
from harness.common.framework import Case
from harness.common.rng import Rng
from harness.props import in_util

PROP = "C15"
LEAN_MODULES = ["LunaVerif.Props.C15"]
DRIVER = "Driver/C15.lean"
REQUIRED_THEOREMS = ["frame_sends_exactly_requested", "packets_le_mps", "pid_sequence", "zlp_when_nothing_left"]
RULE = ("cases = max_packet_size in {1,3,64,1024} (thorough adds 2,8,512,1023) x host script; bytes_in_frame from "
        "{0,1,mps-1,mps,mps+1,2mps-1,2mps,2mps+1,3mps-1,3mps} and uniform 0..3mps (a few > 3mps), 0..5 IN tokens per "
        "frame incl. IN tokens before the first SOF, tokens for other endpoints, tx.ready / stream.valid densities "
        "5..100%; 'sofchaos' cases put SOFs inside packets / together with requests (outside the theorems' "
        "environment: model comparison only from that point on); 'tokdet' cases (monitor only): the endpoint behind "
        "the real USBTokenDetector (wired as in USBDevice), host given as UTMI receive bytes: SOF packets whose frame "
        "number repeats 1..8 times (microframes) and is 0 first in 3 of 4 cases, 0..5 IN tokens per (micro)frame, "
        "bytes_in_frame changed only at a SOF; a frame = from the end of one well-formed SOF packet to the next")
ASSUMPTIONS = ["max_packet_size >= 1",
               "a SOF (new_frame) arrives only between packets and not in the cycle of a request for this endpoint",
               "bytes_in_frame <= 3 * max_packet_size at every SOF (as documented for the port)"]
# Everything the property states is in the theorems.  Two outputs the property does not constrain
# (frame_finished, the PID value of zero-length packets) are co-simulated but not part of the theorems.
PARTIAL = ""

NAMES_IN = ["endpoint", "is_in", "ready_for_response", "new_frame", "tx_ready", "stream_valid", "stream_payload",
            "bytes_in_frame"]
NAMES_OUT = ["tx_valid", "tx_first", "tx_last", "tx_payload", "tx_pid_toggle", "stream_ready", "data_requested",
             "frame_finished"]


def gen_cases(tier, rng):
    plan = {"quick": [(1, 10, 500), (3, 14, 800), (64, 10, 2500), (1024, 6, 9000)],
            "widen": [(1, 30, 600), (3, 40, 900), (2, 20, 600), (64, 20, 3000), (1024, 8, 9000)],
            }.get(tier, [(1, 40, 800), (2, 30, 800), (3, 60, 1200), (8, 40, 1500), (64, 40, 4000),
                         (512, 16, 9000), (1023, 10, 14000), (1024, 16, 14000)])
    out = []
    for mps, n, cyc in plan:
        for k in range(n):
            mode = "sofchaos" if k % 5 == 4 else "host"
            out.append({"mps": mps, "ep": rng.range(1, 15), "mode": mode, "cycles": cyc, "seed": rng.u64()})
    # monitor-only cases behind the real USBTokenDetector; appended last so that the seeds above do not move
    td = {"quick": [(1, 2, 900), (3, 3, 1200), (8, 3, 1500), (64, 2, 3000)],
          "widen": [(1, 4, 900), (3, 6, 1200), (8, 6, 1500), (64, 4, 3000)],
          }.get(tier, [(1, 8, 1200), (3, 10, 1500), (8, 10, 2000), (64, 8, 4000), (512, 3, 9000)])
    for mps, n, cyc in td:
        for k in range(n):
            out.append({"mps": mps, "ep": rng.range(1, 15), "mode": "tokdet", "cycles": cyc, "seed": rng.u64()})
    return out


class Host:
    def __init__(self, rng, mps, ep, mode):
        self.r, self.mps, self.ep, self.mode = rng, mps, ep, mode
        self.ready_p = rng.choice([100, 100, 90, 50, 20])
        self.valid_p = rng.choice([100, 100, 90, 50, 5])
        self.endpoint, self.is_in = ep, 1
        self.bif = 0
        self.tokens_left = rng.range(0, 3)        # IN tokens before the first SOF
        self.phase, self.cnt = "gap", rng.range(0, 4)
        self.last_ready = 0

    def pick_bif(self):
        r, m = self.r, self.mps
        k = r.below(10)
        if k < 5:
            v = r.choice([0, 1, m - 1, m, m + 1, 2 * m - 1, 2 * m, 2 * m + 1, 3 * m - 1, 3 * m])
        elif k < 9:
            v = r.range(0, 3 * m)
        else:
            v = r.range(3 * m + 1, 4095) if self.mode == "sofchaos" and r.chance(30) else r.range(0, 3 * m)
        return max(0, min(4095, v))

    def __call__(self, t, prev):
        r = self.r
        nf = rfr = 0
        pv = prev or (0,) * 8
        valid, last = pv[0], pv[2]
        if self.phase == "gap":
            if self.cnt > 0:
                self.cnt -= 1
            elif self.tokens_left > 0:
                self.tokens_left -= 1
                self.endpoint = self.ep if r.chance(88) else (self.ep + r.range(1, 15)) % 16
                self.is_in = int(r.chance(93))
                self.phase, self.cnt = "rfr", r.range(1, 4)
            else:
                nf = 1
                self.bif = self.pick_bif()
                self.tokens_left = r.weighted([(10, 0), (25, 1), (25, 2), (25, 3), (10, 4), (5, 5)])
                self.cnt = r.range(0, 4)
        elif self.phase == "rfr":
            self.cnt -= 1
            if self.cnt <= 0:
                rfr = 1
                self.phase, self.cnt = "resp", 3
        elif self.phase == "resp":
            if valid:
                self.phase = "pkt"
            else:
                self.cnt -= 1
                if self.cnt <= 0:
                    self.phase, self.cnt = "gap", r.range(0, 4)
        if self.phase == "pkt":
            if not valid:
                self.phase, self.cnt = "gap", r.range(0, 4)
            elif self.mode == "sofchaos" and r.chance(3):
                nf = 1
                self.bif = self.pick_bif()
            elif r.chance(1):
                rfr = 1                     # a stray request while a packet is running
        if self.mode == "sofchaos" and rfr and r.chance(15):
            nf = 1
            self.bif = self.pick_bif()
        bif = self.bif if r.chance(90) else self.pick_bif()     # the port is only sampled at a SOF
        if nf:
            bif = self.bif
        ready = int(r.chance(self.ready_p))
        self.last_ready = ready
        return [self.endpoint, self.is_in, rfr, nf, ready, int(r.chance(self.valid_p)), r.range(1, 255), bif]


def needed(n, mps):
    return (n + mps - 1) // mps


def judge_frames(frames, mps, fail, tags):
    """Frame-level reading of the property: fr = {"N": bytes requested at the SOF, "events": [("D", pid, bytes) |
    ("Z", pid, [])] in order}."""
    for fr in frames:
        n = fr["N"]
        want_lens = [mps] * (n // mps) + ([n % mps] if n % mps else [])
        ev = fr["events"]
        data = [e for e in ev if e[0] == "D"]
        seen_z = False
        for e in ev:
            if e[0] == "Z":
                seen_z = True
            elif seen_z:
                fail(0, "data-after-zlp", "frame of %d bytes: a data packet follows a ZLP" % n)
        lens = [len(e[2]) for e in data]
        if lens != want_lens[:len(lens)]:
            fail(0, "frame-split", "frame of %d bytes sent as packets of %s bytes, expected %s" % (n, lens, want_lens))
        if seen_z and sum(lens) != n:
            fail(0, "frame-bytes", "ZLP sent although only %d of %d frame bytes went out" % (sum(lens), n))
        pids = [e[1] for e in data]
        if pids != list(range(len(want_lens) - 1, -1, -1))[:len(pids)]:
            fail(0, "pid-sequence", "frame of %d bytes: PIDs %s" % (n, pids))
        if len(ev) > len(data):
            tags.add("extra-token-zlp")


def monitor(mps, ep, stim, rows):
    fails, tags = [], set()

    def fail(t, sig, what):
        if not fails:
            fails.append({"cycle": t, "sig": sig, "what": "mps=%d: %s" % (mps, what)})

    N = done = pkts = inpkt = 0
    phase = "idle"
    frame = {"N": 0, "events": [], "cur": None, "presof": True}
    frames = []

    def close_frame():
        frames.append(frame)

    for t, (i, o) in enumerate(zip(stim, rows)):
        endpoint, is_in, rfr, nf, ready, sv, sp, bif = i
        valid, first, last, payload, pid, sready, dreq, ffin = o
        req = bool(endpoint == ep and is_in and rfr)
        if phase == "idle":
            if valid or last or first or payload or sready:
                fail(t, "idle-not-quiet", "tx stream / stream.ready active while no packet was requested: "
                     "valid=%d first=%d last=%d payload=%d stream.ready=%d" % (valid, first, last, payload, sready))
            if dreq != int(req):
                fail(t, "data-requested-strobe", "data_requested=%d, request=%d" % (dreq, req))
        elif phase == "data":
            want_last = int(inpkt + 1 == mps or done + 1 == N)
            want_payload = sp if sv else 0
            if not valid:
                fail(t, "valid-dropped", "tx.valid low inside a packet (%d bytes sent)" % inpkt)
            elif first != int(inpkt == 0) or last != want_last:
                fail(t, "first-last", "first=%d last=%d at byte %d of the packet, %d of %d frame bytes sent"
                     % (first, last, inpkt, done, N))
            elif payload != want_payload:
                fail(t, "wrong-byte", "payload=%d, stream offers valid=%d payload=%d" % (payload, sv, sp))
            if sready != ready:
                fail(t, "stream-ready", "stream.ready=%d but tx.ready=%d while sending" % (sready, ready))
            if pid + 1 + pkts != needed(N, mps):
                fail(t, "pid-sequence", "packet %d of a frame of %d bytes (%d packets) is labelled DATA%d"
                     % (pkts, N, needed(N, mps), pid))
            if inpkt >= mps:
                fail(t, "packet-too-long", "byte %d in a packet, max packet size %d" % (inpkt + 1, mps))
            if dreq:
                fail(t, "data-requested-strobe", "data_requested during a packet")
        elif phase == "zlp":
            if not (valid and last and not first and payload == 0 and not sready):
                fail(t, "zlp-shape", "expected a zero-length packet (valid, last, no first): valid=%d first=%d last=%d "
                     "payload=%d stream.ready=%d; %d of %d frame bytes sent" % (valid, first, last, payload, sready, done, N))
        if fails:
            break
        # ---- transitions
        if phase == "data":
            if nf:
                tags.add("env:sof-in-packet")
                phase = "chaos"
                break
            if ready:
                frame["cur"].append(payload)
                done += 1
                inpkt += 1
                if last:
                    frame["events"].append(("D", pid, frame["cur"]))
                    frame["cur"] = None
                    pkts += 1
                    phase = "idle"
                    tags.add("full-packet" if inpkt == mps else "short-packet")
                    if done == N:
                        tags.add("frame-complete-%d" % pkts)
            elif not sv:
                tags.add("zero-fill-stall")
            if not sv:
                tags.add("zero-fill")
        else:
            was_idle = phase == "idle"
            if phase == "zlp":
                frame["events"].append(("Z", pid, []))
                phase = "idle"
            if nf:
                if (was_idle and req) or bif > 3 * mps:
                    tags.add("env:sof-with-request" if bif <= 3 * mps else "env:frame-too-big")
                    phase = "chaos"
                    break
                close_frame()
                N, done, pkts = bif, 0, 0
                frame = {"N": N, "events": [], "cur": None, "presof": False}
                tags.add("N=0" if N == 0 else ("N-multiple-of-mps" if N % mps == 0 else "N-not-multiple"))
            elif was_idle and req:
                if done < N:
                    phase, inpkt = "data", 0
                    frame["cur"] = []
                else:
                    phase = "zlp"
                    tags.add("zlp-presof" if frame["presof"] else ("zlp-N0" if N == 0 else "zlp-after-data"))
    else:
        pass
    # ---- frame-level reading of the property (complete frames only)
    if not fails and phase != "chaos":
        judge_frames(frames, mps, fail, tags)
    tags.add("frames>=3" if len(frames) >= 3 else "frames<3")
    return fails, sorted(tags)


# ---------------------------------------------------------------------------------------------------------------
# 'tokdet' cases (monitor only): the endpoint behind the REAL USBTokenDetector, as USBDevice wires it.  The host is
# described on the wire (UTMI receive bytes of SOF and IN token packets), so what "a frame" is comes from the
# packets the host sent, not from a new_frame strobe the testbench made up.  High-speed hosts send eight SOFs with
# the same frame number (one per microframe), and the first SOF after reset may carry number 0.
TD_NAMES_IN = ["rx_active", "rx_valid", "rx_data", "tx_ready", "stream_valid", "stream_payload", "bytes_in_frame"]
TD_NAMES_OUT = ["tx_valid", "tx_first", "tx_last", "tx_payload", "tx_pid_toggle", "stream_ready"]
TD_RESPONSE_WAIT = 120          # cycles the host agent waits for the answer to an IN token (real code: < 10)


def td_dut(mps, ep):
    from amaranth import Elaboratable, Module
    from luna.gateware.usb.usb2.packet import USBTokenDetector
    from luna.gateware.interface.utmi import UTMIInterface
    from luna.gateware.usb.usb2.endpoints.isochronous_stream_in import USBIsochronousStreamInEndpoint

    class Top(Elaboratable):
        def __init__(self):
            self.utmi = UTMIInterface()
            self.ep = USBIsochronousStreamInEndpoint(endpoint_number=ep, max_packet_size=mps)

        def elaborate(self, platform):
            m = Module()
            m.submodules.tokenizer = tok = USBTokenDetector(utmi=self.utmi, filter_by_address=False)
            m.submodules.ep = self.ep
            m.d.comb += tok.interface.connect(self.ep.interface.tokenizer)
            return m

    return Top()


class WireHost:
    """Closed-loop host on the UTMI receive side: SOF packets (frame numbers repeated 1..8 times, number 0 first in
    most cases), IN tokens for this / another endpoint, waits for the endpoint's packet to finish before the next
    packet.  bytes_in_frame only changes in the first cycle of a SOF packet (so the value latched at that SOF is
    unambiguous)."""

    def __init__(self, rng, mps, ep):
        from harness.common import usbref
        self.u = usbref
        self.r, self.mps, self.ep = rng, mps, ep
        self.ready_p = rng.choice([100, 100, 90, 50, 20])
        self.valid_p = rng.choice([100, 100, 90, 50, 5])
        self.addr = rng.below(128)
        self.frame_no = 0 if rng.chance(75) else rng.below(2048)
        self.rep_left = 0
        self.first = True
        self.bif = 0
        self.queue = [(0, 0, 0)] * rng.range(1, 4)
        self.tokens_left = 0
        self.wait = None            # None | ["start", n] | ["pkt"]
        self.after = None
        self.new_bif = None

    def pick_bif(self):
        r, m = self.r, self.mps
        if r.chance(50):
            v = r.choice([0, 1, m - 1, m, m + 1, 2 * m - 1, 2 * m, 2 * m + 1, 3 * m - 1, 3 * m])
        else:
            v = r.range(0, 3 * m)
        return max(0, min(3 * m, v))

    def next_packet(self):
        r, u = self.r, self.u
        if self.tokens_left > 0:
            self.tokens_left -= 1
            mine = r.chance(88)
            e = self.ep if mine else (self.ep + r.range(1, 15)) % 16
            pid = u.PID_IN if (mine or r.chance(60)) else u.PID_OUT
            self.queue = list(u.render_rx(u.token_packet(pid, self.addr, e), r, gap_choices=(0, 0, 0, 1, 2)))
            if mine:
                self.after = ["start", TD_RESPONSE_WAIT]
            else:
                self.after = None
                self.queue += [(0, 0, 0)] * r.range(2, 12)
        else:
            if self.first:
                self.first = False
                self.rep_left = r.range(1, 8)
            elif self.rep_left <= 0:
                self.frame_no = (self.frame_no + 1) % 2048 if r.chance(90) else r.below(2048)
                self.rep_left = r.range(1, 8)
            self.rep_left -= 1
            self.queue = list(u.render_rx(u.sof_packet(self.frame_no), r, gap_choices=(0, 0, 0, 1, 2)))
            self.queue += [(0, 0, 0)] * r.range(3, 8)
            self.new_bif = self.pick_bif() if r.chance(80) else self.bif
            self.tokens_left = r.weighted([(10, 0), (30, 1), (25, 2), (20, 3), (10, 4), (5, 5)])
            self.after = None

    def __call__(self, t, prev):
        r = self.r
        valid = prev[0] if prev else 0
        rx = (0, 0, 0)
        if self.wait is not None:
            if self.wait[0] == "start":
                if valid:
                    self.wait = ["pkt"]
                else:
                    self.wait[1] -= 1
                    if self.wait[1] <= 0:
                        self.wait = None
            if self.wait is not None and self.wait[0] == "pkt" and not valid:
                self.wait = None
                self.queue = [(0, 0, 0)] * r.range(1, 6)
        if self.wait is None:
            if not self.queue:
                self.next_packet()
            if self.new_bif is not None:
                self.bif, self.new_bif = self.new_bif, None
            rx = self.queue.pop(0)
            if not self.queue and self.after is not None:
                self.wait, self.after = self.after, None
        return [rx[0], rx[1], rx[2], int(r.chance(self.ready_p)), int(r.chance(self.valid_p)), r.range(1, 255), self.bif]


def td_monitor(mps, ep, stim, rows):
    """Reads the property from the wire: a frame starts when a well-formed SOF packet ends; the bytes requested for it
    are the bytes_in_frame value of that moment; every IN token for this endpoint is answered by one packet."""
    from harness.common import usbref
    fails, tags = [], set()

    def fail(t, sig, what):
        if not fails:
            fails.append({"cycle": t, "sig": sig, "what": "mps=%d behind the token detector: %s" % (mps, what)})

    frames = []
    frame = None                 # frames before the first SOF are not judged
    rx = None
    cur = None                   # bytes of the data packet being transmitted
    cur_pid = 0
    tokens = answers = 0
    last_no = None
    for t, (i, o) in enumerate(zip(stim, rows)):
        a, v, d, ready, sv, sp, bif = i
        valid, first, last, payload, pid, sready = o
        # ---- what the endpoint transmits
        if cur is None:
            if valid and first:
                cur, cur_pid = [], pid
            elif valid and last:
                answers += 1
                if frame is not None:
                    frame["events"].append(("Z", pid, []))
            elif valid:
                fail(t, "tx-shape", "tx.valid without first or last outside a packet")
        if cur is not None:
            if not valid:
                fail(t, "valid-dropped", "tx.valid low inside a packet (%d bytes sent)" % len(cur))
                cur = None
            else:
                if payload != (sp if sv else 0):
                    fail(t, "wrong-byte", "payload=%d, stream offers valid=%d payload=%d" % (payload, sv, sp))
                if sready != ready:
                    fail(t, "stream-ready", "stream.ready=%d but tx.ready=%d while sending" % (sready, ready))
                if len(cur) >= mps:
                    fail(t, "packet-too-long", "byte %d in a packet, max packet size %d" % (len(cur) + 1, mps))
                if ready:
                    cur.append(payload)
                    if last:
                        answers += 1
                        if frame is not None:
                            frame["events"].append(("D", cur_pid, cur))
                        tags.add("td-full-packet" if len(cur) == mps else "td-short-packet")
                        cur = None
        if fails:
            break
        # ---- what the host sent
        if rx is None:
            if a:
                rx = []
        elif not a:
            if len(rx) == 3 and usbref.pid_ok(rx[0]):
                w = rx[1] | (rx[2] << 8)
                if (w >> 11) == usbref.usb2_crc5(w & 0x7FF):
                    p = rx[0] & 0xF
                    if p == usbref.PID_SOF:
                        if cur is not None:
                            raise AssertionError("host agent sent a SOF inside a packet")
                        if frame is not None:
                            frame["tokens"] = tokens
                            frame["answers"] = answers
                            frames.append(frame)
                        no = w & 0x7FF
                        tags.add("td-sof-first-0" if last_no is None and no == 0 else
                                 ("td-sof-same-number" if no == last_no else "td-sof-new-number"))
                        last_no = no
                        frame = {"N": bif, "events": [], "no": no, "t": t}
                        tokens = answers = 0
                        tags.add("td-N=0" if bif == 0 else "td-N>0")
                    elif p == usbref.PID_IN and (w >> 7) & 0xF == ep:
                        tokens += 1
            rx = None
        elif v:
            rx.append(d)
    if not fails:
        judge_frames(frames, mps, fail, tags)
        for fr in frames:
            if fr["answers"] != fr["tokens"]:
                fail(fr["t"], "td-answers", "frame %d (SOF ended at cycle %d): %d IN tokens for the endpoint, %d packets sent"
                     % (fr["no"], fr["t"], fr["tokens"], fr["answers"]))
            if sum(len(e[2]) for e in fr["events"]) == fr["N"] and fr["N"]:
                tags.add("td-frame-complete")
    tags.add("td-frames>=6" if len(frames) >= 6 else "td-frames<6")
    return fails, sorted(tags)


def run_tokdet(desc):
    mps, ep = desc["mps"], desc["ep"]
    top = td_dut(mps, ep)
    itf = top.ep.interface
    ins = [top.utmi.rx_active, top.utmi.rx_valid, top.utmi.rx_data, itf.tx.ready, top.ep.stream.valid,
           top.ep.stream.payload, top.ep.bytes_in_frame]
    outs = [itf.tx.valid, itf.tx.first, itf.tx.last, itf.tx.payload, itf.tx_pid_toggle, top.ep.stream.ready]
    stim, rows = in_util.run(top, ins, outs, desc, lambda: WireHost(Rng(desc["seed"]), mps, ep), desc.get("cycles", 1500))
    fails, tags = td_monitor(mps, ep, stim, rows)
    tags += ["mode=tokdet", "mps=%d" % mps]
    return Case([mps, ep], stim, [list(r) for r in rows], fails, tags, desc, TD_NAMES_IN, TD_NAMES_OUT, lean=False)


def run_case(desc):
    from luna.gateware.usb.usb2.endpoints.isochronous_stream_in import USBIsochronousStreamInEndpoint
    if desc.get("mode") == "tokdet":
        return run_tokdet(desc)
    mps, ep = desc["mps"], desc["ep"]
    dut = USBIsochronousStreamInEndpoint(endpoint_number=ep, max_packet_size=mps)
    itf = dut.interface
    ins = [itf.tokenizer.endpoint, itf.tokenizer.is_in, itf.tokenizer.ready_for_response, itf.tokenizer.new_frame,
           itf.tx.ready, dut.stream.valid, dut.stream.payload, dut.bytes_in_frame]
    outs = [itf.tx.valid, itf.tx.first, itf.tx.last, itf.tx.payload, itf.tx_pid_toggle, dut.stream.ready,
            dut.data_requested, dut.frame_finished]
    mode = desc.get("mode", "host")
    stim, rows = in_util.run(dut, ins, outs, desc, lambda: Host(Rng(desc["seed"]), mps, ep, mode),
                             desc.get("cycles", 800))
    fails, tags = monitor(mps, ep, stim, rows)
    tags += ["mode=" + mode, "mps=%d" % mps]
    return Case([mps, ep], stim, [list(r) for r in rows], fails, tags, desc, NAMES_IN, NAMES_OUT)
