"""C15 — isochronous IN endpoint (luna/gateware/usb/usb2/endpoints/isochronous_stream_in.py).

Standalone co-simulation of the real USBIsochronousStreamInEndpoint: a closed-loop host agent issues
SOFs (new_frame + bytes_in_frame) and IN tokens (ready_for_response) for this / another endpoint, the
PHY-side `tx.ready` and the producer stream's `valid` follow random densities.  The monitor reads the
property from the outside: per cycle (what must be on the tx stream) and per frame (byte count, packet
lengths, PID sequence, ZLPs), independently of the Lean model.
"""
from harness.common.framework import Case
from harness.common.rng import Rng
from harness.props import in_util

PROP = "C15"
LEAN_MODULES = ["LunaVerif.Props.C15"]
DRIVER = "Driver/C15.lean"
REQUIRED_THEOREMS = ["frame_sends_exactly_requested", "packets_le_mps", "pid_sequence", "zlp_when_nothing_left"]
RULE = ("cases = max_packet_size in {1,3,64,1024} (thorough adds 2,8,512,1023) x host script; bytes_in_frame from "
        "{0,1,mps-1,mps,mps+1,2mps-1,2mps,2mps+1,3mps-1,3mps} and uniform 0..3mps (a few > 3mps), 0..5 IN tokens per "
        "frame incl. IN tokens before the first SOF, tokens for other endpoints, tx.ready / stream.valid densities "
        "5..100%; 'sofchaos' cases put SOFs inside packets / together with requests (outside the theorems' "
        "environment: model comparison only from that point on)")
ASSUMPTIONS = ["max_packet_size >= 1",
               "a SOF (new_frame) arrives only between packets and not in the cycle of a request for this endpoint",
               "bytes_in_frame <= 3 * max_packet_size at every SOF (as documented for the port)"]
# Everything the property states is in the theorems.  Two outputs the property does not constrain
# (frame_finished, the PID value of zero-length packets) are co-simulated but not part of the theorems.
PARTIAL = ""

NAMES_IN = ["endpoint", "is_in", "ready_for_response", "new_frame", "tx_ready", "stream_valid", "stream_payload",
            "bytes_in_frame"]
NAMES_OUT = ["tx_valid", "tx_first", "tx_last", "tx_payload", "tx_pid_toggle", "stream_ready", "data_requested",
             "frame_finished"]


def gen_cases(tier, rng):
    plan = {"quick": [(1, 10, 500), (3, 14, 800), (64, 10, 2500), (1024, 6, 9000)],
            "widen": [(1, 30, 600), (3, 40, 900), (2, 20, 600), (64, 20, 3000), (1024, 8, 9000)],
            }.get(tier, [(1, 40, 800), (2, 30, 800), (3, 60, 1200), (8, 40, 1500), (64, 40, 4000),
                         (512, 16, 9000), (1023, 10, 14000), (1024, 16, 14000)])
    out = []
    for mps, n, cyc in plan:
        for k in range(n):
            mode = "sofchaos" if k % 5 == 4 else "host"
            out.append({"mps": mps, "ep": rng.range(1, 15), "mode": mode, "cycles": cyc, "seed": rng.u64()})
    return out


class Host:
    def __init__(self, rng, mps, ep, mode):
        self.r, self.mps, self.ep, self.mode = rng, mps, ep, mode
        self.ready_p = rng.choice([100, 100, 90, 50, 20])
        self.valid_p = rng.choice([100, 100, 90, 50, 5])
        self.endpoint, self.is_in = ep, 1
        self.bif = 0
        self.tokens_left = rng.range(0, 3)        # IN tokens before the first SOF
        self.phase, self.cnt = "gap", rng.range(0, 4)
        self.last_ready = 0

    def pick_bif(self):
        r, m = self.r, self.mps
        k = r.below(10)
        if k < 5:
            v = r.choice([0, 1, m - 1, m, m + 1, 2 * m - 1, 2 * m, 2 * m + 1, 3 * m - 1, 3 * m])
        elif k < 9:
            v = r.range(0, 3 * m)
        else:
            v = r.range(3 * m + 1, 4095) if self.mode == "sofchaos" and r.chance(30) else r.range(0, 3 * m)
        return max(0, min(4095, v))

    def __call__(self, t, prev):
        r = self.r
        nf = rfr = 0
        pv = prev or (0,) * 8
        valid, last = pv[0], pv[2]
        if self.phase == "gap":
            if self.cnt > 0:
                self.cnt -= 1
            elif self.tokens_left > 0:
                self.tokens_left -= 1
                self.endpoint = self.ep if r.chance(88) else (self.ep + r.range(1, 15)) % 16
                self.is_in = int(r.chance(93))
                self.phase, self.cnt = "rfr", r.range(1, 4)
            else:
                nf = 1
                self.bif = self.pick_bif()
                self.tokens_left = r.weighted([(10, 0), (25, 1), (25, 2), (25, 3), (10, 4), (5, 5)])
                self.cnt = r.range(0, 4)
        elif self.phase == "rfr":
            self.cnt -= 1
            if self.cnt <= 0:
                rfr = 1
                self.phase, self.cnt = "resp", 3
        elif self.phase == "resp":
            if valid:
                self.phase = "pkt"
            else:
                self.cnt -= 1
                if self.cnt <= 0:
                    self.phase, self.cnt = "gap", r.range(0, 4)
        if self.phase == "pkt":
            if not valid:
                self.phase, self.cnt = "gap", r.range(0, 4)
            elif self.mode == "sofchaos" and r.chance(3):
                nf = 1
                self.bif = self.pick_bif()
            elif r.chance(1):
                rfr = 1                     # a stray request while a packet is running
        if self.mode == "sofchaos" and rfr and r.chance(15):
            nf = 1
            self.bif = self.pick_bif()
        bif = self.bif if r.chance(90) else self.pick_bif()     # the port is only sampled at a SOF
        if nf:
            bif = self.bif
        ready = int(r.chance(self.ready_p))
        self.last_ready = ready
        return [self.endpoint, self.is_in, rfr, nf, ready, int(r.chance(self.valid_p)), r.range(1, 255), bif]


def needed(n, mps):
    return (n + mps - 1) // mps


def monitor(mps, ep, stim, rows):
    fails, tags = [], set()

    def fail(t, sig, what):
        if not fails:
            fails.append({"cycle": t, "sig": sig, "what": "mps=%d: %s" % (mps, what)})

    N = done = pkts = inpkt = 0
    phase = "idle"
    frame = {"N": 0, "events": [], "cur": None, "presof": True}
    frames = []

    def close_frame():
        frames.append(frame)

    for t, (i, o) in enumerate(zip(stim, rows)):
        endpoint, is_in, rfr, nf, ready, sv, sp, bif = i
        valid, first, last, payload, pid, sready, dreq, ffin = o
        req = bool(endpoint == ep and is_in and rfr)
        if phase == "idle":
            if valid or last or first or payload or sready:
                fail(t, "idle-not-quiet", "tx stream / stream.ready active while no packet was requested: "
                     "valid=%d first=%d last=%d payload=%d stream.ready=%d" % (valid, first, last, payload, sready))
            if dreq != int(req):
                fail(t, "data-requested-strobe", "data_requested=%d, request=%d" % (dreq, req))
        elif phase == "data":
            want_last = int(inpkt + 1 == mps or done + 1 == N)
            want_payload = sp if sv else 0
            if not valid:
                fail(t, "valid-dropped", "tx.valid low inside a packet (%d bytes sent)" % inpkt)
            elif first != int(inpkt == 0) or last != want_last:
                fail(t, "first-last", "first=%d last=%d at byte %d of the packet, %d of %d frame bytes sent"
                     % (first, last, inpkt, done, N))
            elif payload != want_payload:
                fail(t, "wrong-byte", "payload=%d, stream offers valid=%d payload=%d" % (payload, sv, sp))
            if sready != ready:
                fail(t, "stream-ready", "stream.ready=%d but tx.ready=%d while sending" % (sready, ready))
            if pid + 1 + pkts != needed(N, mps):
                fail(t, "pid-sequence", "packet %d of a frame of %d bytes (%d packets) is labelled DATA%d"
                     % (pkts, N, needed(N, mps), pid))
            if inpkt >= mps:
                fail(t, "packet-too-long", "byte %d in a packet, max packet size %d" % (inpkt + 1, mps))
            if dreq:
                fail(t, "data-requested-strobe", "data_requested during a packet")
        elif phase == "zlp":
            if not (valid and last and not first and payload == 0 and not sready):
                fail(t, "zlp-shape", "expected a zero-length packet (valid, last, no first): valid=%d first=%d last=%d "
                     "payload=%d stream.ready=%d; %d of %d frame bytes sent" % (valid, first, last, payload, sready, done, N))
        if fails:
            break
        # ---- transitions
        if phase == "data":
            if nf:
                tags.add("env:sof-in-packet")
                phase = "chaos"
                break
            if ready:
                frame["cur"].append(payload)
                done += 1
                inpkt += 1
                if last:
                    frame["events"].append(("D", pid, frame["cur"]))
                    frame["cur"] = None
                    pkts += 1
                    phase = "idle"
                    tags.add("full-packet" if inpkt == mps else "short-packet")
                    if done == N:
                        tags.add("frame-complete-%d" % pkts)
            elif not sv:
                tags.add("zero-fill-stall")
            if not sv:
                tags.add("zero-fill")
        else:
            was_idle = phase == "idle"
            if phase == "zlp":
                frame["events"].append(("Z", pid, []))
                phase = "idle"
            if nf:
                if (was_idle and req) or bif > 3 * mps:
                    tags.add("env:sof-with-request" if bif <= 3 * mps else "env:frame-too-big")
                    phase = "chaos"
                    break
                close_frame()
                N, done, pkts = bif, 0, 0
                frame = {"N": N, "events": [], "cur": None, "presof": False}
                tags.add("N=0" if N == 0 else ("N-multiple-of-mps" if N % mps == 0 else "N-not-multiple"))
            elif was_idle and req:
                if done < N:
                    phase, inpkt = "data", 0
                    frame["cur"] = []
                else:
                    phase = "zlp"
                    tags.add("zlp-presof" if frame["presof"] else ("zlp-N0" if N == 0 else "zlp-after-data"))
    else:
        pass
    # ---- frame-level reading of the property (complete frames only)
    if not fails and phase != "chaos":
        for fr in frames:
            n = fr["N"]
            want_lens = [mps] * (n // mps) + ([n % mps] if n % mps else [])
            ev = fr["events"]
            data = [e for e in ev if e[0] == "D"]
            seen_z = False
            for e in ev:
                if e[0] == "Z":
                    seen_z = True
                elif seen_z:
                    fail(0, "data-after-zlp", "frame of %d bytes: a data packet follows a ZLP" % n)
            lens = [len(e[2]) for e in data]
            if lens != want_lens[:len(lens)]:
                fail(0, "frame-split", "frame of %d bytes sent as packets of %s bytes, expected %s" % (n, lens, want_lens))
            if seen_z and sum(lens) != n:
                fail(0, "frame-bytes", "ZLP sent although only %d of %d frame bytes went out" % (sum(lens), n))
            pids = [e[1] for e in data]
            if pids != list(range(len(want_lens) - 1, -1, -1))[:len(pids)]:
                fail(0, "pid-sequence", "frame of %d bytes: PIDs %s" % (n, pids))
            if len(ev) > len(data):
                tags.add("extra-token-zlp")
    tags.add("frames>=3" if len(frames) >= 3 else "frames<3")
    return fails, sorted(tags)


def run_case(desc):
    from luna.gateware.usb.usb2.endpoints.isochronous_stream_in import USBIsochronousStreamInEndpoint
    mps, ep = desc["mps"], desc["ep"]
    dut = USBIsochronousStreamInEndpoint(endpoint_number=ep, max_packet_size=mps)
    itf = dut.interface
    ins = [itf.tokenizer.endpoint, itf.tokenizer.is_in, itf.tokenizer.ready_for_response, itf.tokenizer.new_frame,
           itf.tx.ready, dut.stream.valid, dut.stream.payload, dut.bytes_in_frame]
    outs = [itf.tx.valid, itf.tx.first, itf.tx.last, itf.tx.payload, itf.tx_pid_toggle, dut.stream.ready,
            dut.data_requested, dut.frame_finished]
    mode = desc.get("mode", "host")
    stim, rows = in_util.run(dut, ins, outs, desc, lambda: Host(Rng(desc["seed"]), mps, ep, mode),
                             desc.get("cycles", 800))
    fails, tags = monitor(mps, ep, stim, rows)
    tags += ["mode=" + mode, "mps=%d" % mps]
    return Case([mps, ep], stim, [list(r) for r in rows], fails, tags, desc, NAMES_IN, NAMES_OUT)
