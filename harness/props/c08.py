"""C08 — see harness/props/dev_ctl.py (event level, shared with the other control-endpoint properties) and
harness/props/c07_cyc.py (cycle level, run through `extra_checks`)."""
from harness.common import framework
from harness.props import dev_ctl, c07_cyc, c07

PROP = "C08"
# Lemmas/C08Mps.lean: the theorems of Props/C08.lean over coreM / stepM / LegalHostM (every control max packet size: the model
# drv_dev steps and the event-level co-simulation runs at 8 / 16 / 32 / 64)
LEAN_MODULES = ["LunaVerif.Props.C08"] + dev_ctl.CYC_MODULES + c07.STREAM_MODULES + ["LunaVerif.Lemmas.C08Mps"]
DRIVER = dev_ctl.DRIVER
REQUIRED_THEOREMS = ["address_changes_only_on_status_ack", "configuration_changes_only_on_status_ack", "old_address_until_commit", "foreign_ack_does_not_commit", "setup_latched_only_by_setup_transaction", "bus_reset_clears", "commit_returns_to_idle",
                     "handshake_forwarded_only_for_own_in_token", "foreign_handshake_is_invisible",
                     "address_strobe_only_on_gated_ack_in_set_address", "config_strobe_only_on_gated_ack_in_set_configuration",
                     "address_strobe_returns_to_idle", "cycle_refines_event", "cycle_refines_event_run",
                     "coreM_ctl", "stepM_ctl", "address_changes_only_on_status_ack_mps", "configuration_changes_only_on_status_ack_mps",
                     "ack_in_regwrite_state_answers_status_zlp_mps", "old_address_until_commit_mps", "foreign_ack_does_not_commit_mps",
                     "setup_latched_only_by_setup_transaction_mps", "bus_reset_clears_mps", "commit_returns_to_idle_mps",
                     "idle_handler_ignores_handshakes_mps", "status_ack_commits_mps"]
RULE = dev_ctl.RULE + dev_ctl.CYC_RULE + c07.RULE_SYS
ASSUMPTIONS = dev_ctl.ASSUMPTIONS
PARTIAL = c07.PARTIAL_STREAMS + dev_ctl.PARTIAL["C08"][len(dev_ctl.PARTIAL_COMMON):]


def gen_cases(tier, rng):
    return dev_ctl.gen_dev_cases(tier, rng, "c08")


def run_case(desc):
    if desc.get("mode") == "cyc":
        return c07_cyc.run_case(desc)
    return dev_ctl.run_dev_case(desc, PROP)


def extra_checks(tier, rng, proof):
    return c07_cyc.extra_checks(tier, rng, proof, nproc=framework.NPROC, profiles=("c08",))
