"""C08 — see harness/props/dev_ctl.py (shared with the other control-endpoint properties)."""
from harness.props import dev_ctl

PROP = "C08"
LEAN_MODULES = ["LunaVerif.Props.C08"]
DRIVER = dev_ctl.DRIVER
REQUIRED_THEOREMS = ["address_changes_only_on_status_ack", "configuration_changes_only_on_status_ack", "old_address_until_commit", "foreign_ack_does_not_commit", "setup_latched_only_by_setup_transaction", "bus_reset_clears", "commit_returns_to_idle"]
RULE = dev_ctl.RULE
ASSUMPTIONS = dev_ctl.ASSUMPTIONS
PARTIAL = dev_ctl.PARTIAL["C08"]


def gen_cases(tier, rng):
    return dev_ctl.gen_dev_cases(tier, rng, "c08")


def run_case(desc):
    return dev_ctl.run_dev_case(desc, PROP)
