"""C03 — USB2 data packet generator (luna/gateware/usb/usb2/packet.py: USBDataPacketGenerator) with the CRC16 unit
wired as in USBDevice (device.py: data_crc.tx_valid = tx.valid & tx_ready, data_crc.tx_data = tx.data), and the
class's own standalone=True wiring."""
from harness.common.framework import Case
from harness.common.rng import Rng
from harness.common import sim
from harness.common import usbref as U

PROP = "C03"
LEAN_MODULES = ["LunaVerif.Props.C03"]
DRIVER = "Driver/C03.lean"
REQUIRED_THEOREMS = ["tx_packet_exact", "zlp_on_last_without_first", "each_payload_byte_once",
                     "crc_capture_stall_safe"]
RULE = ("cases = wiring (device | standalone) x packet script; closed-loop stream producer (holds valid from first to "
        "last, payload stable until stream.ready) offering payloads of 0..70 bytes (0 = ZLP request: valid & last "
        "without first, one cycle) with every data_pid, back-to-back and with idle gaps; tx_ready schedules: always "
        "ready, random densities 10/50/90 %, long stalls placed exactly before the PID / first payload byte / last "
        "payload byte / first CRC byte / second CRC byte is accepted; data_pid after the request cycle (= the IDLE cycle "
        "in which valid & (first | last) is seen, the cycle whose data_pid the generator latches): held (1/4) | moved to "
        "a different value k cycles after the request, k drawn per packet from 1..stall_len+3, i.e. every offset of the "
        "PID stall and beyond (1/2) | redrawn every cycle, also during the idle gap before the request (1/4); the "
        "monitor requires the PID byte selected by data_pid IN THE REQUEST CYCLE; 'malformed' cases drive random "
        "valid/first/last/payload/data_pid every cycle (model comparison only, monitor off)")
ASSUMPTIONS = [
    "stream producer: valid held from the first to the last byte, first on the first byte, last on the last, payload "
    "stable while a byte is not accepted; a ZLP request is valid & last & ~first for one cycle while "
    "the generator is idle",
    "data_pid: the theorems take it constant over the packet (prodIn); monitor and co-simulation only assume it valid "
    "in the request cycle (generator idle, valid & (first | last)) and change it freely before and afterwards - the "
    "model latches it every IDLE cycle exactly as the gateware does",
    "tx_ready is arbitrary (any stall pattern, including never accepting)",
]
PARTIAL = ""

DATA_PID_BYTES = [U.pid_byte(U.PID_DATA0), U.pid_byte(U.PID_DATA1), U.pid_byte(U.PID_DATA2), U.pid_byte(U.PID_MDATA)]
NAMES_IN = ["data_pid", "stream.valid", "stream.first", "stream.last", "stream.payload", "tx.ready"]
NAMES_OUT = ["tx.valid", "tx.data", "stream.ready", "crc.crc"]


def gen_cases(tier, rng):
    n = {"quick": 64, "widen": 256}.get(tier, 800)
    return [{"wiring": ["device", "standalone"][k % 2 if k % 4 else 0], "malformed": 1 if k % 8 == 5 else 0,
             "seed": rng.u64(), "k": k} for k in range(n)]


def build(wiring):
    from amaranth import Module, Elaboratable
    from luna.gateware.usb.usb2.packet import USBDataPacketGenerator, USBDataPacketCRC
    if wiring == "standalone":
        g = USBDataPacketGenerator(standalone=True)
        return g, g

    class Wired(Elaboratable):
        def __init__(self):
            self.gen = USBDataPacketGenerator()

        def elaborate(self, platform):
            m = Module()
            m.submodules.gen = gen = self.gen
            m.submodules.crc = crc = USBDataPacketCRC()
            crc.add_interface(gen.crc)
            m.d.comb += [                                   # as USBDevice.elaborate does for its transmit path
                crc.tx_valid.eq(gen.tx.valid & gen.tx.ready),
                crc.tx_data.eq(gen.tx.data),
                crc.rx_valid.eq(0),
            ]
            return m

    top = Wired()
    return top, top.gen


def make_script(rng):
    """packets: (data_pid, payload or None for a ZLP request, idle cycles before); ready schedule description."""
    pk = []
    for _ in range(rng.range(8, 24)):
        n = rng.weighted([(3, 0), (3, 1), (3, 2), (2, 3), (6, rng.range(4, 16)), (3, rng.range(17, 70)), (1, 64)])
        pk.append([rng.below(4), None if n == 0 else rng.bytes(n), rng.choice([0, 0, 1, 2, 5])])
    mode = rng.choice(["always", "dens", "dens", "stall", "stall", "stall"])
    sched = {"mode": mode, "p": rng.choice([10, 50, 90]), "stall_len": rng.choice([1, 2, 7, 30]),
             "stall_at": rng.choice(["pid", "pid", "first", "last", "crc1", "crc2", "all"])}
    # data_pid after the request cycle: held | moved to another value k cycles after the request (k sweeps every
    # offset of the PID stall and a few beyond, per packet) | redrawn every cycle (also during the idle gap before)
    sched["pidmode"] = rng.choice(["hold", "after", "after", "live"])
    return pk, sched


def run_closed(top, gen, pk, sched, rng):
    """Closed-loop testbench: the producer advances on stream.ready & valid; returns (input rows, output rows)."""
    from amaranth.sim import Simulator
    ins = [gen.data_pid, gen.stream.valid, gen.stream.first, gen.stream.last, gen.stream.payload, gen.tx.ready]
    outs = [gen.tx.valid, gen.tx.data, gen.stream.ready, gen.crc.crc]
    s = Simulator(sim._Wrap(top, ["usb"]))
    s.add_clock(1e-6, domain="usb")
    irows, orows = [], []
    stuck = []

    async def tb(ctx):
        for (pid, payload, gap) in pk:
            if stuck:
                break
            total = 3 + (len(payload) if payload else 0)
            marks = {"pid": 0, "first": 1, "last": total - 3, "crc1": total - 2, "crc2": total - 1}
            stall_pts = set(marks.values()) if sched["stall_at"] == "all" else {marks[sched["stall_at"]]}
            accepted, stalled, stall_left = 0, set(), 0
            q = list(payload) if payload else []
            first = True
            zlp_pulsed = False
            guard = 0
            since_req = None            # cycles since the request cycle (the IDLE cycle with valid & (first | last))
            pidmode = sched.get("pidmode", "hold")
            k_after = rng.range(1, sched["stall_len"] + 3) if pidmode == "after" else 0
            alt = (pid + 1 + rng.below(3)) % 4 if pidmode == "after" else pid

            def live_pid():
                if since_req is None:                       # up to and including the request cycle
                    return pid
                if pidmode == "after":
                    return alt if since_req >= k_after else pid
                if pidmode == "live":
                    return rng.below(4)
                return pid
            while accepted < total:
                guard += 1
                if guard > 6000:        # 73 bytes at 10 % tx_ready need ~800 cycles; this is a wedged transmitter
                    stuck.append(len(irows))
                    break
                if gap > 0:
                    # idle before the request: the value here must not matter (only the request cycle's does)
                    row = [rng.below(4) if pidmode == "live" else pid, 0, 0, 0, rng.below(256), 1]
                    gap -= 1
                else:
                    if payload:
                        row = [live_pid(), 1 if q else 0, 1 if (q and first) else 0, 1 if len(q) == 1 else 0,
                               q[0] if q else rng.below(256), 1]
                    else:
                        row = [live_pid(), 0 if zlp_pulsed else 1, 0, 0 if zlp_pulsed else 1, rng.below(256), 1]
                        zlp_pulsed = True
                    since_req = 1 if since_req is None else since_req + 1   # offset of the NEXT row
                    if sched["mode"] == "dens":
                        row[5] = 1 if rng.chance(sched["p"]) else 0
                    elif sched["mode"] == "stall":
                        if accepted in stall_pts and accepted not in stalled:
                            stalled.add(accepted)
                            stall_left = sched["stall_len"]
                        if stall_left > 0:
                            row[5] = 0
                            stall_left -= 1
                for sig, v in zip(ins, row):
                    ctx.set(sig, v)
                o = tuple(ctx.get(x) for x in outs)
                irows.append(row)
                orows.append(o)
                if o[0] and row[5]:
                    accepted += 1
                if o[2] and row[1] and q:
                    q.pop(0)
                    first = False
                await ctx.tick("usb")
        for _ in range(3):
            row = [0, 0, 0, 0, 0, 1]
            for sig, v in zip(ins, row):
                ctx.set(sig, v)
            irows.append(row)
            orows.append(tuple(ctx.get(x) for x in outs))
            await ctx.tick("usb")

    s.add_testbench(tb)
    s.run()
    return irows, orows, stuck


def malformed_rows(rng):
    rows = []
    v = f = l = 0
    pid, pl, rdy = 0, 0, 1
    for _ in range(rng.range(300, 900)):
        if rng.chance(25):
            v = rng.below(2)
        if rng.chance(25):
            f = rng.below(2)
        if rng.chance(25):
            l = rng.below(2)
        if rng.chance(40):
            pl = rng.below(256)
        if rng.chance(10):
            pid = rng.below(4)
        if rng.chance(30):
            rdy = rng.below(2)
        rows.append([pid, v, f, l, pl, rdy])
    return rows


def monitor(pk, irows, orows, stuck=()):
    fails = []
    if stuck:
        fails.append({"cycle": stuck[0], "sig": "tx-packet-incomplete",
                      "what": "a requested packet was not completely transmitted within 6000 cycles although tx_ready "
                              "kept coming (cycle %d)" % stuck[0]})
    want = [[DATA_PID_BYTES[pid]] + (payload or []) + [U.usb2_crc16(payload or []) & 0xFF, U.usb2_crc16(payload or []) >> 8]
            for (pid, payload, _g) in pk]
    got = U.parse_tx([(o[0], i[5], o[1]) for i, o in zip(irows, orows)])
    if got != want:
        k = next((j for j in range(max(len(got), len(want))) if j >= len(got) or j >= len(want) or got[j] != want[j]), 0)
        if k < len(got) and k < len(want) and got[k][1:] == want[k][1:] and got[k][:1] != want[k][:1]:
            fails.append({"cycle": 0, "sig": "tx-packet-pid",
                          "what": "transmitted packet #%d starts with PID byte 0x%02x; required 0x%02x = the DATA PID "
                                  "selected by data_pid=%d in the cycle the packet was requested (generator idle, "
                                  "stream.valid & (first | last)); data_pid afterwards is irrelevant"
                                  % (k, got[k][0], want[k][0], pk[k][0])})
        else:
            fails.append({"cycle": 0, "sig": "tx-packet-bytes",
                          "what": "transmitted packet #%d is %r, required [PID] ++ payload ++ CRC16-LE = %r"
                                  % (k, got[k] if k < len(got) else None, want[k] if k < len(want) else None)})
    consumed = [i[4] for i, o in zip(irows, orows) if o[2] and i[1]]
    offered = [b for (_p, payload, _g) in pk for b in (payload or [])]
    if consumed != offered:
        fails.append({"cycle": 0, "sig": "payload-consumed",
                      "what": "bytes taken from the stream (%d) are not the bytes offered (%d), each once in order"
                              % (len(consumed), len(offered))})
    return fails


def run_case(desc):
    top, gen = build(desc["wiring"])
    rng = Rng(desc["seed"])
    tags = ["wiring:" + desc["wiring"]]
    if desc.get("stimulus"):
        stim = desc["stimulus"]
        ins = [gen.data_pid, gen.stream.valid, gen.stream.first, gen.stream.last, gen.stream.payload, gen.tx.ready]
        outs = [gen.tx.valid, gen.tx.data, gen.stream.ready, gen.crc.crc]
        rows = sim.run_cycles(top, ins, outs, stim, domain="usb")
        fails = []
        if desc.get("script") and not desc.get("malformed"):
            # replay of a monitored case: judge the packets that were completely offered in the (possibly cut) trace
            pk = desc["script"]
            done, acc = [], 0
            total_acc = sum(1 for i, o in zip(stim, rows) if o[0] and i[5])
            for p in pk:
                acc += 3 + (len(p[1]) if p[1] else 0)
                if acc <= total_acc:
                    done.append(p)
            got = U.parse_tx([(o[0], i[5], o[1]) for i, o in zip(stim, rows)])
            want = [[DATA_PID_BYTES[p[0]]] + (p[1] or []) + [U.usb2_crc16(p[1] or []) & 0xFF, U.usb2_crc16(p[1] or []) >> 8]
                    for p in done]
            if got[:len(want)] != want:
                fails.append({"cycle": 0, "sig": "tx-packet-bytes", "what": "replayed packets %r, required %r"
                                                                          % (got[:len(want)], want)})
        return Case([1 if desc["wiring"] == "standalone" else 0], stim, rows, fails, tags + ["replay"], desc,
                    NAMES_IN, NAMES_OUT)
    if desc.get("malformed"):
        stim = malformed_rows(rng)
        ins = [gen.data_pid, gen.stream.valid, gen.stream.first, gen.stream.last, gen.stream.payload, gen.tx.ready]
        outs = [gen.tx.valid, gen.tx.data, gen.stream.ready, gen.crc.crc]
        rows = sim.run_cycles(top, ins, outs, stim, domain="usb")
        return Case([1 if desc["wiring"] == "standalone" else 0], stim, rows, [], tags + ["malformed"], desc,
                    NAMES_IN, NAMES_OUT)
    pk, sched = make_script(rng)
    irows, orows, stuck = run_closed(top, gen, pk, sched, rng)
    fails = monitor(pk, irows, orows, stuck)
    desc = dict(desc)
    desc["script"] = pk
    tags += ["ready:" + sched["mode"] + (":" + sched["stall_at"] if sched["mode"] == "stall" else "")]
    for (_p, payload, g) in pk:
        n = len(payload) if payload else 0
        tags.append("len:%s" % ("zlp" if n == 0 else str(n) if n < 3 else "3-16" if n <= 16 else ">16"))
        tags.append("gap:%d" % g if g < 2 else "gap:>=2")
    return Case([1 if desc["wiring"] == "standalone" else 0], irows, orows, fails, sorted(set(tags)), desc,
                NAMES_IN, NAMES_OUT)
