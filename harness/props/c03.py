"""C03 — USB2 data packet generator (luna/gateware/usb/usb2/packet.py: USBDataPacketGenerator) with the CRC16 unit
wired as in USBDevice (device.py: data_crc.tx_valid = tx.valid & tx_ready, data_crc.tx_data = tx.data), and the
class's own standalone=True wiring; plus monitor-only runs of the REAL USBDevice (device.py's own hookup of the shared CRC16
unit and the transmit multiplexer) under a heavily stalling PHY (case kind "usbdevice")."""
from harness.common.framework import Case
from harness.common.rng import Rng
from harness.common import sim
from harness.common import usbref as U

PROP = "C03"
LEAN_MODULES = ["LunaVerif.Props.C03"]
DRIVER = "Driver/C03.lean"
REQUIRED_THEOREMS = ["tx_packet_exact", "zlp_on_last_without_first", "each_payload_byte_once",
                     "crc_capture_stall_safe"]
RULE = ("cases = wiring (device | standalone) x packet script; closed-loop stream producer (holds valid from first to "
        "last, payload stable until stream.ready) offering payloads of 0..70 bytes (0 = ZLP request: valid & last "
        "without first, one cycle) with every data_pid, back-to-back and with idle gaps; tx_ready schedules: always "
        "ready, random densities 10/50/90 %, long stalls placed exactly before the PID / first payload byte / last "
        "payload byte / first CRC byte / second CRC byte is accepted; data_pid after the request cycle (= the IDLE cycle "
        "in which valid & (first | last) is seen, the cycle whose data_pid the generator latches): held (1/4) | moved to "
        "a different value k cycles after the request, k drawn per packet from 1..stall_len+3, i.e. every offset of the "
        "PID stall and beyond (1/2) | redrawn every cycle, also during the idle gap before the request (1/4); the "
        "monitor requires the PID byte selected by data_pid IN THE REQUEST CYCLE; 'malformed' cases drive random "
        "valid/first/last/payload/data_pid every cycle (model comparison only, monitor off); "
        "'usbdevice' cases (monitor only, 12 quick / 80 thorough): the real USBDevice of device.py (standard control endpoint "
        "+ bulk IN stream endpoint, descriptor sets 'long' / 'std' of harness/common/devharness.py) driven by a host that "
        "alternates GET_DESCRIPTOR control-IN transfers (random descriptor and wLength, data stages of 1..3 packets, 1..64 "
        "bytes each) and bulk IN packets of 1..63 bytes, each data packet ACKed; PHY tx_ready per transmitted packet: every "
        "byte position stalled 1..3 cycles | each position stalled with 25 % for 1..5 cycles | 50 % random | one or two "
        "stalls of 1..7 cycles exactly before the PID / first / random / last payload byte / first / second CRC byte | never; "
        "every data packet the device transmits must be [PID with the expected toggle] ++ expected payload ++ CRC16-LE by "
        "usbref, and a byte offered while tx_ready is low must be held; "
        "'usbdevice-pid' cases (monitor only, 4 quick / 24 thorough): the real USBDevice with a "
        "USBIsochronousStreamInEndpoint (max packet 3/4/8/16, frames of > 2 x max packet bytes in 5 of 9 SOFs: DATA2, "
        "DATA1, DATA0) and a test endpoint whose 2-bit PID selection (weighted to 2 and 3), length 0..20 and payload are "
        "testbench inputs; SOFs + IN tokens on the UTMI receive side, tx_ready per packet always | 50 % | 25 % | stall "
        "of 1..7 cycles before the PID; every packet on the UTMI bus must be [PID byte of the tx_pid_toggle the endpoint "
        "shows in the cycle it starts its request] ++ the bytes the endpoint handed over ++ CRC16-LE")
ASSUMPTIONS = [
    "stream producer: valid held from the first to the last byte, first on the first byte, last on the last, payload "
    "stable while a byte is not accepted; a ZLP request is valid & last & ~first for one cycle while "
    "the generator is idle",
    "data_pid: the theorems take it constant over the packet (prodIn); monitor and co-simulation only assume it valid "
    "in the request cycle (generator idle, valid & (first | last)) and change it freely before and afterwards - the "
    "model latches it every IDLE cycle exactly as the gateware does",
    "tx_ready is arbitrary (any stall pattern, including never accepting)",
]
PARTIAL = ""

DATA_PID_BYTES = [U.pid_byte(U.PID_DATA0), U.pid_byte(U.PID_DATA1), U.pid_byte(U.PID_DATA2), U.pid_byte(U.PID_MDATA)]
NAMES_IN = ["data_pid", "stream.valid", "stream.first", "stream.last", "stream.payload", "tx.ready"]
NAMES_OUT = ["tx.valid", "tx.data", "stream.ready", "crc.crc"]


def gen_cases(tier, rng):
    n = {"quick": 64, "widen": 256}.get(tier, 800)
    out = [{"wiring": ["device", "standalone"][k % 2 if k % 4 else 0], "malformed": 1 if k % 8 == 5 else 0,
            "seed": rng.u64(), "k": k} for k in range(n)]
    # the REAL USBDevice (device.py's own CRC / multiplexer hookup), monitor only
    nd = {"quick": 12, "widen": 32}.get(tier, 80)
    out += [{"kind": "usbdevice", "wiring": "usbdevice", "seed": rng.u64(), "k": k,
             "shape": ["long", "std", "long"][k % 3]} for k in range(nd)]
    # the real USBDevice with endpoints requesting all four PID selections, monitor only (appended last: seeds above stay)
    npid = {"quick": 4, "widen": 12}.get(tier, 24)
    out += [{"kind": "usbdevice-pid", "wiring": "usbdevice-pid", "seed": rng.u64(), "k": k, "mps": [4, 8, 3, 16][k % 4],
             "cycles": 4000} for k in range(npid)]
    return out


def build(wiring):
    from amaranth import Module, Elaboratable
    from luna.gateware.usb.usb2.packet import USBDataPacketGenerator, USBDataPacketCRC
    if wiring == "standalone":
        g = USBDataPacketGenerator(standalone=True)
        return g, g

    class Wired(Elaboratable):
        def __init__(self):
            self.gen = USBDataPacketGenerator()

        def elaborate(self, platform):
            m = Module()
            m.submodules.gen = gen = self.gen
            m.submodules.crc = crc = USBDataPacketCRC()
            crc.add_interface(gen.crc)
            m.d.comb += [                                   # as USBDevice.elaborate does for its transmit path
                crc.tx_valid.eq(gen.tx.valid & gen.tx.ready),
                crc.tx_data.eq(gen.tx.data),
                crc.rx_valid.eq(0),
            ]
            return m

    top = Wired()
    return top, top.gen


def make_script(rng):
    """packets: (data_pid, payload or None for a ZLP request, idle cycles before); ready schedule description."""
    pk = []
    for _ in range(rng.range(8, 24)):
        n = rng.weighted([(3, 0), (3, 1), (3, 2), (2, 3), (6, rng.range(4, 16)), (3, rng.range(17, 70)), (1, 64)])
        pk.append([rng.below(4), None if n == 0 else rng.bytes(n), rng.choice([0, 0, 1, 2, 5])])
    mode = rng.choice(["always", "dens", "dens", "stall", "stall", "stall"])
    sched = {"mode": mode, "p": rng.choice([10, 50, 90]), "stall_len": rng.choice([1, 2, 7, 30]),
             "stall_at": rng.choice(["pid", "pid", "first", "last", "crc1", "crc2", "all"])}
    # data_pid after the request cycle: held | moved to another value k cycles after the request (k sweeps every
    # offset of the PID stall and a few beyond, per packet) | redrawn every cycle (also during the idle gap before)
    sched["pidmode"] = rng.choice(["hold", "after", "after", "live"])
    return pk, sched


def run_closed(top, gen, pk, sched, rng):
    """Closed-loop testbench: the producer advances on stream.ready & valid; returns (input rows, output rows)."""
    from amaranth.sim import Simulator
    ins = [gen.data_pid, gen.stream.valid, gen.stream.first, gen.stream.last, gen.stream.payload, gen.tx.ready]
    outs = [gen.tx.valid, gen.tx.data, gen.stream.ready, gen.crc.crc]
    s = Simulator(sim._Wrap(top, ["usb"]))
    s.add_clock(1e-6, domain="usb")
    irows, orows = [], []
    stuck = []

    async def tb(ctx):
        for (pid, payload, gap) in pk:
            if stuck:
                break
            total = 3 + (len(payload) if payload else 0)
            marks = {"pid": 0, "first": 1, "last": total - 3, "crc1": total - 2, "crc2": total - 1}
            stall_pts = set(marks.values()) if sched["stall_at"] == "all" else {marks[sched["stall_at"]]}
            accepted, stalled, stall_left = 0, set(), 0
            q = list(payload) if payload else []
            first = True
            zlp_pulsed = False
            guard = 0
            since_req = None            # cycles since the request cycle (the IDLE cycle with valid & (first | last))
            pidmode = sched.get("pidmode", "hold")
            k_after = rng.range(1, sched["stall_len"] + 3) if pidmode == "after" else 0
            alt = (pid + 1 + rng.below(3)) % 4 if pidmode == "after" else pid

            def live_pid():
                if since_req is None:                       # up to and including the request cycle
                    return pid
                if pidmode == "after":
                    return alt if since_req >= k_after else pid
                if pidmode == "live":
                    return rng.below(4)
                return pid
            while accepted < total:
                guard += 1
                if guard > 6000:        # 73 bytes at 10 % tx_ready need ~800 cycles; this is a wedged transmitter
                    stuck.append(len(irows))
                    break
                if gap > 0:
                    # idle before the request: the value here must not matter (only the request cycle's does)
                    row = [rng.below(4) if pidmode == "live" else pid, 0, 0, 0, rng.below(256), 1]
                    # first / last are don't-cares while valid is low (a source may leave `last` up after its final
                    # byte); derived from the cycle number so that the random stream of the script does not move
                    nz = (len(irows) * 2654435761 >> 9) & 7
                    row[2], row[3] = int(nz == 1), int(nz in (2, 3, 4))
                    gap -= 1
                else:
                    if payload:
                        row = [live_pid(), 1 if q else 0, 1 if (q and first) else 0, 1 if len(q) == 1 else 0,
                               q[0] if q else rng.below(256), 1]
                    else:
                        row = [live_pid(), 0 if zlp_pulsed else 1, 0, 0 if zlp_pulsed else 1, rng.below(256), 1]
                        zlp_pulsed = True
                    since_req = 1 if since_req is None else since_req + 1   # offset of the NEXT row
                    if sched["mode"] == "dens":
                        row[5] = 1 if rng.chance(sched["p"]) else 0
                    elif sched["mode"] == "stall":
                        if accepted in stall_pts and accepted not in stalled:
                            stalled.add(accepted)
                            stall_left = sched["stall_len"]
                        if stall_left > 0:
                            row[5] = 0
                            stall_left -= 1
                for sig, v in zip(ins, row):
                    ctx.set(sig, v)
                o = tuple(ctx.get(x) for x in outs)
                irows.append(row)
                orows.append(o)
                if o[0] and row[5]:
                    accepted += 1
                if o[2] and row[1] and q:
                    q.pop(0)
                    first = False
                await ctx.tick("usb")
        for _ in range(3):
            row = [0, 0, 0, 0, 0, 1]
            for sig, v in zip(ins, row):
                ctx.set(sig, v)
            irows.append(row)
            orows.append(tuple(ctx.get(x) for x in outs))
            await ctx.tick("usb")

    s.add_testbench(tb)
    s.run()
    return irows, orows, stuck


def malformed_rows(rng):
    rows = []
    v = f = l = 0
    pid, pl, rdy = 0, 0, 1
    for _ in range(rng.range(300, 900)):
        if rng.chance(25):
            v = rng.below(2)
        if rng.chance(25):
            f = rng.below(2)
        if rng.chance(25):
            l = rng.below(2)
        if rng.chance(40):
            pl = rng.below(256)
        if rng.chance(10):
            pid = rng.below(4)
        if rng.chance(30):
            rdy = rng.below(2)
        rows.append([pid, v, f, l, pl, rdy])
    return rows


def monitor(pk, irows, orows, stuck=()):
    fails = []
    if stuck:
        fails.append({"cycle": stuck[0], "sig": "tx-packet-incomplete",
                      "what": "a requested packet was not completely transmitted within 6000 cycles although tx_ready "
                              "kept coming (cycle %d)" % stuck[0]})
    want = [[DATA_PID_BYTES[pid]] + (payload or []) + [U.usb2_crc16(payload or []) & 0xFF, U.usb2_crc16(payload or []) >> 8]
            for (pid, payload, _g) in pk]
    got = U.parse_tx([(o[0], i[5], o[1]) for i, o in zip(irows, orows)])
    if got != want:
        k = next((j for j in range(max(len(got), len(want))) if j >= len(got) or j >= len(want) or got[j] != want[j]), 0)
        if k < len(got) and k < len(want) and got[k][1:] == want[k][1:] and got[k][:1] != want[k][:1]:
            fails.append({"cycle": 0, "sig": "tx-packet-pid",
                          "what": "transmitted packet #%d starts with PID byte 0x%02x; required 0x%02x = the DATA PID "
                                  "selected by data_pid=%d in the cycle the packet was requested (generator idle, "
                                  "stream.valid & (first | last)); data_pid afterwards is irrelevant"
                                  % (k, got[k][0], want[k][0], pk[k][0])})
        else:
            fails.append({"cycle": 0, "sig": "tx-packet-bytes",
                          "what": "transmitted packet #%d is %r, required [PID] ++ payload ++ CRC16-LE = %r"
                                  % (k, got[k] if k < len(got) else None, want[k] if k < len(want) else None)})
    consumed = [i[4] for i, o in zip(irows, orows) if o[2] and i[1]]
    offered = [b for (_p, payload, _g) in pk for b in (payload or [])]
    if consumed != offered:
        fails.append({"cycle": 0, "sig": "payload-consumed",
                      "what": "bytes taken from the stream (%d) are not the bytes offered (%d), each once in order"
                              % (len(consumed), len(offered))})
    return fails


# ----------------------------------------------------------------------------- the real USBDevice
def _stall_harness(spec, timing_rng, ready_rng):
    """DevHarness (harness/common/devharness.py: the real USBDevice + standard control endpoint + endpoints on a plain
    UTMI bus) with a PHY that stalls heavily: per transmitted packet one of
      all     every byte position (PID, every payload byte, both CRC bytes) is stalled 1..3 cycles
      sparse  each byte position stalled with probability 25 % for 1..5 cycles
      dens    tx_ready random, 50 %
      target  one long stall (1..7 cycles) exactly before the PID / first payload byte / a random payload byte / the
              last payload byte / the first CRC byte / the second CRC byte is accepted (positions from the length the
              host script expects)
      always  never stalled
    tx_ready only depends on what was accepted in earlier cycles."""
    from harness.common import devharness as DH

    class StallHarness(DH.DevHarness):
        def __init__(self):
            super().__init__(spec, timing_rng)
            self.rr = ready_rng
            self.hint_total = None       # number of bytes of the packet the host expects next (for 'target')
            self.all_rows = []           # (tx_valid, tx_ready, tx_data) of every cycle
            self._acc, self._left, self._mode, self._inpkt, self._tgt = 0, None, None, False, {}

        def _draw_mode(self):
            rr = self.rr
            self._mode = rr.weighted([(4, "all"), (3, "sparse"), (2, "dens"), (6, "target"), (1, "always")])
            self._tgt = {}
            if self._mode == "target":
                n = self.hint_total or 1
                cand = [0, 1, n - 3, n - 2, n - 1, n - 2, n - 1] + ([rr.range(1, n - 3)] if n > 4 else [])
                for _ in range(rr.choice([1, 1, 2])):
                    self._tgt[max(rr.choice(cand), 0)] = rr.range(1, 7)

        def _draw_stall(self):
            rr, m = self.rr, self._mode
            if m == "all":
                return rr.range(1, 3)
            if m == "sparse":
                return rr.range(1, 5) if rr.chance(25) else 0
            if m == "target":
                return self._tgt.get(self._acc, 0)
            return 0

        async def _tick(self, ctx, rx=(0, 0, 0), line_state=None):
            u = self.utmi
            if rx != self._rx:
                if rx[0] != self._rx[0]:
                    ctx.set(u.rx_active, rx[0])
                if rx[1] != self._rx[1]:
                    ctx.set(u.rx_valid, rx[1])
                if rx[2] != self._rx[2]:
                    ctx.set(u.rx_data, rx[2])
                self._rx = rx
            ls = line_state if line_state is not None else (self.LINE_K if rx[0] else self.LINE_J)
            if ls != self._ls:
                ctx.set(u.line_state, ls)
                self._ls = ls
            if self._mode is None:
                self._draw_mode()
            if self._left is None:
                self._left = self._draw_stall()
            if self._mode == "dens":
                ready = 1 if self.rr.chance(50) else 0
            else:
                ready = 0 if self._left > 0 else 1
            if ready != self._ready:
                ctx.set(u.tx_ready, ready)
                self._ready = ready
            v = ctx.get(u.tx_valid)
            d = ctx.get(u.tx_data) if v else 0
            self.tx_rows.append((1 if v else 0, ready, d))
            self.all_rows.append((1 if v else 0, ready, d))
            if v:
                self._inpkt = True
                if ready:
                    self._acc += 1
                    self._left = None
                elif self._left:
                    self._left -= 1
            elif self._inpkt:                    # the packet has ended: new schedule for the next one
                self._inpkt, self._acc, self._left, self._mode = False, 0, None, None
            await ctx.tick("usb")
            self.cycle += 1
            return v

    return StallHarness()


def run_usbdevice(desc):
    """Monitor-only: control-IN data stages (GET_DESCRIPTOR, one to three packets of up to 64 bytes) and bulk IN packets
    (1..63 bytes) of the real USBDevice under the stalling PHY; every transmitted data packet must be
    [PID] ++ payload ++ CRC16-LE (usbref), and a byte offered while tx_ready is low must be held."""
    from harness.common import devharness as DH
    rng = Rng(desc["seed"])
    spec = {"desc": DH.descriptor_table(desc.get("shape", "long")), "eps": [["in", 1, 64]], "handlers": []}
    h = _stall_harness(spec, rng.fork("timing"), rng.fork("ready"))
    hr = rng.fork("host")
    fails, tags = [], {"wiring:usbdevice", "shape:" + desc.get("shape", "long")}
    judged = [0]

    def fail(sig, what):
        if len(fails) < 3:
            fails.append({"cycle": max(len(h.log) - 1, 0), "sig": sig, "what": what})

    def judge(res, want_pid, chunk, where):
        """res: EventResult of an IN token that must be answered with the data packet (want_pid, chunk)."""
        pk = res.resp.packets
        if len(pk) != 1 or not pk[0] or (pk[0][0] & 0xF) not in DH.DATA_PIDS:
            return False
        p = pk[0]
        judged[0] += 1
        n = len(p)
        # where did this packet get stalled?
        acc = 0
        for v, r, _d in h.tx_rows:
            if v and not r:
                tags.add("stall:" + ("pid" if acc == 0 else "crc1" if acc == n - 2 else "crc2" if acc == n - 1 else
                                     "first-payload" if acc == 1 else "last-payload" if acc == n - 3 else "payload"))
            if v and r:
                acc += 1
        tags.add("devlen:%s" % ("zlp" if n == 3 else "1" if n == 4 else "2-63" if n < 67 else "64"))
        c = U.usb2_crc16(chunk)
        want = [U.pid_byte(want_pid)] + list(chunk) + [c & 0xFF, c >> 8]
        if p != want:
            if p[:1] != want[:1]:
                sig = "dev-tx-pid"
            elif p[1:-2] != want[1:-2] or len(p) < 3:
                sig = "dev-tx-payload"
            else:
                sig = "dev-tx-crc16"
            fail(sig, "%s: the device transmitted %s; required [PID %#04x] ++ payload ++ CRC16 low, high = %s"
                 % (where, bytes(p).hex(), want[0], bytes(want).hex()))
        return True

    def in_data(addr_ep, want_pid, chunk, where):
        """IN token until the device answers with data (NAK = not ready yet, asked again a few times), then ACK."""
        for _try in range(4):
            h.hint_total = 3 + len(chunk)
            res = yield ["tok", U.PID_IN, 0, addr_ep]
            h.hint_total = None
            if judge(res, want_pid, chunk, where):
                yield ["hs", U.PID_ACK]
                return True
            if res.resp.is_hs(U.PID_NAK) or res.resp.is_none:
                tags.add("in-nak" if res.resp.is_hs() else "in-silent")
                continue
            fail("dev-tx-malformed", "%s: the answer to the IN token is %r, not a data packet" % (where, res.resp))
            return False
        return False

    def host(_h):
        bulk_pid = U.PID_DATA0
        for step in range(desc.get("steps", 7)):
            if fails:
                return
            if step % 2 == 0:
                t, i, b = hr.choice([d for d in spec["desc"] if len(d[2]) > 2])
                wlen = hr.choice([len(b), len(b), 255, hr.range(1, len(b)), hr.range(1, min(len(b), 12))])
                total = min(wlen, len(b))
                if total % 64 == 0:          # keep the transfer ending in a short packet (ZLP rules belong to C09/C10)
                    wlen = total = total - hr.range(1, 5)
                yield ["tok", U.PID_SETUP, 0, 0]
                r = yield ["data", U.PID_DATA0, DH.setup_bytes(0x80, 6, (t << 8) | i, 0, wlen), 1]
                if not r.resp.is_hs(U.PID_ACK):
                    raise RuntimeError("SETUP not acknowledged: %r" % r)
                pid, off = U.PID_DATA1, 0
                while off < total:
                    chunk = b[off:min(off + 64, total)]
                    ok = yield from in_data(0, pid, chunk, "GET_DESCRIPTOR(%d,%d) wLength=%d, data stage bytes %d..%d"
                                            % (t, i, wlen, off, off + len(chunk) - 1))
                    if not ok:
                        break
                    off += len(chunk)
                    pid = U.PID_DATA0 if pid == U.PID_DATA1 else U.PID_DATA1
                    tags.add("ctrl-in-pkts>=%d" % min(off // 64 + 1, 3))
                yield ["tok", U.PID_OUT, 0, 0]
                yield ["data", U.PID_DATA1, [], 1]
            else:
                for _ in range(hr.range(1, 3)):
                    n = hr.weighted([(2, 1), (2, 2), (2, 3), (6, hr.range(4, 20)), (3, hr.range(21, 63))])
                    data = hr.bytes(n)
                    r = yield ["produce", 1, data, 1]
                    if r.delivered != n:
                        raise RuntimeError("bulk IN endpoint took %r of %d bytes" % (r.delivered, n))
                    ok = yield from in_data(1, bulk_pid, data, "bulk IN packet of %d bytes" % n)
                    if not ok:
                        return
                    bulk_pid = U.PID_DATA0 if bulk_pid == U.PID_DATA1 else U.PID_DATA1
                    tags.add("bulk-in")

    log = h.run(host)
    # UTMI: a byte offered while tx_ready is low stays offered, unchanged, in the next cycle
    rows = h.all_rows
    for t in range(len(rows) - 1):
        v, r, d = rows[t]
        if v and not r and (not rows[t + 1][0] or rows[t + 1][2] != d):
            fail("dev-tx-data-unstable", "cycle %d: tx_data=%#04x offered with tx_ready low, next cycle tx_valid=%d tx_data=%#04x"
                 % (t, d, rows[t + 1][0], rows[t + 1][2]))
            break
    if not judged[0] and not fails:
        raise RuntimeError("the device run produced no data packet to judge")
    tags.add("dev-packets>=%d" % (10 if judged[0] >= 10 else 1))
    d = dict(desc)
    inputs = [DH.encode_event(r.event) for r in log]
    outputs = [r.resp.encode() for r in log]
    return Case([2], inputs, outputs, fails, sorted(tags), d, ["event…"], ["kind", "pid", "len", "bytes…"], lean=False)


# ----------------------------------------------------------------------------- the real USBDevice, all four PID selections
# Case kind "usbdevice-pid" (monitor only): USBDevice + USBIsochronousStreamInEndpoint (requests selections 2, 1, 0 for
# a frame of more than 2 x max_packet_size bytes) + a minimal test endpoint whose 2-bit selection is a testbench input
# (so that MDATA = 3 is requested too).  Cycle-level closed loop (in_util.run), open-loop replay from the stimulus.
PID_NAMES_IN = ["rx_active", "rx_valid", "rx_data", "line_state", "tx_ready", "connect", "iso.bytes_in_frame",
                "iso.stream.valid", "iso.stream.payload", "sel.pid_select", "sel.length", "sel.base"]
PID_NAMES_OUT = ["tx_valid", "tx_data", "iso.stream.ready",
                 "iso.tx.valid", "iso.tx.first", "iso.tx.last", "iso.tx.ready", "iso.tx.payload", "iso.tx_pid_toggle",
                 "sel.tx.valid", "sel.tx.first", "sel.tx.last", "sel.tx.ready", "sel.tx.payload", "sel.tx_pid_toggle"]
PID_ISO_EP, PID_SEL_EP, PID_NO_EP = 2, 3, 5


def _sel_endpoint(number):
    from amaranth import Elaboratable, Module, Signal
    from luna.gateware.usb.usb2.endpoint import EndpointInterface

    class SelEndpoint(Elaboratable):
        """Answers each IN token for `number` with `length` bytes base, base+1, … (length 0: a zero-length request,
        valid & last without first for one cycle) and requests the PID selection `pid_select`."""

        def __init__(self):
            self.interface = EndpointInterface()
            self.pid_select = Signal(2)
            self.length = Signal(5)
            self.base = Signal(8)

        def elaborate(self, platform):
            m = Module()
            iface, tok, tx = self.interface, self.interface.tokenizer, self.interface.tx
            pos = Signal(5)
            m.d.comb += iface.tx_pid_toggle.eq(self.pid_select)
            with m.FSM(domain="usb"):
                with m.State("IDLE"):
                    m.d.usb += pos.eq(0)
                    with m.If(tok.is_in & (tok.endpoint == number) & tok.ready_for_response):
                        with m.If(self.length == 0):
                            m.next = "ZLP"
                        with m.Else():
                            m.next = "SEND"
                with m.State("ZLP"):
                    m.d.comb += [tx.valid.eq(1), tx.last.eq(1)]
                    m.next = "IDLE"
                with m.State("SEND"):
                    m.d.comb += [tx.valid.eq(1), tx.first.eq(pos == 0), tx.last.eq(pos == self.length - 1),
                                 tx.payload.eq(self.base + pos)]
                    with m.If(tx.ready):
                        m.d.usb += pos.eq(pos + 1)
                        with m.If(tx.last):
                            m.next = "IDLE"
            return m

    return SelEndpoint()


class _PidHost:
    """Host + PHY agent, one row per cycle.  SOFs (frame numbers moving on), IN tokens for the isochronous endpoint, the
    selection endpoint and an endpoint nobody serves; waits for the answer to end before the next packet.  tx_ready per
    transmitted packet: always | 50 % | 25 % | a stall of 1..7 cycles before the PID byte then 80 %."""

    def __init__(self, rng, mps):
        self.r, self.mps = rng, mps
        self.queue = [(0, 0, 0)] * rng.range(4, 8)
        self.wait = None
        self.after = None
        self.frame_no = rng.below(2048)
        self.bif = 0
        self.iso_left = 0
        self.sel = [0, 1, 0]
        self.iso_byte = rng.range(1, 255)
        self.mode, self.stall = "always", 0
        self.pending = []

    def _token(self, ep):
        return list(U.render_rx(U.token_packet(U.PID_IN, 0, ep), self.r, gap_choices=(0, 0, 0, 1, 2)))

    def next_packet(self):
        r, m = self.r, self.mps
        if not self.pending:
            # one frame: SOF, then a shuffled mix of IN tokens
            self.frame_no = (self.frame_no + 1) % 2048
            self.pending = [("sof",)]
            toks = [("iso",)] * r.weighted([(1, 0), (2, 2), (5, 3), (2, 4)]) + [("sel",)] * r.range(1, 3)
            if r.chance(30):
                toks.append(("none",))
            # keep the isochronous tokens in order, interleave the others
            out = []
            for tk in toks:
                out.insert(r.range(0, len(out)) if tk[0] != "iso" else len(out), tk)
            self.pending += out
        step = self.pending.pop(0)
        if step[0] == "sof":
            self.new_bif = r.weighted([(5, r.range(2 * m + 1, 3 * m)), (2, r.range(m + 1, 2 * m)), (1, r.range(1, m)), (1, 0)])
            self.queue = list(U.render_rx(U.sof_packet(self.frame_no), r, gap_choices=(0, 0, 0, 1, 2)))
            self.queue += [(0, 0, 0)] * r.range(4, 10)
            self.after = None
        elif step[0] == "none":
            self.queue = self._token(PID_NO_EP) + [(0, 0, 0)] * r.range(20, 40)
            self.after = None
        else:
            if step[0] == "sel":
                self.new_sel = [r.weighted([(3, 3), (3, 2), (1, 1), (1, 0)]),
                                r.weighted([(2, 0), (2, 1), (2, 2), (6, r.range(3, 20))]), r.below(256)]
            self.queue = self._token(PID_ISO_EP if step[0] == "iso" else PID_SEL_EP)
            self.after = ["start", 400]
            self.mode = r.weighted([(2, "always"), (3, "dens50"), (2, "dens25"), (4, "pidstall")])
            self.stall = r.range(1, 7)
    new_bif = None
    new_sel = None

    def __call__(self, t, prev):
        r = self.r
        valid = prev[0] if prev else 0
        if prev and prev[2]:                         # iso.stream.ready: the producer's byte was taken
            self.iso_byte = r.range(1, 255)
        rx = (0, 0, 0)
        if self.wait is not None:
            if self.wait[0] == "start":
                if valid:
                    self.wait = ["pkt"]
                else:
                    self.wait[1] -= 1
                    if self.wait[1] <= 0:
                        self.wait = None
            if self.wait is not None and self.wait[0] == "pkt" and not valid:
                self.wait = None
                self.queue = [(0, 0, 0)] * r.range(3, 8)
        if self.wait is None:
            if not self.queue:
                self.next_packet()
                if self.new_bif is not None:
                    self.bif, self.new_bif = self.new_bif, None
                if self.new_sel is not None:
                    self.sel, self.new_sel = self.new_sel, None
            rx = self.queue.pop(0)
            if not self.queue and self.after is not None:
                self.wait, self.after = self.after, None
        # PHY acceptance: depends only on earlier cycles
        if self.mode == "always":
            ready = 1
        elif self.mode == "dens50":
            ready = int(r.chance(50))
        elif self.mode == "dens25":
            ready = int(r.chance(25))
        else:
            if valid and self.stall > 0:
                self.stall -= 1
                ready = 0
            else:
                ready = int(r.chance(80)) if valid else 0
        return [rx[0], rx[1], rx[2], 0b10 if rx[0] else 0b01, ready, 1, self.bif, 1, self.iso_byte,
                self.sel[0], self.sel[1], self.sel[2]]


def pid_monitor(stim, rows):
    """Every request an endpoint makes to the transmitter (valid & (first | last) while no request is running) must
    appear on the UTMI bus as [PID byte of the selection the endpoint shows in that cycle] ++ the bytes the endpoint
    handed over, in order ++ their CRC16 (low byte first)."""
    fails, tags = [], set()

    def fail(t, sig, what):
        if len(fails) < 3 and not any(f["sig"] == sig for f in fails):
            fails.append({"cycle": t, "sig": sig, "what": what})

    reqs = []                      # [cycle, endpoint name, selection, bytes, complete]
    cur = None
    for t, o in enumerate(rows):
        for name, k in (("iso", 3), ("sel", 9)):
            valid, first, last, ready, payload, sel = o[k:k + 6]
            if cur is None:
                if valid and (first or last):
                    if not first:
                        reqs.append([t, name, sel, [], True])
                        continue
                    cur = [t, name, sel, [], False]
            if cur is not None and cur[1] == name:
                if valid and ready:
                    cur[3].append(payload)
                    if last:
                        cur[4] = True
                        reqs.append(cur)
                        cur = None
    if cur is not None:
        reqs.append(cur)
    pkts = []
    pk = None
    for t, (i, o) in enumerate(zip(stim, rows)):
        if o[0]:
            if pk is None:
                pk = [t, [], False]
            if i[4]:
                pk[1].append(o[1])
        elif pk is not None:
            pk[2] = True
            pkts.append(pk)
            pk = None
    if pk is not None:
        pkts.append(pk)
    for n, rq in enumerate(reqs):
        t, name, sel, data, complete = rq
        if n >= len(pkts):
            if complete and len(rows) - t > 60 + 20 * len(data):
                fail(t, "dev-tx-missing", "cycle %d: endpoint '%s' handed a packet of %d bytes to the transmitter, nothing "
                     "was transmitted" % (t, name, len(data)))
            break
        pt, got, ended = pkts[n]
        if not (complete and ended):
            break                                   # trace cut inside this packet
        c = U.usb2_crc16(data)
        want = [DATA_PID_BYTES[sel]] + list(data) + [c & 0xFF, c >> 8]
        tags.add("devpid:%s:sel%d%s" % (name, sel, ":zlp" if not data else ""))
        if not stim[pt][4]:
            tags.add("devpid:stall-at-pid")
        if got != want:
            sig = "dev-tx-pid" if got[:1] != want[:1] else ("dev-tx-payload" if got[1:-2] != want[1:-2] or len(got) < 3
                                                            else "dev-tx-crc16")
            fail(pt, sig, "cycle %d: endpoint '%s' requested PID selection %d (%s) with %d payload bytes; the device "
                 "transmitted %s, required %s" % (t, name, sel, ["DATA0", "DATA1", "DATA2", "MDATA"][sel], len(data),
                                                  bytes(got).hex(), bytes(want).hex()))
    if len(pkts) > len(reqs):
        fail(pkts[len(reqs)][0], "dev-tx-unrequested", "a packet is transmitted that no endpoint requested: %s"
             % bytes(pkts[len(reqs)][1]).hex())
    for t in range(len(rows) - 1):
        if rows[t][0] and not stim[t][4] and (not rows[t + 1][0] or rows[t + 1][1] != rows[t][1]):
            fail(t, "dev-tx-data-unstable", "cycle %d: tx_data=%#04x offered with tx_ready low, next cycle tx_valid=%d "
                 "tx_data=%#04x" % (t, rows[t][1], rows[t + 1][0], rows[t + 1][1]))
            break
    return fails, tags, len(reqs)


def run_usbdevice_pid(desc):
    from harness.props import in_util
    from luna.gateware.interface.utmi import UTMIInterface
    from luna.gateware.usb.usb2.device import USBDevice
    from luna.gateware.usb.usb2.endpoints.isochronous_stream_in import USBIsochronousStreamInEndpoint
    mps = desc.get("mps", 4)
    utmi = UTMIInterface()
    dev = USBDevice(bus=utmi, handle_clocking=False)
    iso = USBIsochronousStreamInEndpoint(endpoint_number=PID_ISO_EP, max_packet_size=mps)
    sel = _sel_endpoint(PID_SEL_EP)
    dev.add_endpoint(iso)
    dev.add_endpoint(sel)
    ins = [utmi.rx_active, utmi.rx_valid, utmi.rx_data, utmi.line_state, utmi.tx_ready, dev.connect, iso.bytes_in_frame,
           iso.stream.valid, iso.stream.payload, sel.pid_select, sel.length, sel.base]
    outs = [utmi.tx_valid, utmi.tx_data, iso.stream.ready]
    for e in (iso, sel):
        x = e.interface
        outs += [x.tx.valid, x.tx.first, x.tx.last, x.tx.ready, x.tx.payload, x.tx_pid_toggle]
    stim, rows = in_util.run(dev, ins, outs, desc, lambda: _PidHost(Rng(desc["seed"]), mps), desc.get("cycles", 2500))
    fails, tags, nreq = pid_monitor(stim, rows)
    if not nreq and not desc.get("stimulus"):
        raise RuntimeError("the usbdevice-pid run produced no data packet to judge")
    tags.update({"wiring:usbdevice-pid", "mps=%d" % mps})
    return Case([3], stim, [list(r) for r in rows], fails, sorted(tags), desc, PID_NAMES_IN, PID_NAMES_OUT, lean=False)


def run_case(desc):
    if desc.get("kind") == "usbdevice-pid":
        return run_usbdevice_pid(desc)
    if desc.get("kind") == "usbdevice":
        # a replay re-runs the adaptive host from the seed (the run is a function of the seed)
        return run_usbdevice({k: v for k, v in desc.items() if k != "stimulus"})
    top, gen = build(desc["wiring"])
    rng = Rng(desc["seed"])
    tags = ["wiring:" + desc["wiring"]]
    if desc.get("stimulus"):
        stim = desc["stimulus"]
        ins = [gen.data_pid, gen.stream.valid, gen.stream.first, gen.stream.last, gen.stream.payload, gen.tx.ready]
        outs = [gen.tx.valid, gen.tx.data, gen.stream.ready, gen.crc.crc]
        rows = sim.run_cycles(top, ins, outs, stim, domain="usb")
        fails = []
        if desc.get("script") and not desc.get("malformed"):
            # replay of a monitored case: judge the packets that were completely offered in the (possibly cut) trace
            pk = desc["script"]
            done, acc = [], 0
            total_acc = sum(1 for i, o in zip(stim, rows) if o[0] and i[5])
            for p in pk:
                acc += 3 + (len(p[1]) if p[1] else 0)
                if acc <= total_acc:
                    done.append(p)
            got = U.parse_tx([(o[0], i[5], o[1]) for i, o in zip(stim, rows)])
            want = [[DATA_PID_BYTES[p[0]]] + (p[1] or []) + [U.usb2_crc16(p[1] or []) & 0xFF, U.usb2_crc16(p[1] or []) >> 8]
                    for p in done]
            if got[:len(want)] != want:
                fails.append({"cycle": 0, "sig": "tx-packet-bytes", "what": "replayed packets %r, required %r"
                                                                          % (got[:len(want)], want)})
        return Case([1 if desc["wiring"] == "standalone" else 0], stim, rows, fails, tags + ["replay"], desc,
                    NAMES_IN, NAMES_OUT)
    if desc.get("malformed"):
        stim = malformed_rows(rng)
        ins = [gen.data_pid, gen.stream.valid, gen.stream.first, gen.stream.last, gen.stream.payload, gen.tx.ready]
        outs = [gen.tx.valid, gen.tx.data, gen.stream.ready, gen.crc.crc]
        rows = sim.run_cycles(top, ins, outs, stim, domain="usb")
        return Case([1 if desc["wiring"] == "standalone" else 0], stim, rows, [], tags + ["malformed"], desc,
                    NAMES_IN, NAMES_OUT)
    pk, sched = make_script(rng)
    irows, orows, stuck = run_closed(top, gen, pk, sched, rng)
    fails = monitor(pk, irows, orows, stuck)
    desc = dict(desc)
    desc["script"] = pk
    tags += ["ready:" + sched["mode"] + (":" + sched["stall_at"] if sched["mode"] == "stall" else "")]
    for (_p, payload, g) in pk:
        n = len(payload) if payload else 0
        tags.append("len:%s" % ("zlp" if n == 0 else str(n) if n < 3 else "3-16" if n <= 16 else ">16"))
        tags.append("gap:%d" % g if g < 2 else "gap:>=2")
    return Case([1 if desc["wiring"] == "standalone" else 0], irows, orows, fails, sorted(set(tags)), desc,
                NAMES_IN, NAMES_OUT)
