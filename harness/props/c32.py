"""C32 — receive CTC: CTCSkipRemover removes exactly the SKP symbols (luna/gateware/usb/usb3/physical/ctc.py)."""
from harness.common.framework import Case
from harness.common.rng import Rng
from harness.common import sim

PROP = "C32"
LEAN_MODULES = ["LunaVerif.Props.C32"]
DRIVER = "Driver/C32.lean"
REQUIRED_THEOREMS = ["skp_removal_exact", "bytes_in_buffer_le_seven", "skip_removed_iff_word_has_skp",
                     "output_words_are_consecutive_chunks"]
RULE = ("cases = stimulus mode x seed; modes: every SKP mask 0..15 in sweep order and shuffled, runs of SKP-only "
        "words, realistic SKP ordered sets (pairs) in random data, look-alikes (0x3C with ctrl=0, other K symbols), "
        "sink.valid gaps, and (co-simulation only, outside the property's environment) source.ready stalls")
ASSUMPTIONS = ["source.ready = 1 in every cycle (physical/layer.py connects rx_ctc.source to RxWordAligner.sink, "
               "whose ready is constant 1)",
               "input words carry 4 symbols (USBRawSuperSpeedStream default payload_words=4)"]
PARTIAL = ""

SKP_D, SKP_K = 0x3C, 1
MODES = ["mask-sweep", "mask-random", "skp-runs", "ordered-sets", "lookalikes", "valid-gaps", "dense-skp",
         "ready-stalls"]


def gen_cases(tier, rng):
    per = {"quick": 30, "widen": 80, "thorough": 200}[tier]
    out = []
    for mode in MODES:
        for k in range(per):
            out.append({"mode": mode, "seed": rng.u64(), "len": 500 if tier == "quick" else 2000})
    return out


def _sym(rng, kind):
    """-> (data byte, ctrl bit)"""
    if kind == "skp":
        return (SKP_D, 1)
    if kind == "d3c":        # data byte equal to the SKP value: must NOT be removed
        return (SKP_D, 0)
    if kind == "k":          # another K symbol
        return (rng.choice([0xBC, 0x5C, 0x7C, 0x9C, 0xDC, 0xFB, 0xFD, 0xFE, 0xF7, 0x3D, 0x1C]), 1)
    if kind == "d":
        return (rng.below(256), 0)
    return (rng.below(256), rng.below(2))


def _word(syms):
    d = c = 0
    for i, (b, k) in enumerate(syms):
        d |= b << (8 * i)
        c |= k << i
    return d, c


def _masked_word(rng, mask, filler="d"):
    return _word([_sym(rng, "skp") if (mask >> i) & 1 else _sym(rng, rng.choice([filler, "d", "d3c", "k"]))
                  for i in range(4)])


def make_stimulus(mode, rng, L):
    rows = []
    if mode == "mask-sweep":
        order = list(range(16))
        while len(rows) < L:
            for m in order:
                d, c = _masked_word(rng, m)
                rows.append([1, d, c, 1])
                for _ in range(rng.below(3)):
                    d, c = _masked_word(rng, 0)
                    rows.append([1, d, c, 1])
            order = rng.shuffle(order)
    elif mode == "mask-random":
        while len(rows) < L:
            d, c = _masked_word(rng, rng.below(16), filler="any")
            rows.append([1, d, c, 1])
    elif mode == "skp-runs":
        while len(rows) < L:
            for _ in range(rng.range(0, 6)):
                d, c = _masked_word(rng, rng.choice([0, 0, 0, 1, 8, 3, 12, 6]))
                rows.append([1, d, c, 1])
            for _ in range(rng.range(1, 9)):
                rows.append([1] + list(_masked_word(rng, 15)) + [1])
    elif mode == "ordered-sets":
        # a byte stream with SKP SKP pairs inserted at arbitrary byte positions, cut into words
        syms = []
        while len(syms) < 4 * L:
            syms.extend(_sym(rng, rng.weighted([(8, "d"), (1, "k"), (1, "d3c")])) for _ in range(rng.range(1, 40)))
            syms.extend([(SKP_D, 1)] * (2 * rng.range(1, 3)))
        for i in range(0, 4 * L, 4):
            d, c = _word(syms[i:i + 4])
            rows.append([1, d, c, 1])
    elif mode == "lookalikes":
        while len(rows) < L:
            w = [_sym(rng, rng.weighted([(3, "d3c"), (2, "skp"), (2, "k"), (2, "d"), (1, "any")])) for _ in range(4)]
            if rng.chance(20):   # data 0x3C with every ctrl pattern
                cm = rng.below(16)
                w = [(SKP_D, (cm >> i) & 1) for i in range(4)]
            d, c = _word(w)
            rows.append([1, d, c, 1])
    elif mode == "valid-gaps":
        p = rng.choice([20, 50, 80])
        while len(rows) < L:
            d, c = _masked_word(rng, rng.choice([0, 0, 15, rng.below(16)]))
            # an invalid word that LOOKS like SKPs must change nothing
            rows.append([1 if rng.chance(p) else 0, d, c, 1])
    elif mode == "dense-skp":
        while len(rows) < L:
            d, c = _masked_word(rng, rng.choice([7, 11, 13, 14, 15, 15, 3, 5, 9, 6, 10, 12]))
            rows.append([1 if rng.chance(90) else 0, d, c, 1])
    else:  # ready-stalls: outside the property's environment, model correspondence only
        p = rng.choice([50, 80, 95])
        while len(rows) < L:
            d, c = _masked_word(rng, rng.choice([0, 0, 0, rng.below(16)]))
            rows.append([1 if rng.chance(85) else 0, d, c, 1 if rng.chance(p) else 0])
    return rows[:L]


def _syms(d, c):
    return [((d >> (8 * i)) & 0xFF, (c >> i) & 1) for i in range(4)]


def monitor(stim, rows):
    """The property on the real trace, for source.ready = 1: the words leaving the module are, in order,
    the 4-symbol chunks of the accepted input symbol stream with every SKP (0x3C with ctrl=1) deleted,
    each chunk leaves as soon as it is complete, and never more than 7 symbols are held back."""
    fails = []
    filtered = []     # symbols accepted in earlier cycles, SKP removed
    emitted = 0
    for t, ((v, d, c, rdy), (sv, sd, sc, rem, bib, srdy)) in enumerate(zip(stim, rows)):
        assert rdy == 1
        pend = len(filtered) - emitted
        if srdy != 1:
            fails.append({"cycle": t, "sig": "sink-not-ready", "what": "sink.ready=0 with downstream always ready"})
            break
        if pend > 7 or bib != pend:
            fails.append({"cycle": t, "sig": "bytes-in-buffer", "what":
                          "bytes_in_buffer=%d but %d non-SKP symbols received and not yet output" % (bib, pend)})
            break
        if sv != int(pend >= 4):
            fails.append({"cycle": t, "sig": "source-valid", "what":
                          "source.valid=%d with %d symbols pending" % (sv, pend)})
            break
        if sv:
            want = filtered[emitted:emitted + 4]
            if _syms(sd, sc) != want:
                fails.append({"cycle": t, "sig": "output-word", "what":
                              "output word %08x/%x is not the next four non-SKP input symbols %r" % (sd, sc, want)})
                break
            emitted += 4
        has_skp = bool(v) and any(s == (SKP_D, 1) for s in _syms(d, c))
        if rem != int(has_skp):
            fails.append({"cycle": t, "sig": "skip-removed-strobe", "what":
                          "skip_removed=%d for input word %08x/%x valid=%d" % (rem, d, c, v)})
            break
        if v:
            filtered.extend(s for s in _syms(d, c) if s != (SKP_D, 1))
    return fails


def run_case(desc):
    from luna.gateware.usb.usb3.physical.ctc import CTCSkipRemover
    dut = CTCSkipRemover()
    stim = desc.get("stimulus") or make_stimulus(desc["mode"], Rng(desc["seed"]), desc.get("len", 300))
    ins = [dut.sink.valid, dut.sink.data, dut.sink.ctrl, dut.source.ready]
    outs = [dut.source.valid, dut.source.data, dut.source.ctrl, dut.skip_removed, dut.bytes_in_buffer,
            dut.sink.ready]
    rows = sim.run_cycles(dut, ins, outs, stim, domain="ss")
    always_ready = all(r[3] == 1 for r in stim)
    fails = monitor(stim, rows) if always_ready else []
    tags = {"mode=" + desc.get("mode", "replay"), "env" if always_ready else "outside-env(ready stalls)"}
    for (v, d, c, rdy) in stim:
        if v:
            m = sum(1 << i for i, s in enumerate(_syms(d, c)) if s == (SKP_D, 1))
            tags.add("mask=%d" % m)
            if any(s == (SKP_D, 0) for s in _syms(d, c)):
                tags.add("d3c-data-byte")
    for r in rows:
        tags.add("bib=%d" % r[4])
    return Case([], stim, rows, fails, sorted(tags), desc,
                ["sink.valid", "sink.data", "sink.ctrl", "source.ready"],
                ["source.valid", "source.data", "source.ctrl", "skip_removed", "bytes_in_buffer", "sink.ready"])
