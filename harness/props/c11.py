"""C11 — bulk/interrupt IN delivery (luna/gateware/usb/usb2/transfer.py: USBInTransferManager;
endpoints/stream.py: USBStreamInEndpoint).

The real USBInTransferManager (and, in some cases, the USBStreamInEndpoint wrapper driven through its
EndpointInterface) is simulated standalone.  A closed-loop host agent issues IN tokens (new_token, then
ready_for_response), watches the packet stream, and ACKs / loses the ACK / ACKs late / lets another
device's ACK pass by; a producer agent feeds transfers (lengths around multiples of the max packet size,
`last` markers, valid gaps, flush pulses); `packet_stream.ready` follows random densities.

The monitor is the host's view of the property: it reassembles the packets it saw, keeps a packet iff its
PID differs from the last one kept, and compares with what the producer handed over.
"""
from harness.common.framework import Case
from harness.common.rng import Rng
from harness.props import in_util

PROP = "C11"
LEAN_MODULES = ["LunaVerif.Props.C11", "LunaVerif.Lemmas.C11Host", "LunaVerif.Lemmas.C11Refine",
                "LunaVerif.Lemmas.C11Ends", "LunaVerif.Lemmas.C11EndsSpec"]
DRIVER = "Driver/C11.lean"
REQUIRED_THEOREMS = ["in_exactly_once", "transfer_ends_short_or_zlp", "host_data_is_prefix",
                     "at_most_two_packets_buffered", "J_reachable", "K_reachable",
                     "endsOk_packet", "endsOk_zlp_follows", "endsOk_zlp_only_when_due",
                     "host_sees_zlp_after_full_last_packet", "last_byte_ends_its_packet", "flush_sends_partial",
                     "inv_reachable", "packet_len_le_mps", "retry_repeats_pid_and_payload", "nak_when_no_packet",
                     "send_packet_streams_buffer", "read_buffer_frozen", "pid_flips_only_with_new_packet"]
RULE = ("cases = max_packet_size in {1,2,3,8,64,512} x mode; modes: 'host' (legal host + producer with transfers of "
        "0.5..3 packets, 30 % of them exact multiples of the packet size (terminating ZLP), flush pulses, the handshake of "
        "a data packet lost / late / another device's in 38 %, that of a terminating ZLP in 52 % (so retried and "
        "re-retried ZLPs are common), tokens to other endpoints; the monitor requires every IN token outside a packet to "
        "be answered: NAK or ZLP in the response cycle or data from the next one (sig no-response), and a retried ZLP to "
        "be the same ZLP with the same PID (sig zlp-retry-differs)), "
        "'zlp0' (generate_zlps=0), 'reset' (reset_sequence strobes with start_with_data1 0/1), 'discard', 'chaos' "
        "(per-cycle random inputs, model comparison only), 'ep' (the USBStreamInEndpoint wrapper with endpoint "
        "numbers and clear_endpoint_halt)")
ASSUMPTIONS = [
    "max_packet_size >= 1",
    "modelled code = /repo with fixes 778b997 (ACK gate), aa3de3e (reset_sequence vs packet_ready), 427cb3f (read address 0 in WAIT_TO_SEND)",
    "environment of in_exactly_once (LegalInEnv): discard = 0 and reset_sequence = 0 in every cycle (reset_sequence is "
    "C14's subject and is checked separately); tokens, handshakes, flush, producer and packet_stream.ready are "
    "arbitrary (the FSM takes an ACK only in WAIT_FOR_ACK, which is entered only by completing a packet); the ghost "
    "host receives every completed packet and keeps it iff its PID differs from the last kept one (DATA0 expected first)",
    "environment of transfer_ends_short_or_zlp (LegalZlpEnv): as LegalInEnv, and generate_zlps = 1 in every cycle, mps >= 1; "
    "the statement is the checker endsOk over (host-kept packets, producer's last marks): packet <= mps, a last-marked "
    "byte is the final byte of its packet, after a full-size such packet the next kept packet is a ZLP, a ZLP is kept "
    "only then",
    "the monitor's closed-loop host additionally issues an ACK strobe (with active & is_in) only after a completely "
    "transmitted packet and before the next token; ack and new_token never in the same cycle",
    "monitor clause no-response: judged for IN tokens (active & is_in & ready_for_response) outside a packet that are "
    "preceded by a new_token strobe since the last completed packet (the FSM has left WAIT_FOR_ACK) and do not coincide "
    "with reset_sequence (which takes priority over the token in WAIT_TO_SEND) or discard",
]
PARTIAL = ""

NAMES_IN = ["active", "is_in", "ready_for_response", "new_token", "ack", "s_valid", "s_payload", "s_last", "flush",
            "discard", "generate_zlps", "reset_sequence", "start_with_data1", "tx_ready"]
NAMES_OUT = ["s_ready", "valid", "first", "last", "payload", "data_pid", "nak", "buffer_toggle",
             "obs_packets", "obs_bytes", "obs_hash", "obs_produced"]


def gen_cases(tier, rng):
    plan = {"quick": [(1, 10, 500), (2, 10, 600), (3, 14, 800), (8, 12, 1200), (64, 8, 3000), (512, 4, 9000)],
            "widen": [(1, 30, 600), (2, 30, 700), (3, 40, 900), (8, 30, 1500), (64, 12, 3000)],
            }.get(tier, [(1, 50, 800), (2, 50, 900), (3, 80, 1200), (4, 30, 1200), (8, 60, 2000), (64, 40, 5000),
                         (512, 16, 16000)])
    modes = ["host", "reset", "host", "zlp0", "reset", "chaos", "host", "discard", "host", "ep"]
    out = []
    for mps, n, cyc in plan:
        for k in range(n):
            out.append({"mps": mps, "mode": modes[k % len(modes)], "cycles": cyc, "seed": rng.u64()})
    return out


class Agent:
    """Host + producer + PHY-ready, closed loop on the outputs of the previous cycle."""

    def __init__(self, rng, mps, mode):
        self.r, self.mps, self.mode = rng, mps, mode
        self.ready_p = rng.choice([100, 100, 90, 60, 25])
        self.valid_p = rng.choice([100, 90, 60, 30, 8])
        self.poll_gap = rng.choice([0, 2, 6, 20])
        self.flush_p = rng.choice([0, 0, 1, 4])
        self.flush_hold = 0
        self.active, self.is_in = 1, 1
        self.phase, self.cnt = "gap", rng.range(0, 6)
        self.plan = None
        self.left = self.pick_len()          # bytes left in the producer's current transfer
        self.byte = rng.below(256)
        self.last_ready = 0
        self.last_rfr = 0
        self.swd1 = rng.below(2) if mode == "reset" else 0
        self.genzlp = 0 if mode == "zlp0" else 1
        self.never_last = mode == "zlp0" and rng.chance(50)

    def pick_len(self):
        r, m = self.r, self.mps
        k = r.below(10)
        if k < 3:
            return m * r.choice([1, 1, 2, 2, 3])          # exact multiple: ends in a terminating ZLP
        if k < 6:
            return max(1, r.choice([1, m - 1, m, m + 1, 2 * m - 1, 2 * m, 2 * m + 1, 3 * m]))
        return r.range(1, 3 * m + 2)

    def __call__(self, t, prev):
        r = self.r
        if self.mode == "chaos":
            p = r.choice([5, 20, 50])
            v = int(r.chance(self.valid_p))
            return [int(r.chance(85)), int(r.chance(85)), int(r.chance(p)), int(r.chance(p // 2)), int(r.chance(p)),
                    v, r.below(256), int(r.chance(25)), int(r.chance(5)), int(r.chance(2)), int(r.chance(80)),
                    int(r.chance(3)), int(r.chance(50)), int(r.chance(self.ready_p))]
        nt = rfr = ack = 0
        pv = prev or (0,) * 8
        s_ready, valid, first, last, payload, pid, nak, tog = pv
        if self.phase == "gap":
            if self.cnt > 0:
                self.cnt -= 1
            else:
                self.active = int(r.chance(88))
                self.is_in = int(r.chance(94))
                nt = 1
                self.phase, self.cnt = "rfr", r.range(1, 5)
        elif self.phase == "rfr":
            self.cnt -= 1
            if self.cnt <= 0:
                rfr = 1
                self.phase = "resp"
        elif self.phase == "resp":
            # outputs of the ready_for_response cycle: NAK, a ZLP (valid & last, comb), or nothing yet
            if self.last_rfr and valid and last:
                self.after_packet("zlp")
            elif nak or not (self.active and self.is_in):
                self.phase, self.cnt = "gap", r.range(0, self.poll_gap)
            else:
                self.phase, self.cnt = "resp2", 2
        elif self.phase == "resp2":
            if valid:
                self.phase = "pkt"
            else:
                self.cnt -= 1
                if self.cnt <= 0:
                    self.phase, self.cnt = "gap", r.range(0, self.poll_gap)
        if self.phase == "pkt":
            if valid and last and self.last_ready:
                self.after_packet("data")
            elif not valid:
                self.phase, self.cnt = "gap", r.range(0, self.poll_gap)
        elif self.phase == "post":
            if self.cnt > 0:
                self.cnt -= 1
            elif self.plan == "ack":
                ack = 1
                self.phase, self.cnt = "gap", r.range(0, self.poll_gap)
            elif self.plan == "foreign":     # another device's transaction: token filtered (pid cleared), ACK broadcast
                if r.chance(50):
                    self.is_in = 0
                else:
                    self.active = 0
                self.plan, self.cnt = "foreign2", r.range(0, 3)
            elif self.plan == "foreign2":
                ack = 1
                self.phase, self.cnt = "gap", r.range(0, self.poll_gap)
            elif self.plan == "late":        # ACK after the next token: ignored by the device
                nt = 1
                self.plan, self.cnt = "late2", r.range(0, 2)
            elif self.plan == "late2":
                ack = 1
                self.phase, self.cnt = "rfr", r.range(1, 4)
            else:
                self.phase, self.cnt = "gap", r.range(0, self.poll_gap)
        # ---- producer
        v = int(r.chance(self.valid_p))
        lastbit = 0
        if prev is not None and self.pv_valid and s_ready:      # previous byte was taken
            self.left -= 1
            self.byte = r.below(256)
            if self.left <= 0:
                self.left = self.pick_len()
        lastbit = int(self.left == 1 and not self.never_last)
        self.pv_valid = v
        flush = 0
        if self.flush_hold > 0:
            self.flush_hold -= 1
            flush = 1
        elif r.chance(self.flush_p):
            flush = 1
            self.flush_hold = r.choice([0, 0, 0, 3, 20])
        discard = int(self.mode == "discard" and r.chance(1))
        rs = int(self.mode == "reset" and r.chance(3, 1000))
        if self.mode == "reset" and v and (r.chance(35) if lastbit else (self.mps <= 8 and r.chance(6))):
            rs = 1                     # the strobe coincides with the byte that completes a packet (F8 site)
        ready = int(r.chance(self.ready_p))
        self.last_ready = ready
        self.last_rfr = rfr
        return [self.active, self.is_in, rfr, nt, ack, v, self.byte, lastbit, flush, discard, self.genzlp, rs,
                self.swd1, ready]

    pv_valid = 0

    def after_packet(self, kind="data"):
        """What the host does after a completely transmitted packet.  The handshake of a terminating ZLP is lost
        (no ACK / another device's ACK / ACK after the next token) about every second time, repeatedly in a row
        with the same odds, so retried ZLPs -- and retried retries -- are common; data packets lose it in 38 %."""
        r = self.r
        if kind == "zlp":
            self.plan = r.weighted([(48, "ack"), (30, "none"), (10, "foreign"), (12, "late")])
        else:
            self.plan = r.weighted([(62, "ack"), (22, "none"), (8, "foreign"), (8, "late")])
        self.phase, self.cnt = "post", r.range(0, 5)


def monitor(mps, mode, stim, rows):
    """Host-view statement of C11 on the real trace: (failures, tags).  (Also used by C29.)"""
    fails, tags, _ = monitor_digest(mps, mode, stim, rows)
    return fails, tags


def monitor_digest(mps, mode, stim, rows):
    """Host-view statement of C11 on the real trace (modes host / zlp0; reduced checks otherwise).
    Returns (failures, tags, digest): digest[t] = [packets kept, bytes kept, rolling hash of the kept packets,
    bytes produced] after cycle t as THIS monitor sees them on the real gateware (None once a reset_sequence /
    discard was seen or the monitor stopped) -- compared with the digest of the Lean observer (the specification
    side of in_exactly_once / transfer_ends_short_or_zlp, lean/LunaVerif/Lemmas/C11Host.lean) by the framework."""
    fails, tags = [], set()
    digest = []
    khash = 0

    def fail(t, sig, what):
        if not fails:
            fails.append({"cycle": t, "sig": sig, "what": "mps=%d mode=%s: %s" % (mps, mode, what)})

    produced = []            # (byte, last) accepted from the producer
    kept = []                # host-accepted bytes
    kept_pkts = []           # host-kept packets (lists)
    last_kept_pid = None
    cur = None               # bytes of the packet in flight
    cur_pid = 0
    prev_pkt = None          # (pid, bytes, acked?) of the last completed packet
    await_ack = False        # a completed packet may still be acknowledged (no token since)
    flush_seen = False
    resets = False
    pending_reset = None     # start_with_data1 of a reset that must show in the next new packet
    last_tok_naked = False
    pending_in = None        # cycle of an IN token that got neither NAK nor a ZLP: its data packet must start now
    produced_at = []         # len(produced) at the start of each cycle
    for t, (i, o) in enumerate(zip(stim, rows)):
        active, is_in, rfr, nt, ack, sv, sp, sl, flush, discard, genz, rs, swd1, ready = i
        s_ready, valid, first, last, payload, pid, nak, tog = o
        produced_at.append(len(produced))
        intok = bool(active and is_in and rfr)
        if discard:
            tags.add("env:discard")
            return fails, sorted(tags), digest        # after a discard nothing is promised about delivery
        flush_seen = flush_seen or bool(flush)
        await_at_start = await_ack
        # ---- every IN token is answered: NAK or a ZLP in the ready_for_response cycle, else data from the next cycle
        if pending_in is not None:
            if not valid:
                what = ""
                if prev_pkt is not None and not prev_pkt[2]:
                    what = " (the un-ACKed %s DATA%d must be sent again)" % (
                        "terminating ZLP" if not prev_pkt[1] else "%d-byte packet" % len(prev_pkt[1]), prev_pkt[0])
                fail(t, "no-response", "the IN token whose response window opened in cycle %d got no response at all: "
                     "neither NAK nor a ZLP in that cycle, and no data packet starts in this one%s" % (pending_in, what))
            pending_in = None
        # ---- packets as the host sees them
        done = None
        if valid:
            if cur is None:
                if first == 0 and last == 1 and intok:
                    done = []                                  # zero-length packet
                    tags.add("zlp")
                else:
                    cur = []
                    cur_pid = pid                              # the PID goes out before the first byte
                    if not first:
                        fail(t, "first-missing", "a packet starts without first")
            if cur is not None:
                if first != int(len(cur) == 0):
                    fail(t, "first-placement", "first=%d at byte %d" % (first, len(cur)))
                if ready:
                    cur.append(payload)
                    if len(cur) > mps:
                        fail(t, "packet-too-long", "%d bytes in one packet" % len(cur))
                    if last:
                        done, cur = cur, None
                        pid = cur_pid
        elif cur is not None:
            fail(t, "valid-dropped", "valid fell inside a packet after %d bytes" % len(cur))
            cur = None
        if done is not None:
            if prev_pkt is not None and not prev_pkt[2] and not resets:
                # the previous packet was never acknowledged: this must be the same packet again
                if not prev_pkt[1]:
                    tags.add("zlp-retry")
                    if done or pid != prev_pkt[0]:
                        fail(t, "zlp-retry-differs", "the un-ACKed terminating ZLP (DATA%d) was followed by (DATA%d, %d bytes %s) "
                             "instead of the same ZLP with the same PID" % (prev_pkt[0], pid, len(done), done[:8]))
                if (pid, done) != (prev_pkt[0], prev_pkt[1]):
                    fail(t, "retry-differs", "un-ACKed packet (DATA%d, %s) was followed by (DATA%d, %s)"
                         % (prev_pkt[0], prev_pkt[1][:8], pid, done[:8]))
                tags.add("retry")
            elif prev_pkt is not None and prev_pkt[2] and not resets and pid == prev_pkt[0]:
                fail(t, "toggle-stuck", "ACKed packet DATA%d is followed by another DATA%d" % (pid, pid))
            if pending_reset is not None:
                if pid != pending_reset:
                    fail(t, "reset-next-pid", "first packet after reset_sequence(start_with_data1=%d) is DATA%d"
                         % (pending_reset, pid))
                pending_reset = None
                tags.add("reset-then-packet")
            if last_kept_pid is None and not resets:
                if pid != 0:
                    fail(t, "first-pid", "the very first packet is DATA%d" % pid)
            if last_kept_pid is None or pid != last_kept_pid:
                kept.extend(done)
                kept_pkts.append(done)
                last_kept_pid = pid
                for b in done:
                    khash = (khash * 257 + b + 1) % 1000003
                khash = khash * 257 % 1000003
            prev_pkt = [pid, done, False]
            await_ack = True
            tags.add("packet-len=mps" if len(done) == mps else ("packet-short" if done else "packet-zlp"))
            if not resets:
                want = [b for b, _ in produced[:len(kept)]]
                if kept != want:
                    fail(t, "data-mismatch", "host data after %d bytes differs from the producer's stream "
                         "(host tail %s, producer %s)" % (len(kept), kept[-6:], want[-6:]))
                if len(kept) > len(produced):
                    fail(t, "data-invented", "host holds %d bytes, producer handed over %d" % (len(kept), len(produced)))
        # ---- ACK bookkeeping (what the device must have understood)
        if ack and active and is_in and await_ack and cur is None and done is None:
            prev_pkt[2] = True
            await_ack = False
            tags.add("acked")
        elif ack:
            tags.add("ack-not-taken")
        if nt:
            if await_ack:
                tags.add("token-without-ack")
            await_ack = False
        # ---- IN token handling
        if intok and cur is None and done is None and mode in ("host", "zlp0", "ep"):
            if nak:
                tags.add("nak")
                # everything handed over two cycles ago is still un-sent: it must not contain a complete packet
                n0 = produced_at[t - 2] if t >= 2 else 0
                pend = produced[len(kept):n0]
                if prev_pkt is not None and not prev_pkt[2]:
                    pass                         # an un-ACKed packet never gets a NAK (checked below)
                elif resets:
                    pass                         # host-side bookkeeping is void after a toggle reset
                elif len(pend) >= mps or any(l for _, l in pend):
                    fail(t, "nak-with-packet", "IN token NAKed although %d un-sent bytes (with last=%s) were handed "
                         "over earlier" % (len(pend), any(l for _, l in pend)))
            if nak and prev_pkt is not None and not prev_pkt[2] and not resets:
                fail(t, "nak-while-unacked", "IN token NAKed while packet DATA%d is un-ACKed" % prev_pkt[0])
            last_tok_naked = bool(nak)
        # an IN token (all modes) outside a packet, at least one new_token after the last packet (the FSM has left
        # WAIT_FOR_ACK), no reset_sequence in the same cycle (it takes priority over the token in WAIT_TO_SEND)
        if intok and cur is None and done is None and not nak and not rs and not await_at_start:
            pending_in = t
            tags.add("in-answered-next-cycle")
        if nak and not intok:
            fail(t, "nak-unsolicited", "NAK without an IN token")
        if nak and valid:
            fail(t, "nak-and-data", "NAK and data in the same cycle")
        # ---- reset_sequence (C14's interest; here only the F8 site: no packet outstanding)
        if rs:
            resets = True
            tags.add("reset")
            if ack and active and is_in:
                tags.add("env:reset-with-ack")      # cannot coincide in a device (the strobe rides on EP0's ACK)
                pending_reset = None
            elif (prev_pkt is None or prev_pkt[2]) and cur is None and done is None:
                pending_reset = swd1
        # ---- producer side
        if sv and s_ready:
            produced.append((sp, sl))
        if not resets and len(produced) - len(kept) > 2 * mps + (mps if cur is not None or await_ack else 0):
            fail(t, "overbuffered", "%d bytes accepted but not delivered (two buffers of %d)" % (len(produced) - len(kept), mps))
        digest.append(None if resets else [len(kept_pkts), len(kept), khash, len(produced)])
        if fails:
            break
    # ---- transfer boundaries as the host sees them (ZLP generation on, no flush, no reset)
    if not fails and not flush_seen and not resets and mode in ("host", "ep"):
        host_tr, acc = [], []
        for p in kept_pkts:
            acc.extend(p)
            if len(p) < mps:
                host_tr.append(acc)
                acc = []
        prod_tr, acc = [], []
        for b, l in produced:
            acc.append(b)
            if l:
                prod_tr.append(acc)
                acc = []
        if host_tr != prod_tr[:len(host_tr)]:
            k = next((j for j, (a, b) in enumerate(zip(host_tr, prod_tr)) if a != b), len(prod_tr))
            fail(len(stim) - 1, "transfer-boundary", "transfer %d: host saw %d bytes ending in a short packet, producer "
                 "sent %s" % (k, len(host_tr[k]) if k < len(host_tr) else -1,
                              len(prod_tr[k]) if k < len(prod_tr) else "nothing more"))
        if any(len(x) % mps == 0 for x in host_tr):
            tags.add("transfer-ended-by-zlp")
        tags.add("transfers>=2" if len(host_tr) >= 2 else "transfers<2")
    if flush_seen:
        tags.add("flush")
    return fails, sorted(tags), digest


def digest_row(digest, t):
    d = digest[t] if t < len(digest) else None
    return list(d) if d is not None else [None, None, None, None]


def run_case(desc):
    from luna.gateware.usb.usb2.transfer import USBInTransferManager
    mps, mode = desc["mps"], desc.get("mode", "host")
    if mode == "ep":
        return run_ep_case(desc)
    d = USBInTransferManager(mps)
    ins = [d.active, d.tokenizer.is_in, d.tokenizer.ready_for_response, d.tokenizer.new_token, d.handshakes_in.ack,
           d.transfer_stream.valid, d.transfer_stream.payload, d.transfer_stream.last, d.flush, d.discard,
           d.generate_zlps, d.reset_sequence, d.start_with_data1, d.packet_stream.ready]
    outs = [d.transfer_stream.ready, d.packet_stream.valid, d.packet_stream.first, d.packet_stream.last,
            d.packet_stream.payload, d.data_pid, d.handshakes_out.nak, d.buffer_toggle]
    stim, rows = in_util.run(d, ins, outs, desc, lambda: Agent(Rng(desc["seed"]), mps, mode), desc.get("cycles", 800))
    if mode == "chaos":
        fails, tags, digest = [], [], []
    else:
        fails, tags, digest = monitor_digest(mps, mode, stim, rows)
    tags += ["mode=" + mode, "mps=%d" % mps]
    if any(d is not None for d in digest):
        tags.append("observer-digest-compared")
    outputs = [[o[0], o[1], o[2], o[3], (o[4] if o[1] else None), o[5], o[6], o[7]] + digest_row(digest, t)
               for t, o in enumerate(rows)]
    return Case([mps], stim, outputs, fails, tags, desc, NAMES_IN, NAMES_OUT)


def run_ep_case(desc):
    """The USBStreamInEndpoint wrapper: same transfer manager behind an EndpointInterface (endpoint number match,
    generate_zlps tied to 1, clear_endpoint_halt decode).  Inputs are mapped to the manager's and the same
    model is used."""
    from luna.gateware.usb.usb2.endpoints.stream import USBStreamInEndpoint
    mps = desc["mps"]
    rng = Rng(desc["seed"])
    ep = rng.range(1, 15)
    d = USBStreamInEndpoint(endpoint_number=ep, max_packet_size=mps)
    itf = d.interface
    ch = itf.clear_endpoint_halt_in
    ins = [itf.tokenizer.endpoint, itf.tokenizer.is_in, itf.tokenizer.ready_for_response, itf.tokenizer.new_token,
           itf.handshakes_in.ack, d.stream.valid, d.stream.payload, d.stream.last, d.flush, d.discard,
           ch.enable, ch.direction, ch.number, itf.tx.ready]
    outs = [d.stream.ready, itf.tx.valid, itf.tx.first, itf.tx.last, itf.tx.payload, itf.tx_pid_toggle,
            itf.handshakes_out.nak]
    agent = Agent(rng.fork("agent"), mps, "reset" if rng.chance(40) else "host")
    agent.swd1 = 0
    other = (ep + rng.range(1, 15)) % 16
    r2 = rng.fork("ep")

    def ep_agent(t, prev):
        pv = None if prev is None else tuple(prev) + (0,)
        a = agent(t, pv)
        active, is_in, rfr, nt, ack, v, b, l, flush, disc, genz, rs, swd1, ready = a
        # reset_sequence := clear_endpoint_halt for (this endpoint, IN); also issue non-matching ones
        en, direction, number = 0, 0, 0
        if rs:
            en, direction, number = 1, 1, ep
        elif r2.chance(2):
            en, direction, number = 1, r2.below(2), r2.choice([ep, other])
            if direction == 1 and number == ep:
                direction = 0
        return [ep if active else other, is_in, rfr, nt, ack, v, b, l, flush, disc, en, direction, number, ready]

    if desc.get("stimulus"):
        # replay: rows are in the manager's format followed by the wrapper-only columns
        stim = [[r[14], r[1], r[2], r[3], r[4], r[5], r[6], r[7], r[8], r[9], r[15], r[16], r[17], r[13]]
                for r in desc["stimulus"]]
        from harness.common import sim
        rows = sim.run_cycles(d, ins, outs, stim, domain="usb")
    else:
        stim, rows = in_util.run_closed(d, ins, outs, ep_agent, desc.get("cycles", 800))
    # map to the manager's ports (the Lean driver reads the first 14 columns; the rest is kept for replays)
    mstim = []
    for r in stim:
        endpoint, is_in, rfr, nt, ack, v, b, l, flush, disc, en, direction, number, ready = r
        rs = int(bool(en and direction and number == ep))
        mstim.append([int(endpoint == ep), is_in, rfr, nt, ack, v, b, l, flush, disc, 1, rs, 0, ready,
                      endpoint, en, direction, number])
    fails, tags, digest = monitor_digest(mps, "ep", [r[:14] for r in mstim], [tuple(o) + (0,) for o in rows])
    tags += ["mode=ep", "mps=%d" % mps]
    outputs = [[o[0], o[1], o[2], o[3], (o[4] if o[1] else None), o[5], o[6], None] + digest_row(digest, t)
               for t, o in enumerate(rows)]
    return Case([mps], mstim, outputs, fails, tags, desc,
                NAMES_IN + ["(endpoint)", "(halt_enable)", "(halt_direction)", "(halt_number)"], NAMES_OUT)
