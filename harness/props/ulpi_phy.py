"""Shared by C22, C23, C24: construction of the real ULPI gateware from the repository, a behavioural
ULPI 1.1 PHY + UTMI transmitter + control-input process that *reacts* to the gateware cycle by
cycle, and passive observers (written from the ULPI text, independent of the Lean model) used by the
property monitors.

Row formats (one row per `usb` clock cycle, testbench order set inputs / read outputs / tick):

  UTMI_IN   dir nxt data_i tx_data tx_valid xcvr_select term_select op_mode suspend id_pullup
            dm_pulldown dp_pulldown chrg_vbus dischrg_vbus use_external_vbus_indicator
  UTMI_OUT  data_o oe stp tx_ready busy rx_data rx_valid rx_active last_rx_command line_state
            vbus_valid session_valid session_end rx_error host_disconnect id_digital
"""
from harness.common import sim  # noqa: F401  (puts the repository on sys.path and checks it)
from harness.common.rng import Rng

UTMI_IN = ["dir", "nxt", "data_i", "tx_data", "tx_valid", "xcvr_select", "term_select", "op_mode", "suspend",
           "id_pullup", "dm_pulldown", "dp_pulldown", "chrg_vbus", "dischrg_vbus", "use_external_vbus_indicator"]
UTMI_OUT = ["data_o", "oe", "stp", "tx_ready", "busy", "rx_data", "rx_valid", "rx_active", "last_rx_command",
            "line_state", "vbus_valid", "session_valid", "session_end", "rx_error", "host_disconnect", "id_digital"]
CTRL = UTMI_IN[5:]
CTRL_WIDTH = {"xcvr_select": 2, "op_mode": 2}
I = {n: k for k, n in enumerate(UTMI_IN)}
O = {n: k for k, n in enumerate(UTMI_OUT)}

CYCLES_1_MS = 60000


# ------------------------------------------------------------------------------------------------
# the real gateware
# ------------------------------------------------------------------------------------------------

def make_ulpi_record(has_rst):
    """A ULPI bus record shaped like the platform resources UTMITranslator is written for
    (data.i/o/oe, nxt.i, stp.o, dir.i, optionally rst.o).  `ULPIInterface()` itself cannot be passed to
    UTMITranslator: its nxt/stp members are plain signals and the translator accesses `.nxt.i`."""
    from amaranth.hdl.rec import Record, DIR_FANIN, DIR_FANOUT
    layout = [('data', [('i', 8, DIR_FANIN), ('o', 8, DIR_FANOUT), ('oe', 1, DIR_FANOUT)]),
              ('clk', 1, DIR_FANOUT),
              ('nxt', [('i', 1, DIR_FANIN)]),
              ('stp', [('o', 1, DIR_FANOUT)]),
              ('dir', [('i', 1, DIR_FANIN)])]
    if has_rst:
        layout.append(('rst', [('o', 1, DIR_FANOUT)]))
    return Record(layout)


def make_translator(has_rst=False):
    from luna.gateware.interface.ulpi import UTMITranslator
    ulpi = make_ulpi_record(has_rst)
    dut = UTMITranslator(ulpi=ulpi, handle_clocking=False)
    ins = [ulpi.dir.i, ulpi.nxt.i, ulpi.data.i, dut.tx_data, dut.tx_valid] + [getattr(dut, n) for n in CTRL]
    outs = [ulpi.data.o, ulpi.data.oe, ulpi.stp.o, dut.tx_ready, dut.busy, dut.rx_data, dut.rx_valid,
            dut.rx_active, dut.last_rx_command] + [getattr(dut, n) for n in UTMI_OUT[9:]]
    return dut, ins, outs


def run_reactive(dut, ins, outs, n_cycles, agent=None, stimulus=None, domain="usb", preload=None):
    """Simulate the real gateware.  With `stimulus` the rows are applied open loop (replays); otherwise
    `agent.inputs(t)` supplies the row of cycle t and `agent.observe(t, row_in, row_out)` sees the
    gateware's outputs of the same cycle before the clock edge.  `preload` = (signal name, value):
    force an internal register at time 0 (used only to shorten the 1 ms start-up timer)."""
    from amaranth.sim import Simulator
    top = sim._Wrap(dut, [domain])
    s = Simulator(top)
    s.add_clock(1e-6, domain=domain)
    rows_in, rows_out = [], []
    imask = [(1 << len(x)) - 1 for x in ins]
    omask = [(1 << len(x)) - 1 for x in outs]
    pre = []
    if preload:
        # look the register up in the simulator's own elaboration (signals created inside
        # `elaborate` differ between elaborations)
        sigs = []
        for frag in s._design.fragments:
            for _dom, stmts in frag.statements.items():
                for st in stmts:
                    for sg in st._lhs_signals():
                        if sg.name == preload[0] and not any(sg is x for x in sigs):
                            sigs.append(sg)
        assert len(sigs) == 1, "cannot find register %s" % preload[0]
        pre = [(sigs[0], preload[1])]

    async def tb(ctx):
        for sig, v in pre:
            ctx.set(sig, v)
        n = len(stimulus) if stimulus is not None else n_cycles
        for t in range(n):
            row = stimulus[t] if stimulus is not None else agent.inputs(t)
            row = [int(v) & m for v, m in zip(row, imask)]
            for sg, v in zip(ins, row):
                ctx.set(sg, v)
            out = [ctx.get(o) & m for o, m in zip(outs, omask)]
            if stimulus is None:
                agent.observe(t, row, out)
            rows_in.append(row)
            rows_out.append(out)
            await ctx.tick(domain)

    s.add_testbench(tb)
    s.run()
    return rows_in, rows_out


# ------------------------------------------------------------------------------------------------
# behavioural PHY + UTMI transmitter + control inputs
# ------------------------------------------------------------------------------------------------

def function_control(c):
    return (c["xcvr_select"] & 3) | (c["term_select"] & 1) << 2 | (c["op_mode"] & 3) << 3 | ((~c["suspend"]) & 1) << 6


def otg_control(c):
    return (c["id_pullup"] | c["dp_pulldown"] << 1 | c["dm_pulldown"] << 2 | c["dischrg_vbus"] << 3
            | c["chrg_vbus"] << 4 | c["use_external_vbus_indicator"] << 7)


DEFAULT_CTRL = {"xcvr_select": 1, "term_select": 0, "op_mode": 0, "suspend": 0, "id_pullup": 0, "dm_pulldown": 1,
                "dp_pulldown": 1, "chrg_vbus": 0, "dischrg_vbus": 0, "use_external_vbus_indicator": 0}


def random_ctrl(rng):
    return {n: rng.below(1 << CTRL_WIDTH.get(n, 1)) for n in CTRL}


def random_rxcmd(rng, active, error_ok=True):
    """An RxCmd byte with the requested RxActive bit (bit 4)."""
    ls = rng.below(4)
    vbus = rng.below(4)
    if active:
        ev = 3 if (error_ok and rng.chance(8)) else 1
    else:
        ev = 2 if rng.chance(8) else 0
    return ls | vbus << 2 | ev << 4 | rng.below(2) << 6 | (rng.below(2) << 7 if rng.chance(5) else 0)


class Agent:
    """The environment of the translator.  All random decisions come from one Rng, so a case is
    reproducible from its seed; the rows it produced are also stored in replays.

    params (all optional):
      rx_rate      per-mille probability, per idle cycle, that the PHY starts a DIR-high episode
      abort_rate   per-mille probability that the PHY raises DIR while the link is mid-command
      nxt_delay    maximum number of cycles the PHY waits before accepting a presented byte
      throttle     per-cent probability of NXT low in a cycle of a running transmit
      tx_rate      per-mille probability per cycle that the UTMI side starts a packet when idle
      max_len      maximum packet length
      ctrl_mode    'const' | 'quiet' (change only when everything is idle, then wait) | 'wild'
      ctrl_rate    per-mille probability per cycle of a control change (subject to ctrl_mode)
      illegal_rx   allow PHY receive behaviour outside LegalUlpiPhy (monitors skip such cases)
      spurious_nxt per-mille probability of NXT while nothing is presented (not a legal PHY)
      tx_gap_min   minimum number of tx_valid-low cycles between packets (>= 1)
      start_quiet  number of initial cycles in which the PHY and the transmitter stay silent
      abort_tx     whether the PHY may raise DIR in the middle of a link transmission
      blip_rate    per-mille probability per quiet cycle (everything idle) of a control-input "blip": one control input
                   changes, goes back to its previous value 1..6 cycles later (typically while the register write it
                   caused is still on the bus), and the UTMI transmitter starts a packet 0..8 cycles after that whatever
                   the translator's busy output says (0 = never; no random draw is made then)
      pend_abort   per-cent probability, per presentation of a transmit command (0x4x on the bus, not yet
                   accepted), that the PHY starts a receive instead of accepting it, in one of the cycles in
                   which it would still have been waiting or in the very cycle it would have accepted - mostly
                   with DIR and NXT rising together (0 = never; no random draw is made then)
      tx_wait_idle the transmitter starts a packet only when the translator reports not busy and the
                   control inputs have been stable for 4 cycles
    """

    def __init__(self, rng, params, ctrl0=None):
        self.rng = rng
        self.p = dict(rx_rate=15, abort_rate=0, nxt_delay=3, throttle=30, tx_rate=30, max_len=12,
                      ctrl_mode="const", ctrl_rate=10, illegal_rx=False, spurious_nxt=0, tx_gap_min=1,
                      start_quiet=0, rx_max_items=14, tx_wait_idle=False, abort_tx=True, pend_abort=0, blip_rate=0)
        self.p.update(params or {})
        self.ctrl = dict(ctrl0 or DEFAULT_CTRL)
        # PHY state
        self.phy = "idle"          # idle | tx | wdata | wstp | episode
        self.wait = 0              # cycles still to wait before accepting the presented byte
        self.presented = False     # a non-NOP byte was on the bus in the previous cycle
        self.episode = []          # remaining (dir, nxt, data) rows of the DIR-high episode
        self.last_bit = 0          # bit 4 of the last RxCmd sent (what the decoder remembers)
        self.after_dir = 0         # cycles since DIR fell (turnaround)
        self.pend_abort_at = -1    # value of `wait` at which the pending transmit command is pre-empted by a receive
        # UTMI transmitter state
        self.tx_bytes = None
        self.tx_pos = 0
        self.tx_gap = 3
        # control process
        self.since_change = 0
        self.idle_run = 0
        self.blip = None           # control blip in progress: dict(n, old, revert_in, tx_in)
        self.force_tx = False
        self.prev_out = None
        self.tags = set()

    # --- PHY receive episodes ---------------------------------------------------------------
    def make_episode(self, nxt_start=None):
        """A DIR-high episode obeying ULPI 1.1 3.8.2.4 (and the LegalUlpiPhy predicate) unless
        illegal_rx is set: turnaround; RxCmds (NXT low) and, while RxActive, data bytes (NXT high)."""
        rng = self.rng
        rows = []
        if nxt_start is None:
            nxt_start = rng.chance(55)
        rows.append((1, int(nxt_start), rng.below(256)))          # turnaround cycle, data undefined
        act = nxt_start
        just = False
        n_items = rng.range(0, self.p["rx_max_items"])
        if nxt_start:
            self.tags.add("rx-start-dir-nxt")
            if self.last_bit == 0 or rng.chance(85):
                rows.append((1, 0, random_rxcmd(rng, True)))       # the RxCmd announcing RxActive
                self.last_bit = 1
        for _ in range(n_items):
            k = rng.below(100)
            if act and not just and k < 70:
                rows.append((1, 1, rng.below(256)))
                self.tags.add("rx-data")
                continue
            if act:
                if k < 85:
                    rows.append((1, 0, random_rxcmd(rng, True)))   # mid-packet RxCmd, RxActive still 1
                    self.last_bit = 1
                    just = False
                    self.tags.add("rx-rxcmd-midpacket")
                elif self.last_bit == 1:
                    rows.append((1, 0, random_rxcmd(rng, False)))  # end of packet by RxCmd
                    self.last_bit = 0
                    act = False
                    self.tags.add("rx-end-rxcmd")
            else:
                if k < 50 or self.last_bit == 1:
                    rows.append((1, 0, random_rxcmd(rng, False)))
                    self.last_bit = 0
                    self.tags.add("rx-rxcmd-idle")
                else:
                    rows.append((1, 0, random_rxcmd(rng, True)))   # start of a packet by RxCmd
                    self.last_bit = 1
                    act = True
                    just = True
                    self.tags.add("rx-start-rxcmd")
        if act:
            self.tags.add("rx-end-dir")
        if self.p["illegal_rx"]:
            # sprinkle protocol violations: data without RxActive, data right after the start RxCmd, …
            for _ in range(rng.range(1, 3)):
                pos = rng.range(1, len(rows))
                rows.insert(pos, (1, rng.below(2), rng.below(256)))
            self.last_bit = None
            self.tags.add("rx-illegal")
        return rows

    # --- per cycle ---------------------------------------------------------------------------
    def inputs(self, t):
        rng, p = self.rng, self.p
        quiet = t < p["start_quiet"]
        po = self.prev_out
        # what the PHY saw at the last clock edge (nothing while it was driving the bus itself)
        bus = po[O["data_o"]] if (po and po[O["oe"]]) else 0
        stp = po[O["stp"]] if (po and po[O["oe"]]) else 0
        dir_, nxt, data_i = 0, 0, 0
        # ---------------- PHY
        if self.phy == "episode":
            dir_, nxt, data_i = self.episode.pop(0)
            if not self.episode:
                self.phy = "idle"
                self.after_dir = 0
                self.presented = False
        else:
            self.after_dir += 1
            start_ep = False
            if not quiet:
                if self.after_dir < 2:
                    pass                 # at least one DIR-low cycle between two episodes
                elif self.phy == "idle" and bus == 0 and rng.below(1000) < p["rx_rate"]:
                    start_ep = True
                elif (self.phy != "idle" or bus != 0) and (p["abort_tx"] or self.phy != "tx") \
                        and rng.below(1000) < p["abort_rate"]:
                    start_ep = True
                    self.tags.add("phy-abort-" + self.phy)
            if start_ep:
                self.episode = self.make_episode()
                dir_, nxt, data_i = self.episode.pop(0)
                self.phy = "episode" if self.episode else "idle"
                self.after_dir = 0
                self.presented = False
            elif self.phy == "idle":
                # a command byte seen on the bus at the last clock edge may be accepted now
                if bus != 0 and not stp and self.after_dir >= 2:
                    if not self.presented:
                        self.presented = True
                        self.wait = rng.range(0, p["nxt_delay"])
                        self.pend_abort_at = -1
                        if p["pend_abort"] and bus >> 6 == 1 and not quiet and rng.below(100) < p["pend_abort"]:
                            self.pend_abort_at = rng.range(0, self.wait)
                    if self.pend_abort_at == self.wait:
                        # a packet arrives from the bus before the PHY has taken the transmit command
                        self.pend_abort_at = -1
                        self.episode = self.make_episode(nxt_start=rng.chance(85))
                        dir_, nxt, data_i = self.episode.pop(0)
                        self.phy = "episode" if self.episode else "idle"
                        self.after_dir = 0
                        self.presented = False
                        self.tags.add("rx-preempts-pending-txcmd" + ("-dir-nxt" if nxt else ""))
                    elif self.wait == 0:
                        nxt = 1
                    else:
                        self.wait -= 1
                else:
                    self.presented = False
                    if p["spurious_nxt"] and rng.below(1000) < p["spurious_nxt"]:
                        nxt = 1
                        self.tags.add("spurious-nxt")
            elif self.phy == "tx":
                nxt = 0 if rng.chance(p["throttle"]) else 1
            elif self.phy == "wdata":
                if self.wait == 0:
                    nxt = 1
                else:
                    self.wait -= 1
            elif self.phy == "wstp":
                nxt = 0
        self.cur_phy = (dir_, nxt, data_i)
        # ---------------- control inputs
        mode = p["ctrl_mode"]
        self.since_change += 1
        self.idle_run = self.idle_run + 1 if (po is not None and po[O["busy"]] == 0) else 0
        if self.blip is not None:
            b = self.blip
            if b["revert_in"] is not None:
                b["revert_in"] -= 1
                if b["revert_in"] <= 0:
                    self.ctrl[b["n"]] = b["old"]
                    self.since_change = 0
                    b["revert_in"] = None
            elif b["tx_in"] > 0:
                b["tx_in"] -= 1
            if b["revert_in"] is None and b["tx_in"] <= 0:
                self.force_tx = True
                self.blip = None
        elif p["blip_rate"] and not quiet and po is not None and po[O["busy"]] == 0 and self.tx_bytes is None \
                and self.phy == "idle" and bus == 0 and self.idle_run >= 4 and self.since_change > 4 \
                and rng.below(1000) < p["blip_rate"]:
            n = rng.choice(CTRL)
            w = 1 << CTRL_WIDTH.get(n, 1)
            old = self.ctrl[n]
            self.ctrl[n] = (old + 1 + rng.below(w - 1)) % w
            self.blip = {"n": n, "old": old, "revert_in": rng.range(1, 6), "tx_in": rng.range(0, 8)}
            self.since_change = 0
            self.tags.add("ctrl-blip")
        if self.blip is not None or self.force_tx:
            pass
        elif mode != "const" and not quiet:
            if mode == "wild":
                if rng.below(1000) < p["ctrl_rate"]:
                    self.change_ctrl()
            elif mode == "quiet":
                idle_now = po is not None and po[O["busy"]] == 0 and self.tx_bytes is None and self.phy == "idle" \
                    and bus == 0
                if idle_now and self.idle_run >= 4 and self.since_change > 4 and rng.below(1000) < p["ctrl_rate"]:
                    self.change_ctrl()
        # ---------------- UTMI transmitter
        tx_valid, tx_data = 0, 0
        hold_off = p["tx_wait_idle"] and (self.idle_run < 3 or self.since_change < 4)
        if self.blip is not None:
            hold_off = True              # the packet that follows the blip starts when the blip says so
        force = self.force_tx and self.tx_bytes is None
        self.force_tx = False
        if force:
            self.tags.add("tx-after-ctrl-blip" + ("-while-busy" if (po is not None and po[O["busy"]]) else ""))
        if self.tx_bytes is None and not quiet and (force or not hold_off):
            if self.tx_gap > 0 and not force:
                self.tx_gap -= 1
            elif force or rng.below(1000) < p["tx_rate"]:
                n = rng.weighted([(3, 1), (3, 2), (2, 3), (6, rng.range(1, p["max_len"]))])
                self.tx_bytes = rng.bytes(n)
                self.tx_pos = 0
                self.tags.add("tx-len-%s" % (n if n <= 3 else ">3"))
        if self.tx_bytes is not None:
            tx_valid, tx_data = 1, self.tx_bytes[self.tx_pos]
        else:
            tx_data = rng.below(256) if rng.chance(30) else 0
        row = [dir_, nxt, data_i, tx_data, tx_valid] + [self.ctrl[n] for n in CTRL]
        return row

    def change_ctrl(self):
        rng = self.rng
        k = rng.below(100)
        if k < 50:       # one signal
            n = rng.choice(CTRL)
            self.ctrl[n] = rng.below(1 << CTRL_WIDTH.get(n, 1))
        elif k < 80:     # signals of both registers at once
            for n in (rng.choice(CTRL[:4]), rng.choice(CTRL[4:])):
                self.ctrl[n] = rng.below(1 << CTRL_WIDTH.get(n, 1))
        elif k < 90:
            self.ctrl = random_ctrl(rng)
        else:            # back to the reset defaults of the PHY (a revert)
            self.ctrl = dict(DEFAULT_CTRL)
        self.since_change = 0
        self.tags.add("ctrl-change")

    def observe(self, t, row, out):
        dir_, nxt, _ = self.cur_phy
        bus, stp = out[O["data_o"]], out[O["stp"]]
        # PHY bus parser (what the PHY believes is going on), DIR low only
        if dir_:
            if self.phy != "episode":
                self.phy = "idle"
        elif self.phy == "idle":
            if nxt and bus >> 6 == 1:
                self.phy = "tx"
            elif nxt and bus >> 6 == 2:
                self.phy = "wdata"
                self.wait = 0 if self.rng.chance(80) else self.rng.range(0, self.p["nxt_delay"])
                self.tags.add("phy-regwrite")
            elif nxt and bus >> 6 == 3:
                self.tags.add("phy-regread-cmd")
        elif self.phy == "tx":
            if stp:
                self.phy = "idle"
                self.presented = False
        elif self.phy == "wdata":
            if nxt:
                self.phy = "wstp"
        elif self.phy == "wstp":
            self.phy = "idle"
            self.presented = False
        # UTMI transmitter: advance on tx_ready
        if self.tx_bytes is not None and out[O["tx_ready"]]:
            self.tx_pos += 1
            if self.tx_pos >= len(self.tx_bytes):
                self.tx_bytes = None
                self.tx_gap = self.p["tx_gap_min"] + (self.rng.below(6) if self.rng.chance(60) else 0)
        self.prev_out = out


# ------------------------------------------------------------------------------------------------
# passive observers, written from the ULPI 1.1 text
# ------------------------------------------------------------------------------------------------

def phy_rx_view(rows_in, regop=None):
    """The PHY's own account of its receive activity.  Per cycle returns a dict with
       data   : byte presented as packet data in this cycle (or None)
       act    : the PHY's RxActive after this cycle (conveyed by DIR∧NXT, RxCmd bit 4, DIR low)
       last   : the most recent RxCmd byte after this cycle
       legal  : the history up to and including this cycle satisfies LegalUlpiPhy
    `regop[t]` marks cycles in which the data lines carry register-read data."""
    prev_dir, act, last, just, legal = 0, 0, 0, 0, 1
    view = []
    for t, r in enumerate(rows_in):
        d, n, x = r[0], r[1], r[2]
        ro = bool(regop[t]) if regop is not None else False
        data = None
        if not d:
            if prev_dir and n:
                legal = 0            # NXT high in the turnaround cycle after DIR fell
            act, just = 0, 0
        elif not prev_dir:
            act, just = (1 if n else 0), 0
        elif n:
            if act and not just:
                data = x
            else:
                legal = 0
            just = 0
        elif ro:
            just = 0
        else:
            new = (x >> 4) & 1
            lastbit = (last >> 4) & 1
            if new and not act:
                if lastbit:
                    legal = 0
                act, just = 1, 1
            elif new:
                just = 0
            elif act:
                if not lastbit:
                    legal = 0
                act, just = 0, 0
            else:
                just = 0
            last = x
        prev_dir = d
        view.append({"data": data, "act": act, "last": last, "legal": legal})
    return view


class PhyBusObserver:
    """What the PHY received from the link: register writes (cmd, data, STP uninterrupted) and
    transmitted packets.  Mirrors ULPI 1.1 3.8.2 / 3.8.3; DIR high aborts whatever was going on."""

    def __init__(self):
        self.state = "idle"
        self.addr = self.val = 0
        self.regs = {0x04: 0x41, 0x0A: 0x06}
        self.other_writes = 0
        self.writes = []        # (cycle of STP, addr, value)
        self.packets = []       # dicts: start, cmd, bytes[(cycle, byte)], stp_cycle, stp_data, aborted
        self.cur = None

    def step(self, t, dir_, nxt, bus, stp):
        if dir_:
            if self.cur is not None:
                self.cur["aborted"] = True
                self.packets.append(self.cur)
                self.cur = None
            self.state = "idle"
            return
        if self.state == "idle":
            if nxt and bus >> 6 == 2:
                self.state, self.addr = "wdata", bus & 63
            elif nxt and bus >> 6 == 1:
                self.state = "tx"
                self.cur = {"start": t, "cmd": bus, "bytes": [], "stp_cycle": None, "stp_data": None,
                            "aborted": False}
        elif self.state == "tx":
            if stp:
                self.cur["stp_cycle"], self.cur["stp_data"] = t, bus
                self.packets.append(self.cur)
                self.cur = None
                self.state = "idle"
            elif nxt:
                self.cur["bytes"].append((t, bus))
        elif self.state == "wdata":
            if nxt:
                self.state, self.val = "wstp", bus
        elif self.state == "wstp":
            if stp:
                if self.addr in self.regs:
                    self.regs[self.addr] = self.val
                else:
                    self.other_writes += 1
                self.writes.append((t, self.addr, self.val))
            self.state = "idle"


def bus_code(state):
    return {"idle": 0, "tx": 1, "wdata": 2, "wstp": 3}[state]


def ctrl_of_row(r):
    return {n: r[I[n]] for n in CTRL}
