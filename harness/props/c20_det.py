"""C20, the CLOSED cycle-level device: the real `USBDevice` (control endpoint with the standard request handlers, one
bulk IN, one bulk OUT and one status endpoint) against the Lean model `DevDet` (sub-model 3 of Driver/C20.lean,
lean/LunaVerif/Model/Device/DevDetProto.lean) = packet layer `DevCyc` + `InXfer` / `StreamOutEndpoint` / `SignalIn` +
endpoint multiplexer + control endpoint closed loop `sys2Step` + setup decoder FSM and deserializer + handshake detector,
wired as `Lemmas/C20Device.lean`, `C20DeviceCtl.lean`, `C20DeviceDec.lean`, `C20DeviceDet.lean` wire them.  This is the
model the theorems `det_closed_tx_never_during_rx` / `_transmitters_exclusive` / `_tx_only_in_response_window` are about.

Nothing a module of the device drives is an input of the model: per cycle it gets the UTMI receive lines, `tx_ready`,
the reset sequencer's transmitter, the user side of the endpoint streams (bulk IN `stream.valid/payload/last`, `flush`,
`discard`; bulk OUT `stream.ready`; the status endpoint's `signal`) and the two `USBDevice` registers the models leave
open (`address`, `configuration`), all sampled from the real design.  Compared in every cycle: UTMI `tx_valid`/`tx_data`,
both transmitters' `tx.valid`, the post-multiplexer `shared` interface (handshake requests, tx stream, tx_pid_toggle), the
pre-multiplexer `EndpointInterface` outputs of all four endpoints, the setup decoder's `packet.received` / `ack` /
`new_packet` (= `timer.start`), the handshake detector's `ack`; and the two assumption columns of the theorems evaluated
by the driver on the cycle (`hostOk`, `decOk3`), expected 1.
"""
from harness.props import c20_cyc as CY

NAMES_IN = ["rx_active", "rx_valid", "rx_data", "tx_ready", "address", "rs_valid", "rs_data",
            "in_valid", "in_payload", "in_last", "in_flush", "in_discard", "out_ready", "signal", "configuration"]
NAMES_OUT = ["tx_valid", "tx_data", "hs_valid", "gen_valid",
             "sh_ack", "sh_nak", "sh_stall", "sh_valid", "sh_first", "sh_last", "sh_payload", "sh_pid_toggle",
             "ctl_ack", "ctl_nak", "ctl_stall", "ctl_valid", "ctl_first", "ctl_last", "ctl_payload",
             "in_nak", "in_tx_valid", "in_tx_first", "in_tx_last", "in_tx_payload",
             "out_ack", "out_nak",
             "sig_valid", "sig_first", "sig_last", "sig_payload",
             "dec_received", "dec_ack", "dec_new_packet", "det_ack",
             "hostOk", "decOk3"]


def fits(spec):
    """The closed model has exactly one bulk IN, one bulk OUT, one status endpoint and the standard handler only."""
    kinds = [e[0] for e in spec["eps"]]
    return sorted(kinds) == ["in", "out", "sig"] and not spec.get("handlers")


class DetHarness(CY.CycHarness):
    def __init__(self, spec, timing_rng=None):
        super().__init__(spec, timing_rng)
        if not fits(spec):
            raise ValueError("spec does not fit the closed model: %r" % (spec["eps"],))
        eps = {e[0]: e for e in spec["eps"]}
        self.ep_in = self.endpoints[("in", eps["in"][1])]
        self.ep_out = self.endpoints[("out", eps["out"][1])]
        self.ep_sig = self.endpoints[("sig", eps["sig"][1])]
        u = self.utmi
        rs_valid, rs_data = self.sig_in[15], self.sig_in[16]
        self.det_in = [u.rx_active, u.rx_valid, u.rx_data, u.tx_ready, self.address, rs_valid, rs_data,
                       self.ep_in.stream.valid, self.ep_in.stream.payload, self.ep_in.stream.last, self.ep_in.flush,
                       self.ep_in.discard, self.ep_out.stream.ready, self.ep_sig.signal, self.configuration]
        sh_sigs = self.sig_in[5:13]            # ack nak stall s_valid s_first s_last s_payload pid_toggle (post-multiplexer)
        ci, ii, oi, si = (self.control.interface, self.ep_in.interface, self.ep_out.interface, self.ep_sig.interface)
        sd = ("dev", "USBControlEndpoint", "setup_decoder")
        self.det_out = (list(self.sig_out[0:4]) + list(sh_sigs) +
                        [ci.handshakes_out.ack, ci.handshakes_out.nak, ci.handshakes_out.stall, ci.tx.valid, ci.tx.first,
                         ci.tx.last, ci.tx.payload,
                         ii.handshakes_out.nak, ii.tx.valid, ii.tx.first, ii.tx.last, ii.tx.payload,
                         oi.handshakes_out.ack, oi.handshakes_out.nak,
                         si.tx.valid, si.tx.first, si.tx.last, si.tx.payload,
                         self.signal("received", sd), self.signal("ack", sd, registered=False),
                         self.signal("new_packet", sd + ("data_handler",)),
                         self.signal("ack", ("dev", "handshake_detector"))])
        self.det_rows_in, self.det_rows_out = [], []
        self.mps = {"ctl": 64, "in": eps["in"][2], "out": eps["out"][2]}
        self.eps = eps

    def _sample(self, ctx):
        super()._sample(ctx)
        self.det_rows_in.append([int(ctx.get(s)) for s in self.det_in])
        self.det_rows_out.append([int(ctx.get(s)) for s in self.det_out])


def cfg_ints(h):
    """`# 3 filterByAddress clk12 fsOnly speed T L  ctlEp ctlMaxPacket  inEp inMaxPacket  outEp outMaxPacket outBufferSize
    sigEp sigWidth sigBigEndian  decoderHighSpeed  n (type index len byte*)*`"""
    e = h.eps
    out = [3, 1, 1, 1, 1, CY.PARAM_T, CY.PARAM_L, 0, h.control._max_packet_size,
           e["in"][1], e["in"][2], e["out"][1], e["out"][2], h.ep_out._buffer_size,
           e["sig"][1], e["sig"][2], 0, 0, len(h.spec["desc"])]
    for t, i, b in h.spec["desc"]:
        out += [t, i, len(b)] + [int(x) for x in b]
    return out


# columns that carry a payload: (payload column, its valid column); a payload line is compared only while valid
PAYLOADS = {10: 7, 18: 15, 23: 20, 29: 26}


def rows(h, mask_payload=True):
    outs = []
    for o in h.det_rows_out:
        r = list(o) + [1, 1]
        if mask_payload:
            for pc, vc in PAYLOADS.items():
                if not r[vc]:
                    r[pc] = None
        outs.append(r)
    return h.det_rows_in, outs
