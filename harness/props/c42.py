"""C42 — LFPS detector / generator (luna/gateware/usb/usb3/physical/lfps.py)."""
from math import ceil
from fractions import Fraction

from harness.common.framework import Case
from harness.common.rng import Rng
from harness.common import sim

PROP = "C42"
LEAN_MODULES = ["LunaVerif.Props.C42"]
DRIVER = "Driver/C42.lean"
REQUIRED_THEOREMS = ["detect_implies_windows", "in_window_is_detected", "generator_burst_and_period"]
RULE = ("detector: Polling (1/2.5/5/10 MHz, 125 MHz in thorough), Reset (100 Hz/250 Hz/1 kHz), Ping (500 Hz/1 kHz) "
        "and synthetic window sets at a 1 Hz clock x envelopes of (burst, period) pairs with every duration drawn from "
        "{min-1, min, min+1, mid, max-1, max, max+1}, one-cycle gaps after rejected bursts, over-long bursts and gaps, "
        "random toggling; generator: Polling at 1/2/5/10 MHz (125 MHz in thorough) and synthetic (burst, period) pairs "
        "incl. powers of two x generate held / pulsed / random; transceiver (monitor-only, appended last from an rng "
        "fork): LFPSTransceiver(ss_clk_freq) at 250 / 62.5 / 4 MHz (never the 125 MHz default) x signaling_received "
        "envelopes {mostly in-window, trains of 3..5 strictly-in-window bursts after a quiet line, window boundaries "
        "+-1, the envelopes that would be Polling.LFPS at half / double / the default clock} + send_polling held / "
        "pulsed / random, polling_/ping_/reset_detected judged by the detector monitor with the windows of the "
        "transceiver's frequency and drive_electrical_idle / send_signaling by the generator monitor; the same at "
        "250 Hz (reset_detected judged) and 500 Hz (ping_detected judged)")
ASSUMPTIONS = [
    "time is counted in ss cycles; the windows are the integers ceil(f*t) the classes compute (recomputed by the "
    "harness with the same expression and compared with the exact rational ceiling)",
    "windows satisfy 1 <= bmin <= bmax < rmax, rmin <= rmax (true for the three USB patterns at every frequency used)",
    "the 2-flop synchroniser is modelled as a two-cycle delay (single clock domain in simulation)",
]
PARTIAL = ""

POLL = ("polling", 0.6e-6, 1.4e-6, 1.0e-6, 6.0e-6, 14.0e-6, 10.0e-6)
PING = ("ping", 40.0e-9, 160.0e-9, None, 160e-3, 240.0e-3, 200e-3)
RESET = ("reset", 80.0e-3, 120.0e-3, 100.0e-3, None, None, None)


def det_configs(tier):
    out = []
    for f in (1e6, 2.5e6, 5e6, 10e6):
        out.append(("repo", "polling", f))
    for f in (100.0, 250.0, 1000.0):
        out.append(("repo", "reset", f))
    for f in (500.0, 1000.0):
        out.append(("repo", "ping", f))
    for w in ((1, 1, 2, 3), (1, 2, 4, 6), (2, 5, 6, 12), (3, 3, 9, 9), (2, 7, 8, 16), (4, 6, 7, 7), (1, 3, 1, 5),
              (5, 9, 20, 31), (2, 4, None, None), (1, 1, None, None), (6, 15, None, None)):
        out.append(("syn", w, 1.0))
    if tier == "thorough":
        out.append(("repo", "polling", 125e6))
        out.append(("repo", "polling", 62.5e6))
    return out


def gen_configs(tier):
    out = [("repo", f) for f in (1e6, 2e6, 5e6, 10e6)]
    out += [("syn", (b, r)) for (b, r) in ((1, 2), (1, 3), (3, 8), (7, 16), (4, 9), (2, 17), (15, 16), (5, 33))]
    if tier == "thorough":
        out.append(("repo", 125e6))
    return out


def gen_cases(tier, rng):
    per = {"quick": 5, "widen": 12}.get(tier, 40)
    out = []
    for cfg in det_configs(tier):
        big = cfg[0] == "repo" and cfg[2] > 20e6
        for k in range(3 if big else per):
            out.append({"kind": "det", "cfg": list(cfg), "seed": rng.u64(), "k": k})
    for cfg in gen_configs(tier):
        big = cfg[0] == "repo" and cfg[1] > 20e6
        for k in range(2 if big else max(2, per // 2)):
            out.append({"kind": "gen", "cfg": list(cfg), "seed": rng.u64(), "k": k})
    # appended last (the seeds of the cases above do not move): monitor-only cases through LFPSTransceiver
    xr = rng.fork("xcvr")
    for cfg in xcvr_configs(tier):
        n = {"quick": 4, "widen": 8}.get(tier, 12) if cfg[0] == "polling" else {"quick": 2, "widen": 5}.get(tier, 10)
        for k in range(n):
            out.append({"kind": "xcvr", "cfg": list(cfg), "seed": xr.u64(), "k": k})
    return out


def build_pattern(cfg):
    """-> (lfps_pattern object from/for the repo classes, f)"""
    from luna.gateware.usb.usb3.physical import lfps as L
    if cfg[0] == "repo":
        return {"polling": L._PollingLFPS, "ping": L._PingLFPS, "reset": L._ResetLFPS}[cfg[1]], cfg[2]
    bmin, bmax, rmin, rmax = cfg[1]
    burst = L.LFPSTiming(t_typ=float(bmin), t_min=float(bmin), t_max=float(bmax))
    rep = L.LFPSTiming(t_typ=float(rmax), t_min=float(rmin), t_max=float(rmax)) if rmin is not None else None
    return L.LFPS(burst=burst, repeat=rep), cfg[2]


def windows(pattern, f):
    """exactly the expressions of LFPSDetector.elaborate"""
    bmin = ceil(f * pattern.burst.t_min)
    bmax = ceil(f * pattern.burst.t_max)
    if pattern.repeat is not None:
        rmax = ceil(f * pattern.repeat.t_max)
        rmin = ceil(f * pattern.repeat.t_min)
        cmax = max(bmax, rmax)
        return bmin, bmax, 1, rmin, rmax, cmax
    return bmin, bmax, 0, 0, 0, bmax


# ------------------------------------------------------------------------------------------------ detector

def around(rng, lo, hi):
    c = [lo - 1, lo, lo + 1, (lo + hi) // 2, hi - 1, hi, hi + 1]
    return max(1, rng.choice(c))


def det_stimulus(rng, w, k, cap=30000, periods=None):
    bmin, bmax, rep, rmin, rmax, _ = w
    mode = k % 5
    rows = []
    budget = min(cap, (periods or (14 if rep else 10)) * ((rmax if rep else bmax) + 3) + 40)
    rows.extend([[0]] * rng.range(0, 3))
    while len(rows) < budget:
        if mode == 4 and rng.chance(30):
            rows.extend([[rng.below(2)] for _ in range(rng.range(1, 2 * bmax + 4))])      # noise
            continue
        good = rng.chance([92, 75, 50, 20, 60][mode])
        if good:
            B = rng.range(bmin, bmax)
        else:
            B = around(rng, bmin, bmax) if rng.chance(80) else rng.range(1, 3 * bmax + 2)
        if rep:
            goodp = rng.chance([92, 75, 50, 20, 60][mode])
            if goodp:
                P = rng.range(max(rmin, B + 1), max(rmax, B + 1))
            else:
                c = rng.below(10)
                P = around(rng, rmin, rmax) if c < 7 else (B + rng.range(1, 2) if c < 9 else rmax + rng.range(2, rmax + 3))
            G = max(1, P - B)
        else:
            G = rng.choice([1, 1, 2, 3, rng.range(1, bmax + 2)])
        rows.extend([[1]] * B)
        rows.extend([[0]] * G)
    return rows[:budget]


def envelope(sig, keep_open=False):
    """bursts of the input as (start, length); a burst still running at the end is dropped unless keep_open
    (then it is the last entry, with its length so far)"""
    out = []
    t = 0
    n = len(sig)
    while t < n:
        if sig[t]:
            s = t
            while t < n and sig[t]:
                t += 1
            if t < n or keep_open:
                out.append((s, t - s))
        else:
            t += 1
    return out


def det_monitor(w, stim, rows):
    bmin, bmax, rep, rmin, rmax, _ = w
    sig = [r[0] for r in stim]
    det = [r[0] for r in rows]
    bursts = envelope(sig, keep_open=True)      # only the START of a still-running last burst is ever used
    starts = {s: i for i, (s, _) in enumerate(bursts)}
    ends = {s + b: i for i, (s, b) in enumerate(bursts) if s + b < len(sig)}       # first low cycle after burst i
    fails = []
    LAT = 2      # synchroniser
    # ---- a detect pulse implies durations inside the windows
    for t, d in enumerate(det):
        if not d:
            continue
        if rep:
            i = starts.get(t - LAT)
            ok = i is not None and i >= 2
            if ok:
                (s0, b0), (s1, b1), (s2, _) = bursts[i - 2], bursts[i - 1], bursts[i]
                ok = (bmin <= b0 <= bmax and bmin <= b1 <= bmax and rmin <= s1 - s0 <= rmax and rmin <= s2 - s1 <= rmax)
            if not ok:
                fails.append({"cycle": t, "sig": "detect-outside-windows", "what":
                              "detect at cycle %d but the signalling before input cycle %d is not two consecutive bursts "
                              "of %d..%d cycles repeating every %d..%d cycles followed by a burst start"
                              % (t, t - LAT, bmin, bmax, rmin, rmax)})
                break
        else:
            i = ends.get(t - LAT)
            if i is None or not (bmin <= bursts[i][1] <= bmax):
                fails.append({"cycle": t, "sig": "detect-outside-windows", "what":
                              "detect at cycle %d but no burst of %d..%d cycles ended at input cycle %d"
                              % (t, bmin, bmax, t - LAT - 1)})
                break
    if fails:
        return fails
    # ---- patterns strictly inside the windows, measured from a quiet line, are reported
    if rep:
        chain = None      # number of good periods in a row since a synchronisation point, None = not synchronised
        for i, (s, b) in enumerate(bursts):
            prev_end = bursts[i - 1][0] + bursts[i - 1][1] if i else -10 ** 9
            if s - prev_end >= rmax + 3 or i == 0:
                chain = 0                      # quiet for longer than any repeat window: the detector is waiting
            elif chain is not None:
                p = s - bursts[i - 1][0]
                pb = bursts[i - 1][1]
                if bmin < pb < bmax and rmin < p < rmax:
                    chain += 1
                else:
                    chain = None
            if chain is not None and chain >= 2 and s + LAT < len(det) and not det[s + LAT]:
                fails.append({"cycle": s + LAT, "sig": "in-window-not-detected", "what":
                              "bursts of %d and %d cycles %d and %d cycles apart, strictly inside the windows and after a "
                              "quiet line, but no detect at cycle %d" % (bursts[i - 2][1], bursts[i - 1][1],
                                                                         bursts[i - 1][0] - bursts[i - 2][0],
                                                                         s - bursts[i - 1][0], s + LAT)})
                break
    else:
        for i, (s, b) in enumerate(bursts):
            prev_end = bursts[i - 1][0] + bursts[i - 1][1] if i else -10 ** 9
            if s - prev_end >= 2 and bmin < b < bmax and s + b < len(sig):
                t = s + b + LAT
                if t < len(det) and not det[t]:
                    fails.append({"cycle": t, "sig": "in-window-not-detected", "what":
                                  "a burst of %d cycles (window %d..%d) ended at input cycle %d but no detect at cycle %d"
                                  % (b, bmin, bmax, s + b - 1, t)})
                    break
    return fails


def run_det(desc):
    from luna.gateware.usb.usb3.physical.lfps import LFPSDetector
    from amaranth import Shape
    cfg = desc["cfg"]
    pattern, f = build_pattern(cfg)
    w = windows(pattern, f)
    wrap = 1 << Shape.cast(range(0, w[5] + 1)).width
    dut = LFPSDetector(pattern, ss_clk_frequency=f)
    stim = desc.get("stimulus") or det_stimulus(Rng(desc["seed"]), w, desc.get("k", 0))
    rows = sim.run_cycles(dut, [dut.signaling_received], [dut.detect], stim, domain="ss")
    fails = det_monitor(w, stim, rows)
    name = cfg[1] if cfg[0] == "repo" else ("syn-rep" if w[2] else "syn-norep")
    tags = ["det:" + str(name)]
    nd = sum(r[0] for r in rows)
    if nd:
        tags.append("det:detected:" + ("rep" if w[2] else "norep"))
    if nd >= 3:
        tags.append("det:detected-3x")
    return Case([0, w[0], w[1], w[2], w[3], w[4], wrap], stim, rows, fails, tags, desc,
                ["signaling_received"], ["detect"])


# ----------------------------------------------------------------------------------------------- generator

def gen_params(cfg):
    from luna.gateware.usb.usb3.physical import lfps as L
    if cfg[0] == "repo":
        pattern, f = L._PollingLFPS, cfg[1]
    else:
        b, r = cfg[1]
        pattern = L.LFPS(burst=L.LFPSTiming(t_typ=float(b), t_min=float(b), t_max=float(b)),
                         repeat=L.LFPSTiming(t_typ=float(r), t_min=float(r), t_max=float(r)))
        f = 1.0
    return pattern, f, ceil(f * pattern.burst.t_typ), ceil(f * pattern.repeat.t_typ)


def gen_stimulus(rng, bc, rc, k):
    total = min(12000, 7 * (rc + 2) + 20)
    mode = k % 3
    rows = []
    if mode == 0:
        rows = [[0]] * rng.range(0, 3) + [[1]] * total
    elif mode == 1:
        while len(rows) < total:
            rows.extend([[1]] * rng.choice([1, 2, bc, rc - 1, rc, rc + 1, rc + 2, 2 * rc + 3]))
            rows.extend([[0]] * rng.choice([1, 1, 2, bc, rc + 1]))
    else:
        p = rng.choice([50, 90, 10])
        rows = [[int(rng.chance(p))] for _ in range(total)]
    return rows[:total]


def gen_monitor(pattern, f, stim, rows):
    """while enabled: bursts of the typical length at the typical period; electrical-idle drive throughout"""
    fails = []
    from decimal import Decimal
    dec = lambda x: Fraction(Decimal(repr(float(x))))       # the constants as written (1.0e-6 = 1 us exactly)
    exact_b = dec(pattern.burst.t_typ) * dec(f)
    exact_r = dec(pattern.repeat.t_typ) * dec(f)
    gen = [r[0] for r in stim]
    send = [r[1] for r in rows]
    drive = [r[0] for r in rows]
    comp = [r[2] for r in rows] if rows and rows[0][2] is not None else None      # None: strobe not observable
    bursts = envelope(send)
    for t in range(len(rows)):
        if send[t] and not drive[t]:
            fails.append({"cycle": t, "sig": "send-without-drive", "what": "send_signaling without drive_electrical_idle"})
            return fails
    for i, (s, b) in enumerate(bursts):
        if abs(b - exact_b) >= 1:
            fails.append({"cycle": s, "sig": "burst-length", "what":
                          "generated burst of %d cycles at cycle %d; typical burst is %s cycles" % (b, s, exact_b)})
            return fails
        if i + 1 < len(bursts):
            s2 = bursts[i + 1][0]
            if all(gen[s - 1:s2]) and abs((s2 - s) - exact_r) > 2:
                fails.append({"cycle": s2, "sig": "burst-period", "what":
                              "generate held, bursts start at cycles %d and %d (%d apart); typical period is %s cycles"
                              % (s, s2, s2 - s, exact_r)})
                return fails
            if any(not d for d in drive[s:min(s2, s + int(exact_r))]):
                fails.append({"cycle": s, "sig": "idle-drive-dropped", "what":
                              "drive_electrical_idle dropped inside the LFPS cycle starting at %d" % s})
                return fails
        # a held request is answered with a burst in the next cycle
    for t in range(1, len(rows) - 1):
        if gen[t] and not drive[t - 1] and not send[t + 1] and drive[t]:
            fails.append({"cycle": t + 1, "sig": "burst-not-started", "what": "generate at idle but no burst one cycle later"})
            return fails
    nb = len(bursts)
    if comp is None:
        return fails
    if sum(comp) > nb + 1 or (nb >= 2 and sum(comp) < nb - 1):
        fails.append({"cycle": 0, "sig": "completed-count", "what": "%d completed strobes for %d bursts" % (sum(comp), nb)})
    return fails


def run_gen(desc):
    from luna.gateware.usb.usb3.physical.lfps import LFPSGenerator
    from amaranth import Shape
    pattern, f, bc, rc = gen_params(desc["cfg"])
    wrap = 1 << Shape.cast(range(0, rc)).width
    dut = LFPSGenerator(pattern, f)
    stim = desc.get("stimulus") or gen_stimulus(Rng(desc["seed"]), bc, rc, desc.get("k", 0))
    rows = sim.run_cycles(dut, [dut.generate], [dut.drive_electrical_idle, dut.send_signaling, dut.completed], stim,
                          domain="ss")
    fails = gen_monitor(pattern, f, stim, rows)
    tags = ["gen:" + str(desc["cfg"][0])]
    if sum(r[2] for r in rows) >= 2:
        tags.append("gen:completed-twice")
    if rc == wrap:
        tags.append("gen:period-power-of-two")
    return Case([1, bc, rc, wrap], stim, rows, fails, tags, desc, ["generate"],
                ["drive_electrical_idle", "send_signaling", "completed"])


# ------------------------------------------------------------------- the transceiver (monitor-only cases)
# LFPSTransceiver(ss_clk_freq) instantiates three detectors and the polling generator; the windows that count are
# those of the frequency the TRANSCEIVER was built for.  Same monitors as above, on the transceiver's own ports.

XCVR_POLL_CLOCKS = (250e6, 62.5e6, 4e6)          # none of them the default 125 MHz; float ceilings exact at all three


def xcvr_configs(tier):
    out = [("polling", f) for f in XCVR_POLL_CLOCKS]
    out += [("reset", 250.0), ("ping", 500.0)]        # clocks at which that detector's windows are short enough
    return out


def xcvr_stimulus(rng, judged, f, k):
    from luna.gateware.usb.usb3.physical import lfps as L
    pattern = {"polling": L._PollingLFPS, "ping": L._PingLFPS, "reset": L._ResetLFPS}[judged]
    w = windows(pattern, f)
    if judged != "polling":
        return [[r[0], 0] for r in det_stimulus(rng, w, k)]
    mode = k % 4
    if mode == 3:
        # the envelopes that WOULD be Polling.LFPS at another clock (half, double, the class default)
        sc = Fraction(rng.choice([0.5, 2.0, 125e6 / f]))
        ws = tuple(max(1, ceil(x * sc)) for x in w[:2]) + (1,) + tuple(max(2, ceil(x * sc)) for x in w[3:5]) + (0,)
        if not ws[1] < ws[4]:
            ws = w
        det = det_stimulus(rng, ws, 0, cap=16000, periods=6)
    elif mode == 1:
        # trains of 3..5 bursts strictly inside the windows, separated by a line quiet for longer than any repeat
        # window (the situation in which the monitor demands a report)
        bmin, bmax, _, rmin, rmax, _ = w
        det = [[0]] * rng.range(0, 3)
        while len(det) < min(8000, 14 * (rmax + 3)):
            for _ in range(rng.range(3, 5)):
                B = rng.range(bmin + 1, bmax - 1)
                P = rng.range(max(rmin + 1, B + 1), rmax - 1)
                det = det + [[1]] * B + [[0]] * (P - B)
            det = det + [[0]] * (rmax + 3 + rng.range(0, 5))
    else:
        det = det_stimulus(rng, w, (0, 0, 2)[mode], cap=16000, periods=6 if w[4] > 1000 else 14)
    bc, rc = ceil(f * pattern.burst.t_typ), ceil(f * pattern.repeat.t_typ)
    gen = gen_stimulus(rng, bc, rc, k)
    n = max(len(det), min(len(gen), 3 * (rc + 2)))
    return [[det[t][0] if t < len(det) else 0, gen[t][0] if t < len(gen) else 0] for t in range(n)]


def run_xcvr(desc):
    from luna.gateware.usb.usb3.physical import lfps as L
    judged, f = desc["cfg"]
    dut = L.LFPSTransceiver(ss_clk_freq=f)
    stim = desc.get("stimulus") or xcvr_stimulus(Rng(desc["seed"]), judged, f, desc.get("k", 0))
    outs = [dut.polling_detected, dut.ping_detected, dut.reset_detected, dut.drive_electrical_idle, dut.send_signaling]
    rows = sim.run_cycles(dut, [dut.signaling_received, dut.send_polling], outs, stim, domain="ss")
    pats = {"polling": (0, L._PollingLFPS), "ping": (1, L._PingLFPS), "reset": (2, L._ResetLFPS)}
    # at the two slow clocks only the detector whose windows are non-degenerate there is judged
    names = ("polling", "ping", "reset") if judged == "polling" else (judged,)
    fails, tags = [], ["xcvr:%s@%g" % (judged, f)]
    for name in names:
        col, pattern = pats[name]
        fs = det_monitor(windows(pattern, f), [[r[0]] for r in stim], [[r[col]] for r in rows])
        for x in fs:
            x["sig"] = "xcvr-%s-%s" % (name, x["sig"])
            x["what"] = "LFPSTransceiver(ss_clk_freq=%g).%s_detected: %s" % (f, name, x["what"])
        fails += fs
        if any(r[col] for r in rows):
            tags.append("xcvr:%s-detected" % name)
    if judged == "polling":
        fs = gen_monitor(L._PollingLFPS, f, [[r[1]] for r in stim], [(r[3], r[4], None) for r in rows])
        for x in fs:
            x["sig"] = "xcvr-gen-" + x["sig"]
            x["what"] = "LFPSTransceiver(ss_clk_freq=%g) generator: %s" % (f, x["what"])
        fails += fs
        if len(envelope([r[4] for r in rows])) >= 2:
            tags.append("xcvr:gen-two-bursts")
    return Case([2, int(f)], stim, [list(r) for r in rows], fails, tags, desc, ["signaling_received", "send_polling"],
                ["polling_detected", "ping_detected", "reset_detected", "drive_electrical_idle", "send_signaling"],
                lean=False)


def run_case(desc):
    kind = desc.get("kind")
    return run_gen(desc) if kind == "gen" else run_xcvr(desc) if kind == "xcvr" else run_det(desc)


def extra_checks(tier, rng, proof):
    """the float ceilings the classes compute equal the exact rational ceilings (for the constants as written in the
    source: 0.6e-6 etc. are taken as the decimal numbers 0.6 us …)"""
    from decimal import Decimal
    table, bad = {}, []
    pats = {"polling": POLL, "ping": PING, "reset": RESET}
    for f in (1e6, 2.5e6, 5e6, 10e6, 62.5e6, 125e6, 250e6, 100.0, 250.0, 500.0, 1000.0):
        for name, p in pats.items():
            for t in p[1:]:
                if t is None:
                    continue
                got = ceil(f * t)
                exact = -((-Fraction(Decimal(repr(t))) * Fraction(Decimal(repr(f)))) // 1)
                table["%s %g %g" % (name, f, t)] = got
                if got != exact:
                    bad.append([name, f, t, got, int(exact)])
    return {"float_vs_exact_ceiling_mismatches": bad, "n_constants": len(table), "failures": []}
