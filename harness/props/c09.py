"""C09 — GET_DESCRIPTOR returns exactly the requested descriptor bytes.

DUTs (all real classes from the repo): `GetDescriptorHandlerBlock`, `GetDescriptorHandlerDistributed`
and `GetDescriptorHandlerMux`, obtained through `StandardRequestHandler.get_descriptor_handler_submodule`
(avoid_blockram False / True, runtime descriptors -> mux), plus the pure-Python
`GetDescriptorHandlerBlock.generate_rom_content` (kind "rom": diffed against Lean `Rom.layout`).

The testbench mimics the two neighbours of the handler in a device:
  * the GET_DESCRIPTOR loop of request/standard.py: `value`/`length` held, `start` pulsed for one
    cycle per data-stage IN token, `start_position += max_packet_size` on the host's ACK;
  * the stream side of `USBDataPacketGenerator` (class Consumer): `ready = 0` while idle / sending the
    PID / sending the CRC, a packet starts on `valid & first`, a ZLP on `valid & last & ~first`,
    payload bytes are taken on `valid & ready` until `ready & (last | ~valid)`.
The monitor is evaluated on the recorded trace alone (so replays work open-loop).
"""
from harness.common.framework import Case
from harness.common.rng import Rng
from harness.common import sim
from harness.translate import rom as romtr

PROP = "C09"
LEAN_MODULES = ["LunaVerif.Props.C09Spec", "LunaVerif.Lemmas.C09Stage", "LunaVerif.Lemmas.C09Block",
                "LunaVerif.Lemmas.C09BlockReq", "LunaVerif.Lemmas.C09Dist", "LunaVerif.Lemmas.C09DistReq",
                "LunaVerif.Lemmas.C09Rom", "LunaVerif.Lemmas.C09RomLookup", "LunaVerif.Lemmas.C09RomCorrect",
                "LunaVerif.Props.C09", "LunaVerif.Lemmas.C09Mux", "LunaVerif.Props.C09Mux",
                "LunaVerif.Lemmas.C09Seq", "LunaVerif.Lemmas.C09BlockIdle", "LunaVerif.Lemmas.C09DistIdle",
                "LunaVerif.Lemmas.C09MuxIdle", "LunaVerif.Props.C09Seq", "LunaVerif.Props.C09DataStage",
                "LunaVerif.Lemmas.C09EndToEndEv", "LunaVerif.Props.C09EndToEnd"]
DRIVER = "Driver/C09.lean"
REQUIRED_THEOREMS = ["datastage_exact", "dataStage_concat", "dataStage_packet_le", "rom_lookup_correct",
                     "block_packet_exact", "dist_packet_exact", "stall_without_data_when_absent_block",
                     "stall_without_data_when_absent_dist", "dist_runtime_packet_exact", "mux_packet_exact",
                     "mux_stall_iff_absent", "block_returns_idle", "dist_returns_quiescent",
                     "dist_runtime_returns_quiescent", "mux_returns_idle", "block_requests_exact",
                     "dist_requests_exact", "mux_requests_exact", "block_datastage_exact",
                     "dist_datastage_exact", "mux_datastage_exact",
                     "get_descriptor_end_to_end", "get_descriptor_stall_iff_absent",
                     "get_descriptor_end_to_end_contract", "script_legal"]
RULE = ("cases = (handler class in {block, distributed, mux(block+distributed runtime)}, max packet size in "
        "{8,16,32,64}, random descriptor collection of 1..10 descriptors with lengths 1..300 weighted to "
        "packet-size multiples, types 0..15 and a few vendor types, sparse/consecutive indexes, string descriptors, "
        "PHY ready pattern) x a list of control transfers (present/absent descriptor, wLength in {0,1,len-1,len,"
        "len+1,k*mps,0xFFFF,random}) driven by a mimic of the standard.py loop and of the packet generator; "
        "'chaos' cases drive every input at random (model correspondence only); 'rom' cases diff the repo's "
        "generate_rom_content against Lean Rom.layout and evaluate romOk on that ROM")
ASSUMPTIONS = [
    "the host reads the data stage in order: one IN per packet, start_position = k*max_packet_size, and stops "
    "after a short packet, a ZLP, a STALL or wLength bytes (USB 2.0 8.5.3); value/length are stable during a request",
    "the packet generator side behaves like USBDataPacketGenerator: ready only while a started packet's payload "
    "is being sent, and it is idle again before the next IN token",
    "sequences of requests (*_requests_exact): the next start pulse comes after the previous response is over "
    "(window longer than 4 cycles and every byte of a data packet accepted; for the distributed handler and the mux "
    "one further cycle, the generator's DONE state) - `Complete` in Lemmas/C09Seq.lean",
    "descriptor collections satisfy the constructors' preconditions: non-empty, distinct (type,index), every "
    "descriptor 1..2047 bytes (the block handler needs a longest descriptor of >= 2 bytes), ROM below 64 KiB",
    "runtime descriptors are opaque generators supplied by the application; the repo's USBDescriptorStreamGenerator "
    "is used for them with lengths that are not multiples of 8 (such a generator cannot represent "
    "start_position == its length; the fixed-descriptor path was repaired for that case, see notes/C09.md)",
    "end-to-end theorems (Props/C09EndToEnd.lean): no additional request handlers; the host history before the read "
    "is legal (LegalHostM, USB 2.0 8.5 transaction formats); every streamer window is long enough for its packet "
    "at the block handler's largest latency and tx.ready pattern (WinFromM: the packet generator consumes the "
    "packet before the host's next token); the free streamer inputs of the expansion are silent (TDSil; the closed "
    "loop does not read them); the descriptor-window latencies are the block handler model's own (1..4 cycles)",
]
PARTIAL = ("Theorems: rom_lookup_correct (wellFormed coll -> romOk (Rom.layout coll) coll, arbitrary collections); "
           "block/dist/mux_packet_exact, *_returns_idle, *_requests_exact, *_datastage_exact (each handler model at its "
           "ports: whole data stage = dataStage, STALL iff absent); and END TO END (Props/C09EndToEnd.lean, composed "
           "with C07's cycle-level closed loop of USBControlEndpoint FSM + request multiplexer + StandardRequestHandler "
           "+ its StreamSerializer + GetDescriptorHandlerBlock over Rom.layout coll, which harness/props/c07_cyc.py "
           "co-simulates cycle by cycle against the real control endpoint): get_descriptor_end_to_end - for every "
           "wellFormed collection, max packet size in {8,16,32,64}, every (type,index) present, 0 < wLength < 65536, "
           "after every legal host history, the host's read (SETUP transaction, IN+ACK per packet; script_legal: a "
           "legal host behaviour) gets on the control endpoint's tx stream exactly dataStage dd wLength mps under "
           "DATA1/DATA0 alternating, payloads concatenating to dd.take wLength, every packet <= mps; "
           "get_descriptor_stall_iff_absent - the first data-stage IN is answered with STALL iff the collection has "
           "no such descriptor.  Former item 'composition with the real StandardRequestHandler' is thereby a theorem "
           "for the block handler.  REMAINING (co-simulation + monitor only): (a) distributed handler and handler "
           "mux inside the control endpoint: only at contract level (get_descriptor_end_to_end_contract: any "
           "descriptor handler that presents respTrace(lat+1) of the specified response in each window - which "
           "dist/mux_packet_exact prove of those models at their ports - gives dataStage on the bus); the "
           "cycle-level wiring of those two models into the closed loop (C07's cl2_desc exists for the block "
           "handler only) is not formal; (b) below the control endpoint's tx stream: USBDataPacketGenerator, CRC16, "
           "UTMI transmit (properties C03 / C20) and the receive path that produces the token / setup / handshake "
           "strobes (C04-C06) - the cycle-level model takes those strobes as inputs and the theorems assume each "
           "packet is consumed within its window (WinFromM) by a generator that is ready only during a started "
           "packet; (c) runtime generators other than the repo's USBDescriptorStreamGenerator over a byte string "
           "(and for those, requests at start_position == length, excluded by ASSUMPTIONS); (d) additional request "
           "handlers next to the standard one (c.extra = []), wLength = 0 (no data stage), descriptors of 2048 "
           "bytes or more; theorems are about the Lean models, tied to the gateware by the co-simulations "
           "(c09.py at the handler ports, c07_cyc.py at the control endpoint).")

MPS = (8, 16, 32, 64)
RESP_DEADLINE = 12          # a handler answers (packet begins or stall) within this many cycles of `start`

NAMES_IN = ["value", "length", "start_position", "start", "tx_ready", "phy_ready(tb)", "new_request(tb)"]
NAMES_OUT = ["tx_valid", "tx_first", "tx_last", "tx_payload", "stall"]


# --------------------------------------------------------------------------- testbench environment
class Consumer:
    """Stream side of USBDataPacketGenerator (usb2/packet.py)."""
    IDLE, PID, PAYLOAD, CRC1, CRC2 = range(5)

    def __init__(self):
        self.st = self.IDLE
        self.zlp = False
        self.cur = None
        self.packets = []     # dicts: begin, end (None while running), bytes, zlp, dropped

    def ready(self, phy):
        return 1 if (self.st == self.PAYLOAD and phy) else 0

    def tick(self, t, valid, first, last, payload, phy):
        st = self.st
        if st == self.IDLE:
            if valid and first:
                self.cur = {"begin": t, "end": None, "bytes": [], "zlp": False, "dropped": False}
                self.packets.append(self.cur)
                self.st = self.PID
            elif valid and last:
                self.cur = {"begin": t, "end": None, "bytes": [], "zlp": True, "dropped": False}
                self.packets.append(self.cur)
                self.st = self.PID
        elif st == self.PID:
            if phy:
                self.st = self.CRC1 if self.cur["zlp"] else self.PAYLOAD
        elif st == self.PAYLOAD:
            if phy:
                if valid:
                    self.cur["bytes"].append(payload)
                else:
                    self.cur["dropped"] = True
                if last or not valid:
                    self.st = self.CRC1
        elif st == self.CRC1:
            if phy:
                self.st = self.CRC2
        elif st == self.CRC2:
            if phy:
                self.cur["end"] = t
                self.st = self.IDLE


class Phy:
    """tx_ready of the PHY as seen by the packet generator."""

    def __init__(self, rng, pattern):
        self.rng, self.pattern, self.t = rng, pattern, 0

    def bit(self):
        self.t += 1
        k, p = self.pattern
        if k == "always":
            return 1
        if k == "period":
            return 1 if self.t % p == 0 else 0
        return 1 if self.rng.chance(p) else 0


# --------------------------------------------------------------------------- DUT construction
def make_case_setup(desc):
    """collection (as the gateware iterates it), DUT, Lean kind."""
    from luna.gateware.usb.request.standard import StandardRequestHandler
    from luna.gateware.usb.usb2.descriptor import (GetDescriptorHandlerBlock, GetDescriptorHandlerDistributed,
                                                   GetDescriptorHandlerMux)
    rng = Rng(desc["seed"]).fork("collection")
    kind = desc["kind"]
    mps = desc["mps"]
    if "descrs" in desc:
        descrs = [(t, i, bytes(b), rt) for t, i, b, rt in desc["descrs"]]
        coll = romtr.build(descrs, desc.get("auto_lang", 0))
    elif desc.get("realistic"):
        coll = romtr.realistic_collection(rng)
        descrs = romtr.listing(coll)
    else:
        auto = 1 if rng.chance(30) else 0
        descrs = romtr.gen_collection(rng, runtime=(kind == "mux" or desc.get("of") == "mux"), min_len=1)
        if kind in ("block", "mux", "rom") and max(len(b) for t, i, b, rt in descrs if not rt) < 2:
            # the block handler cannot be elaborated when its longest descriptor has a single byte
            t0 = descrs[0][0]
            i0 = min(set(range(256)) - {i for t, i, b, rt in descrs if t == t0})
            descrs.append((t0, i0, bytes([5, t0, 2, 3, 4]), 0))
        coll = romtr.build(descrs, auto)
    rt_bytes = {(t, i): b for t, i, b, rt in descrs if rt}
    descrs = romtr.listing(coll, rt_bytes)           # what the gateware will iterate over
    if kind == "rom":
        return descrs, coll, None
    h = StandardRequestHandler(coll, max_packet_size=mps, avoid_blockram=(kind == "dist"))
    want = {"block": GetDescriptorHandlerBlock, "dist": GetDescriptorHandlerDistributed,
            "mux": GetDescriptorHandlerMux}[kind]
    if desc.get("mode") == "std":
        # the whole StandardRequestHandler; the descriptor handler it creates while elaborating is
        # captured so that its ports can be observed (never driven)
        captured = []
        orig = h.get_descriptor_handler_submodule

        def capture():
            x = orig()
            assert type(x) is want, (kind, type(x))
            captured.append(x)
            return x
        h.get_descriptor_handler_submodule = capture
        h.captured = captured
        return descrs, coll, h
    dut = h.get_descriptor_handler_submodule()
    assert type(dut) is want, (kind, type(dut))
    return descrs, coll, dut


KIND_ID = {"block": 0, "dist": 1, "mux": 2, "rom": 3}


# --------------------------------------------------------------------------- stimulus
def pick_wlength(rng, n, mps):
    return rng.weighted([
        (3, 0xFFFF), (3, n), (2, n + 1), (2, max(0, n - 1)), (1, 0), (1, 1), (2, 255), (2, 64),
        (2, mps * rng.range(1, 5)), (1, mps * ((n + mps - 1) // mps)), (1, mps * (n // mps)),
        (2, rng.range(0, 2 * n + 2)), (1, rng.range(0, 0xFFFF)), (1, 8), (1, 9), (1, 18),
    ])


def absent_value(rng, descrs):
    keys = {(t << 8) | i for t, i, b, rt in descrs}
    tys = sorted({t for t, i, b, rt in descrs})
    for _ in range(50):
        k = rng.below(6)
        if k == 0:
            v = (rng.choice(tys) << 8) | rng.below(256)                       # present type, other index
        elif k == 1:
            t = rng.choice(tys)
            v = (t << 8) | sum(1 for tt, i, b, rt in descrs if tt == t)       # first index past the count
        elif k == 2:
            v = ((max(tys) + 1 + rng.below(3)) << 8) | rng.below(4)           # type past the table
        elif k == 3:
            v = (rng.below(max(tys) + 1) << 8) | rng.below(3)                 # type inside the table
        elif k == 4:
            v = rng.below(65536)
        else:
            v = (rng.choice(tys) << 8) | 0xFF
        v &= 0xFFFF
        if v not in keys:
            return v
    return None


def plan_transfers(rng, descrs, mps, tier_scale):
    """[(value, wLength)]"""
    out = []
    n = rng.range(3, 6) * tier_scale
    for _ in range(n):
        if rng.chance(22):
            v = absent_value(rng, descrs)
            if v is not None:
                out.append((v, rng.choice([0xFFFF, 64, 8, 0, 255, rng.below(65536)])))
                continue
        t, i, b, rt = rng.choice(descrs)
        out.append(((t << 8) | i, pick_wlength(rng, len(b), mps)))
    return out


def simulate(dut, rows_or_script, reactive):
    """Run the DUT.  reactive: `rows_or_script(api)` is an async function driving `api.cycle(...)`;
    otherwise rows_or_script is the recorded stimulus, replayed open loop."""
    from amaranth.sim import Simulator
    top = sim._Wrap(dut, ["usb"])
    s = Simulator(top)
    s.add_clock(1e-6, domain="usb")
    ins = [dut.value, dut.length, dut.start_position, dut.start, dut.tx.ready]
    outs = [dut.tx.valid, dut.tx.first, dut.tx.last, dut.tx.payload, dut.stall]
    rows_in, rows_out = [], []

    class Api:
        pass
    api = Api()

    async def tb(ctx):
        async def raw(row):
            for sig, v in zip(ins, row):
                ctx.set(sig, v)
            o = tuple(ctx.get(x) for x in outs)
            rows_in.append(list(row))
            rows_out.append(o)
            await ctx.tick("usb")
            return o
        if reactive:
            api.raw = raw
            await rows_or_script(api)
        else:
            for r in rows_or_script:
                await raw(list(r) + [0] * (7 - len(r)))

    s.add_testbench(tb)
    s.run()
    return rows_in, rows_out


def proto_script(desc, descrs, mps, rng):
    transfers = plan_transfers(rng.fork("plan"), descrs, mps, desc.get("scale", 1))
    pk = desc.get("phy", ["always", 0])
    phy = Phy(rng.fork("phy"), (pk[0], pk[1]))
    cons = Consumer()
    budget = desc.get("budget", 2500)

    async def script(api):
        st = {"value": 0, "length": 0, "pos": 0, "t": 0, "new": 0}

        async def cycle(start=0):
            p = phy.bit()
            rdy = cons.ready(p)
            o = await api.raw([st["value"], st["length"], st["pos"], start, rdy, p, st["new"]])
            st["new"] = 0
            cons.tick(st["t"], o[0], o[1], o[2], o[3], p)
            st["t"] += 1
            return o

        async def idle(n):
            for _ in range(n):
                await cycle()

        await idle(rng.range(1, 3))
        for value, wl in transfers:
            if st["t"] > budget:
                break
            # IDLE state of standard.py: start_position <- 0; the SETUP packet's fields appear
            st["pos"] = 0
            await idle(rng.range(1, 3))
            st["value"], st["length"], st["new"] = value, wl, 1
            await idle(rng.range(1, 4))
            received = 0
            for k in range(300):
                npk = len(cons.packets)
                o = await cycle(start=1)
                stalled = bool(o[4])
                w = 0
                while not stalled and len(cons.packets) == npk and w < RESP_DEADLINE + 2:
                    o = await cycle()
                    stalled = stalled or bool(o[4])
                    w += 1
                if stalled or len(cons.packets) == npk:
                    await idle(rng.range(2, 6))
                    break
                guard = 0
                while cons.st != cons.IDLE and guard < 4000:
                    await cycle()
                    guard += 1
                pkt = cons.packets[-1]
                await idle(rng.range(4, 12))               # host's ACK is on its way; generator idle and watching
                st["pos"] = (st["pos"] + mps) & 0x7FF      # ACK: advance
                received += len(pkt["bytes"])
                if len(pkt["bytes"]) < mps or received >= wl or st["t"] > budget + 1500:
                    break
                await idle(rng.range(2, 8))                # next IN token
            await idle(rng.range(3, 9))                    # status stage
    return script


def simulate_std(h, desc, descrs, mps, rng):
    """Drive the real StandardRequestHandler (request/standard.py) through GET_DESCRIPTOR transfers:
    SETUP fields + `received`, one `data_requested` pulse per IN token, `handshakes_in.ack` after each
    packet, `status_requested` at the end.  Returns the handler-port trace (for the Lean model of the
    handler the StandardRequestHandler created) and the interface-level trace (for the monitor)."""
    from amaranth.sim import Simulator
    transfers = plan_transfers(rng.fork("plan"), descrs, mps, desc.get("scale", 1))
    pk = desc.get("phy", ["always", 0])
    phy = Phy(rng.fork("phy"), (pk[0], pk[1]))
    cons = Consumer()
    budget = desc.get("budget", 2500)
    top = sim._Wrap(h, ["usb"])
    s = Simulator(top)
    s.add_clock(1e-6, domain="usb")
    ifc = h.interface
    gd = h.captured[0]
    lean_in, lean_out, mon_in, mon_out = [], [], [], []
    ab = rng.fork("abandon")

    async def tb(ctx):
        st = {"t": 0, "new": 0}
        ctx.set(ifc.setup.type, 0)                 # USBRequestType.STANDARD
        ctx.set(ifc.setup.is_in_request, 1)
        ctx.set(ifc.setup.request, 6)              # GET_DESCRIPTOR

        async def cycle(received=0, data_requested=0, ack=0, status=0):
            p = phy.bit()
            rdy = cons.ready(p)
            ctx.set(ifc.setup.received, received)
            ctx.set(ifc.data_requested, data_requested)
            ctx.set(ifc.handshakes_in.ack, ack)
            ctx.set(ifc.status_requested, status)
            ctx.set(ifc.tx.ready, rdy)
            hin = [ctx.get(gd.value), ctx.get(gd.length), ctx.get(gd.start_position), ctx.get(gd.start),
                   ctx.get(gd.tx.ready)]
            hout = [ctx.get(gd.tx.valid), ctx.get(gd.tx.first), ctx.get(gd.tx.last), ctx.get(gd.tx.payload),
                    ctx.get(gd.stall)]
            o = (ctx.get(ifc.tx.valid), ctx.get(ifc.tx.first), ctx.get(ifc.tx.last), ctx.get(ifc.tx.payload),
                 ctx.get(ifc.handshakes_out.stall))
            lean_in.append(hin + [p, st["new"]])
            lean_out.append(hout)
            mon_in.append([hin[0], hin[1], hin[2], hin[3], rdy, p, st["new"]])
            mon_out.append(o)
            st["new"] = 0
            cons.tick(st["t"], o[0], o[1], o[2], o[3], p)
            st["t"] += 1
            await ctx.tick("usb")
            return o

        async def idle(n):
            for _ in range(n):
                await cycle()

        await idle(rng.range(1, 3))
        for value, wl in transfers:
            if st["t"] > budget:
                break
            ctx.set(ifc.setup.value, value)
            ctx.set(ifc.setup.length, wl)
            st["new"] = 1
            await cycle(received=1)
            await idle(rng.range(1, 4))
            received = 0
            stalled = False
            abandoned = False
            for k in range(300):
                npk = len(cons.packets)
                o = await cycle(data_requested=1)
                stalled = bool(o[4])
                w = 0
                while not stalled and len(cons.packets) == npk and w < RESP_DEADLINE + 2:
                    o = await cycle()
                    stalled = stalled or bool(o[4])
                    w += 1
                if stalled or len(cons.packets) == npk:
                    break
                guard = 0
                while cons.st != cons.IDLE and guard < 4000:
                    await cycle()
                    guard += 1
                pkt = cons.packets[-1]
                await idle(rng.range(4, 12))
                await cycle(ack=1)                          # the host's ACK
                received += len(pkt["bytes"])
                if len(pkt["bytes"]) < mps or received >= wl or st["t"] > budget + 1500:
                    break
                if ab.chance(15):
                    # the host abandons the transfer after an ACKed packet: no further IN, no status stage, the next
                    # SETUP follows (own random stream, so that the other choices of the script do not move)
                    abandoned = True
                    break
                await idle(rng.range(2, 8))
            await idle(rng.range(2, 6))
            if not stalled and not abandoned:
                await cycle(status=1)                       # status stage
            await idle(rng.range(2, 6))

    s.add_testbench(tb)
    s.run()
    return lean_in, lean_out, mon_in, mon_out


def chaos_rows(desc, descrs, mps, rng):
    keys = [(t << 8) | i for t, i, b, rt in descrs]
    vals = keys * 3 + [v for v in (absent_value(rng, descrs) for _ in range(4)) if v is not None]
    lens = sorted({len(b) for t, i, b, rt in descrs})
    n = desc.get("cycles", 500)
    style = rng.below(3)
    rows = []
    value, length, pos = rng.choice(vals), 0xFFFF, 0
    p_start = rng.choice([3, 8, 20])
    p_ready = rng.choice([20, 50, 90, 100])
    for _ in range(n):
        if rng.chance(2 if style == 0 else 10):
            value = rng.choice(vals)
        if rng.chance(4 if style == 0 else 15):
            L = rng.choice(lens)
            length = rng.choice([0, 1, L, L + 1, max(0, L - 1), 0xFFFF, mps, 2 * mps, rng.below(400), rng.below(65536)])
        if rng.chance(6 if style == 0 else 20):
            L = rng.choice(lens)
            pos = rng.choice([0, mps, 2 * mps, 3 * mps, L, max(0, L - 1), L + 1, rng.below(2048), rng.below(64),
                              mps * rng.below(40)]) & 0x7FF
        rows.append([value, length, pos, 1 if rng.chance(p_start) else 0, 1 if rng.chance(p_ready) else 0, 0, 0])
    return rows


# --------------------------------------------------------------------------- the property monitor
def expected_response(d, wl, s, mps):
    """('data', bytes) / ('zlp',) / None (= not a request a host reading in order can make)."""
    total = min(wl, len(d))
    if s % mps == 0 and s < total:
        return ("data", list(d[s:min(total, s + mps)]))
    if s == total and total > 0 and total % mps == 0 and total < wl:
        return ("zlp",)
    return None


def monitor(rows_in, rows_out, descrs, mps):
    table = {(t << 8) | i: b for t, i, b, rt in descrs}
    cons = Consumer()
    events = []
    fails = []
    tags = set()

    def fail(t, sig, what):
        fails.append({"cycle": t, "sig": sig, "what": what})

    T = len(rows_in)
    nth = None
    for t, (i, o) in enumerate(zip(rows_in, rows_out)):
        value, length, pos, start, ready, phy = i[:6]
        if len(i) > 6 and i[6]:
            nth = 0                                          # a new control request: the next IN is its first
        valid, first, last, payload, stall = o
        if ready != cons.ready(phy):
            return [], {"not-a-packet-generator-trace"}      # stimulus not produced by the environment model
        if start:
            events.append({"t": t, "value": value, "length": length, "pos": pos, "packets": [], "stall": None})
            # standard.py: start_position is 0 for the first IN and advances by max_packet_size per ACKed packet
            if nth is not None:
                if pos != (nth * mps) & 0x7FF:
                    fail(t, "start-position-advance", "IN number %d of the request starts the handler at "
                         "start_position=%d, expected %d (value=0x%04x wLength=%d mps=%d)"
                         % (nth, pos, (nth * mps) & 0x7FF, value, length, mps))
                nth += 1
        if stall:
            if not events:
                fail(t, "stall-unsolicited", "stall pulsed at cycle %d before any request" % t)
            elif events[-1]["stall"] is None:
                events[-1]["stall"] = t
        before = len(cons.packets)
        cons.tick(t, valid, first, last, payload, phy)
        if len(cons.packets) > before:
            if not events:
                fail(t, "unsolicited-packet", "a packet begins at cycle %d before any request" % t)
            else:
                events[-1]["packets"].append(cons.packets[-1])

    def describe(e):
        return "value=0x%04x wLength=%d start_position=%d mps=%d (start pulse at cycle %d)" % (
            e["value"], e["length"], e["pos"], mps, e["t"])

    for n, e in enumerate(events):
        end = events[n + 1]["t"] if n + 1 < len(events) else T
        is_last = n + 1 == len(events)
        d = table.get(e["value"])
        pk = e["packets"]
        # value/length must have been stable while this request was being answered
        complete = all(p["end"] is not None for p in pk)
        if is_last and not complete:
            continue
        window_ok = end - e["t"] > RESP_DEADLINE or not is_last
        if d is None:
            tags.add("absent")
            if pk:
                fail(pk[0]["begin"], "data-when-absent", "descriptor absent but a packet was sent: " + describe(e))
            elif e["stall"] is None and window_ok:
                fail(e["t"] + RESP_DEADLINE, "no-stall-absent", "descriptor absent and no STALL within %d cycles: %s"
                     % (RESP_DEADLINE, describe(e)))
            elif e["stall"] is not None:
                tags.add("stall")
            continue
        if e["stall"] is not None:
            fail(e["stall"], "stall-present", "STALL for a descriptor that exists: " + describe(e))
            continue
        if len(pk) > 1:
            fail(pk[1]["begin"], "unsolicited-packet",
                 "%d packets (lengths %s) answered one IN: %s" % (len(pk), [len(p["bytes"]) for p in pk], describe(e)))
            continue
        exp = expected_response(d, e["length"], e["pos"], mps)
        if exp is None:
            tags.add("off-protocol-request")
            if any(p["bytes"] for p in pk) and e["length"] == 0:
                fail(pk[0]["end"], "data-beyond-wlength", "wLength = 0 but data bytes were sent: " + describe(e))
            continue
        if not pk:
            if window_ok:
                fail(e["t"] + RESP_DEADLINE, "no-response", "no packet within %d cycles: %s (expected %s)"
                     % (RESP_DEADLINE, describe(e), exp[0]))
            continue
        p = pk[0]
        if p["dropped"]:
            fail(p["end"], "stream-contract", "valid dropped inside a packet: " + describe(e))
            continue
        if exp[0] == "zlp":
            tags.add("zlp")
            if len(d) & (len(d) - 1) == 0:
                tags.add("zlp-after-power-of-two-length")
            if not p["zlp"] or p["bytes"]:
                fail(p["end"], "zlp-missing", "expected a zero-length packet, got %d byte(s) %s: %s"
                     % (len(p["bytes"]), p["bytes"][:8], describe(e)))
        else:
            want = exp[1]
            tags.add("full-packet" if len(want) == mps else "short-packet")
            if e["pos"] > 0:
                tags.add("continuation")
            if p["zlp"] or p["bytes"] != want:
                fail(p["end"], "wrong-chunk", "expected %d byte(s) %s…, got %s%d byte(s) %s…: %s"
                     % (len(want), want[:8], "ZLP/" if p["zlp"] else "", len(p["bytes"]), p["bytes"][:8], describe(e)))

    # data-stage level: reassemble every in-order read that reached its terminating packet
    n = 0
    while n < len(events):
        e0 = events[n]
        d = table.get(e0["value"])
        if d is None or e0["pos"] != 0 or e0["length"] == 0:
            n += 1
            continue
        total = min(e0["length"], len(d))
        got, k, done, sizes = [], n, False, []
        while k < len(events):
            e = events[k]
            if (e["value"], e["length"]) != (e0["value"], e0["length"]) or e["pos"] != (k - n) * mps:
                break
            if len(e["packets"]) != 1 or e["packets"][0]["end"] is None or e["stall"] is not None:
                break
            b = e["packets"][0]["bytes"]
            got += b
            sizes.append(len(b))
            k += 1
            if len(b) < mps or len(got) >= e0["length"]:
                done = True
                break
        if done:
            tags.add("datastage-%d-packets" % min(len(sizes), 4))
            last_t = events[k - 1]["packets"][0]["end"]
            zlp_needed = total % mps == 0 and total < e0["length"]
            ok = (got == list(d[:total]) and all(x <= mps for x in sizes)
                  and all(x == mps for x in sizes[:-1])
                  and ((sizes[-1] == 0) == zlp_needed or (sizes[-1] == 0 and total == 0)))
            if not ok and not fails:
                fail(last_t, "datastage-mismatch", "data stage of %s reassembled to %d byte(s) in packets %s; "
                     "expected the first %d byte(s) of the descriptor%s" % (describe(e0), len(got), sizes, total,
                                                                           " and a ZLP" if zlp_needed else ""))
        n = max(k, n + 1)
    return fails, tags


# --------------------------------------------------------------------------- framework entry points
def gen_cases(tier, rng):
    out = []
    if tier == "quick":
        n_proto, n_chaos, n_rom, n_std = 26, 8, 120, 10
    elif tier == "widen":
        n_proto, n_chaos, n_rom, n_std = 80, 10, 200, 30
    else:
        n_proto, n_chaos, n_rom, n_std = 260, 60, 2500, 100
    phys = [["always", 0]] * 5 + [["random", 70], ["random", 35], ["period", 3], ["period", 8]]
    for kind in ("block", "dist", "mux"):
        for k in range(n_proto):
            mps = MPS[k % 4]
            phy = rng.choice(phys)
            d = {"kind": kind, "mode": "proto", "mps": mps, "seed": rng.u64(), "phy": phy,
                 "budget": 2500 if phy[0] == "always" else 4000}
            if k % 13 == 5 and kind != "mux":
                d["realistic"] = 1
            out.append(d)
            if kind != "dist" and k % 2 == 0:
                out.append({"kind": "rom", "mode": "rom", "mps": mps, "seed": d["seed"],
                            "realistic": d.get("realistic", 0), "of": kind})
        for k in range(n_chaos):
            out.append({"kind": kind, "mode": "chaos", "mps": MPS[k % 4], "seed": rng.u64(), "cycles": 500})
        for k in range(n_std):
            out.append({"kind": kind, "mode": "std", "mps": MPS[k % 4], "seed": rng.u64(),
                        "phy": rng.choice(phys), "budget": 2500})
    for k in range(n_rom):
        out.append({"kind": "rom", "mode": "rom", "mps": 64, "seed": rng.u64(), "realistic": 1 if k % 17 == 3 else 0})
    return out


def run_case(desc):
    kind, mps = desc["kind"], desc["mps"]
    descrs, coll, dut = make_case_setup(desc)
    cfg_descrs = descrs
    if desc.get("of") == "mux":          # the ROM the mux's block handler is built from: the fixed part
        cfg_descrs = [x for x in descrs if not x[3]]
        coll = romtr.build(cfg_descrs, 0)
    cfg = [KIND_ID[kind], mps] + romtr.encode(cfg_descrs)
    tags = {"kind=" + kind, "mps=%d" % mps, "mode=" + desc["mode"]}
    if kind == "rom":
        dump = romtr.rom_dump(coll)
        if dump[2]:
            tags.add("rom-indirect-index-map")
        # romOk and wellFormed are evaluated by the Lean driver on the ROM it laid out itself
        return Case(cfg, [[0]], [[1, 1] + dump], [], tags, desc, ["-"], ["romOk", "wellFormed", "rom…"])
    rng = Rng(desc["seed"]).fork("stimulus")
    if desc["mode"] == "std":
        # (replays re-run the deterministic reactive script; the recorded stimulus is informational)
        lean_in, lean_out, mon_in, mon_out = simulate_std(dut, desc, descrs, mps, rng)
        fails, mtags = monitor(mon_in, mon_out, descrs, mps)
        tags |= mtags
        return Case(cfg, lean_in, lean_out, fails, sorted(tags), desc, NAMES_IN, NAMES_OUT)
    if desc.get("stimulus"):
        rows_in, rows_out = simulate(dut, desc["stimulus"], reactive=False)
    elif desc["mode"] == "chaos":
        rows_in, rows_out = simulate(dut, chaos_rows(desc, descrs, mps, rng), reactive=False)
    else:
        rows_in, rows_out = simulate(dut, proto_script(desc, descrs, mps, rng), reactive=True)
    fails = []
    if desc["mode"] != "chaos":
        fails, mtags = monitor(rows_in, rows_out, descrs, mps)
        tags |= mtags
    if any(o[4] for o in rows_out):
        tags.add("stall-seen")
    return Case(cfg, rows_in, [list(o) for o in rows_out], fails, sorted(tags), desc, NAMES_IN, NAMES_OUT)
