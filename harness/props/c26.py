"""C26 — stream arbiter (luna/gateware/stream/arbiter.py: StreamArbiter; HeaderQueueArbiter in
usb3/link/header.py and SuperSpeedStreamArbiter in usb/stream.py are thin subclasses)."""
from harness.common.framework import Case
from harness.common.rng import Rng
from harness.common import sim

PROP = "C26"
LEAN_MODULES = ["LunaVerif.Props.C26"]
DRIVER = "Driver/C26.lean"
REQUIRED_THEOREMS = ["forwards_only_selected", "no_switch_while_valid", "picks_highest_priority_waiting",
                     "ready_only_to_selected", "every_accepted_word_delivered_once", "idle_iff_none_valid",
                     "burst_not_interrupted", "reachable_lt"]
RULE = ("cases = (stream type in {byte StreamInterface, 16-bit StreamInterface, USBRawSuperSpeedStream via "
        "SuperSpeedStreamArbiter, HeaderQueue via HeaderQueueArbiter}, n in 1..4 (thorough: ..6)) x producer/consumer "
        "pattern; producers: well-behaved bursts (hold valid+data until accepted), always-valid, sparse, and "
        "ill-behaved random valid; consumer ready: always, random densities, long stalls")
ASSUMPTIONS = ["valid is one bit wide (true of every stream type the repository arbitrates)",
               "n >= 1 streams have been added"]
PARTIAL = ""

KINDS = ["byte", "wide16", "ss_raw", "header"]


def _leaves(rec):
    """Leaf signals of an amaranth.hdl.rec.Record in layout order."""
    from amaranth.hdl.rec import Record
    out = []
    for name in rec.fields:
        f = rec.fields[name]
        if isinstance(f, Record):
            out.extend(_leaves(f))
        else:
            out.append(f)
    return out


def build(kind, n):
    """Returns (dut, domain, sinks, source, data_signals(stream))."""
    from luna.gateware.stream import StreamInterface
    from luna.gateware.stream.arbiter import StreamArbiter
    if kind == "byte":
        dut, dom, mk = StreamArbiter(), "sync", (lambda: StreamInterface())
    elif kind == "wide16":
        dut, dom, mk = (StreamArbiter(stream_type=lambda: StreamInterface(payload_width=16), domain="usb"), "usb",
                        (lambda: StreamInterface(payload_width=16)))
    elif kind == "ss_raw":
        from luna.gateware.usb.stream import SuperSpeedStreamArbiter, USBRawSuperSpeedStream
        dut, dom, mk = SuperSpeedStreamArbiter(), "ss", (lambda: USBRawSuperSpeedStream())
    elif kind == "header":
        from luna.gateware.usb.usb3.link.header import HeaderQueueArbiter, HeaderQueue
        dut, dom, mk = HeaderQueueArbiter(), "ss", (lambda: HeaderQueue())
    else:
        raise ValueError(kind)
    sinks = [mk() for _ in range(n)]
    for s in sinks:
        (dut.add_producer if kind == "header" else dut.add_stream)(s)

    def data_signals(stream):
        return [sig for sig in _leaves(stream) if sig is not stream.valid and sig is not stream.ready]
    return dut, dom, sinks, dut.source, data_signals


def gen_cases(tier, rng):
    out = []
    ns = [1, 2, 3, 4] if tier != "thorough" else [1, 2, 3, 4, 5, 6]
    per = {"quick": 3, "widen": 8, "thorough": 24}[tier]
    k = 0
    for kind in KINDS:
        for n in ns:
            for _ in range(per):
                out.append({"kind": kind, "n": n, "seed": rng.u64(), "k": k,
                            "cycles": 400 if tier == "quick" else 900})
                k += 1
    return out


def make_stimulus(n, widths, rng, k, L):
    """rows: [valid_0, data_0, valid_1, data_1, …, source_ready] with data_i = all data fields packed into one
    integer (this is also the Lean driver's input format, so replays carry exactly these rows)"""
    widths = [sum(widths)]
    prod_mode = [rng.choice(["burst", "burst", "always", "sparse", "wild"]) for _ in range(n)]
    if k % 7 == 0:
        prod_mode = ["always"] * n
    if k % 7 == 1:
        prod_mode = ["wild"] * n
    ready_mode = ["always", "dense", "sparse", "stalls", "half"][k % 5]
    st = [{"valid": 0, "left": 0, "gap": rng.range(0, 6), "data": [0] * len(widths)} for _ in range(n)]
    rows = []
    sel = 0        # only used to let the well-behaved producers see their own `ready` (stimulus realism)
    stall = 0
    for t in range(L):
        if ready_mode == "always":
            rdy = 1
        elif ready_mode == "dense":
            rdy = int(rng.chance(85))
        elif ready_mode == "sparse":
            rdy = int(rng.chance(15))
        elif ready_mode == "half":
            rdy = t & 1
        else:
            if stall > 0:
                stall -= 1
                rdy = 0
            else:
                rdy = 1
                if rng.chance(10):
                    stall = rng.range(1, 12)
        row = []
        for i in range(n):
            s = st[i]
            mode = prod_mode[i]
            if mode == "wild":
                s["valid"] = int(rng.chance(50))
                s["data"] = [rng.bits(w) for w in widths]
            elif mode == "always":
                if not s["valid"]:
                    s["valid"] = 1
                    s["data"] = [rng.bits(w) for w in widths]
            else:
                if not s["valid"]:
                    if s["gap"] > 0:
                        s["gap"] -= 1
                    else:
                        s["valid"] = 1
                        s["left"] = rng.range(1, 6)
                        s["data"] = [rng.bits(w) for w in widths]
            row.append(s["valid"])
            row.extend(s["data"])
        row.append(rdy)
        rows.append(row)
        # advance the well-behaved producers using the reference selection
        valids = [st[i]["valid"] for i in range(n)]
        if valids[sel] and rdy:
            s = st[sel]
            mode = prod_mode[sel]
            if mode == "always":
                s["data"] = [rng.bits(w) for w in widths]
            elif mode != "wild":
                s["left"] -= 1
                if s["left"] <= 0:
                    s["valid"] = 0
                    s["gap"] = rng.range(0, 4) if mode == "burst" else rng.range(5, 40)
                else:
                    s["data"] = [rng.bits(w) for w in widths]
        if not valids[sel] and any(valids):
            sel = valids.index(1)
    return rows


def _unpack(v, widths):
    out = []
    for w in widths:
        out.append(v & ((1 << w) - 1))
        v >>= w
    return out


def _pack(vals, widths):
    v, sh = 0, 0
    for x, w in zip(vals, widths):
        v |= (x & ((1 << w) - 1)) << sh
        sh += w
    return v


def monitor(n, valids, datas, readys_in, src_valid, src_data, sink_readys, idle):
    """The property on the real trace.  valids[t][k], datas[t][k] (packed), readys_in[t] = source.ready;
    observed: src_valid[t], src_data[t], sink_readys[t][k], idle[t]."""
    fails = []

    def fail(t, sig, what):
        fails.append({"cycle": t, "sig": sig, "what": "n=%d cycle %d: %s" % (n, t, what)})

    sel = 0                      # the selected input according to the property's own selection rule
    src_tr, snk_tr = [], []      # (cycle, word) / (cycle, sink, word)
    for t in range(len(valids)):
        v, d = valids[t], datas[t]
        if src_valid[t] != v[sel] or src_data[t] != d[sel]:
            fail(t, "src-not-selected", "source carries valid=%d data=%#x but the selected input %d offers valid=%d "
                 "data=%#x" % (src_valid[t], src_data[t], sel, v[sel], d[sel]))
            break
        want = [int(k == sel and readys_in[t]) for k in range(n)]
        if list(sink_readys[t]) != want:
            fail(t, "ready-not-selected", "sink readys %r, only the selected input %d may see source.ready=%d"
                 % (list(sink_readys[t]), sel, readys_in[t]))
            break
        if idle[t] != int(not any(v)):
            fail(t, "idle-wrong", "idle=%d while input valids are %r" % (idle[t], v))
            break
        if src_valid[t] and readys_in[t]:
            src_tr.append((t, src_data[t]))
        for k in range(n):
            if v[k] and sink_readys[t][k]:
                snk_tr.append((t, k, d[k]))
        # selection rule: keep while valid; otherwise the highest-priority (lowest index) waiting input
        if not v[sel] and any(v):
            sel = v.index(1)
    if not fails:
        # every accepted word is delivered exactly once, in order (stated on the observed handshakes only)
        if [(t, w) for (t, w) in src_tr] != [(t, w) for (t, _, w) in snk_tr]:
            fail(0, "word-lost-or-duplicated", "accepted words %r differ from delivered words %r"
                 % (snk_tr[:6], src_tr[:6]))
        # bursts are never interleaved: between accepted words of two different inputs a, b the valid of a dropped
        for (t1, a, _), (t2, b, _) in zip(snk_tr, snk_tr[1:]):
            if a != b and not any(valids[t][a] == 0 for t in range(t1 + 1, t2)):
                fail(t2, "burst-interleaved", "input %d accepted at %d and input %d at %d although %d held valid"
                     % (a, t1, b, t2, a))
                break
    return fails, len(src_tr), len({k for (_, k, _) in snk_tr})


def run_case(desc):
    kind, n = desc["kind"], desc["n"]
    dut, dom, sinks, source, data_signals = build(kind, n)
    fields = [data_signals(s) for s in sinks]
    widths = [len(sig) for sig in fields[0]]
    src_fields = data_signals(source)
    assert [len(s) for s in src_fields] == widths
    inputs = []
    for s, fs in zip(sinks, fields):
        inputs.append(s.valid)
        inputs.extend(fs)
    inputs.append(source.ready)
    outputs = [source.valid] + src_fields + [s.ready for s in sinks] + [dut.idle]
    stim = desc.get("stimulus") or make_stimulus(n, widths, Rng(desc["seed"]), desc.get("k", 0), desc.get("cycles", 400))
    nf = len(widths)
    total = sum(widths)
    valids = [[r[2 * i] & 1 for i in range(n)] for r in stim]
    datas = [[r[2 * i + 1] & ((1 << total) - 1) for i in range(n)] for r in stim]
    rdy = [r[2 * n] & 1 for r in stim]
    sim_rows = [[x for i in range(n) for x in [valids[t][i]] + _unpack(datas[t][i], widths)] + [rdy[t]]
                for t in range(len(stim))]
    rows = sim.run_cycles(dut, inputs, outputs, sim_rows, domain=dom)
    src_valid = [r[0] for r in rows]
    src_data = [_pack(r[1:1 + nf], widths) for r in rows]
    sink_readys = [list(r[1 + nf:1 + nf + n]) for r in rows]
    idle = [r[-1] for r in rows]
    fails, ntr, nsrc = monitor(n, valids, datas, rdy, src_valid, src_data, sink_readys, idle)
    lean_in = [[x for i in range(n) for x in (valids[t][i], datas[t][i])] + [rdy[t]] for t in range(len(stim))]
    lean_out = [[src_valid[t], src_data[t]] + sink_readys[t] + [idle[t]] for t in range(len(stim))]
    tags = ["kind=" + kind, "n=%d" % n, "transfers>0" if ntr else "transfers=0",
            "inputs-served=%d" % nsrc, "idle-seen" if any(idle) else "idle-never",
            "stalled-valid" if any(src_valid[t] and not rdy[t] for t in range(len(stim))) else "no-stall"]
    return Case([n], lean_in, lean_out, fails, tags, desc,
                [x for i in range(n) for x in ("valid%d" % i, "data%d" % i)] + ["source_ready"],
                ["source_valid", "source_data"] + ["ready%d" % i for i in range(n)] + ["idle"])
