/-
XOR algebras: the machinery that lets a statement about an XOR network be checked on its
*coefficient table* and then hold for all 2^n inputs.

* `XorAlg α` is a type with `zero` and `xor`.  The bit-serial CRC / LFSR (`serialStep`, `serial`,
  `keystream`) and the meaning of a translator-generated table (`net`) are written once, for every
  `XorAlg`, in *linear form*: they never branch on a value of `α` (only on the polynomial / table,
  which are literals).
* `Bool` is an instance (the real thing).  `Sym n` — coefficient vectors over `n` variables with
  pointwise xor — is the symbolic instance.
* Any function built this way commutes with every homomorphism of XOR algebras
  (`map_serialStep`, `map_serial`, `map_keystream`, `map_net`), in particular with evaluation
  `eval ρ : Sym n → Bool` under an assignment `ρ` (`evalHom`).  So an equation between two such
  functions that holds on the symbolic unit vectors `symIn` (a finite table, closed by
  `decide +kernel`) holds for every Boolean input (`transfer_*`).

Core Lean only (models import this file and are linked into native drivers).
-/
import LunaVerif.Core.Crc

namespace LunaVerif.XorAlg

class XorAlg (α : Type) where
  zero : α
  xor : α → α → α

open XorAlg

instance : XorAlg Bool := ⟨false, fun a b => a != b⟩

/-! ## The generic (linear-form) definitions -/
section generic
variable {α : Type} [XorAlg α]

/-- One step of the serial CRC register (index 0 = LSB): feedback = MSB xor data bit; shift towards
the MSB; xor the feedback into the positions named by the polynomial (LSB first, top term
omitted).  At `α = Bool` this is literally `Crc.serialStep`. -/
def serialStep (poly : List Bool) (reg : List α) (d : α) : List α :=
  let fb := xor (reg.getLastD zero) d
  let shifted := zero :: reg.dropLast
  List.zipWith (fun p s => if p then xor s fb else s) poly shifted

def serial (poly : List Bool) (init : List α) (bits : List α) : List α :=
  bits.foldl (serialStep poly) init

/-- The check field bits in transmission order: complemented register, MSB first.  `one` is the
constant-true element. -/
def fieldBits (one : α) (reg : List α) : List α := reg.reverse.map (xor one)

/-- A free-running LFSR is the serial CRC register fed with zeros; its output bit is the MSB before
each advance.  `keystream poly k reg` = the next `k` output bits. -/
def keystream (poly : List Bool) : Nat → List α → List α
  | 0, _ => []
  | k + 1, reg => reg.getLastD zero :: keystream poly k (serialStep poly reg zero)

/-- Register after `k` advances of the free-running LFSR. -/
def advance (poly : List Bool) (k : Nat) (reg : List α) : List α :=
  serial poly reg (List.replicate k zero)

/-- Meaning of one row of a generated table: xor of the selected inputs, complemented when the
flag is set. -/
def row (one : α) (inp : List α) (r : List Nat × Bool) : α :=
  r.1.foldl (fun acc i => xor acc (inp.getD i zero)) (if r.2 then one else zero)

/-- Meaning of a generated table: one output bit per row. -/
def net (one : α) (inp : List α) (t : List (List Nat × Bool)) : List α := t.map (row one inp)

end generic

/-- A table is well formed for `n` inputs when every index it mentions exists (so `getD`'s default
in `row` is never used). -/
def wellFormed (n : Nat) (t : List (List Nat × Bool)) : Bool := t.all (fun r => r.1.all (· < n))

/-! ## Homomorphisms -/

structure IsHom {α β : Type} [XorAlg α] [XorAlg β] (h : α → β) : Prop where
  zero : h zero = zero
  xor : ∀ a b, h (xor a b) = xor (h a) (h b)

section hom
variable {α β : Type} [XorAlg α] [XorAlg β] {h : α → β}

theorem map_getLastD (hh : IsHom h) (l : List α) : (l.map h).getLastD zero = h (l.getLastD zero) := by
  rw [List.getLastD_eq_getLast?, List.getLastD_eq_getLast?, List.getLast?_map]
  cases l.getLast? <;> simp [hh.zero]

theorem map_serialStep (hh : IsHom h) (poly : List Bool) (reg : List α) (d : α) :
    (serialStep poly reg d).map h = serialStep poly (reg.map h) (h d) := by
  simp only [serialStep, map_getLastD hh, ← hh.xor]
  rw [List.map_zipWith]
  have : (zero : β) :: (reg.map h).dropLast = ((zero : α) :: reg.dropLast).map h := by
    simp [hh.zero, List.map_dropLast]
  rw [this, List.zipWith_map_right]
  congr 1
  funext p s
  cases p <;> simp [hh.xor]

theorem map_serial (hh : IsHom h) (poly : List Bool) (init bits : List α) :
    (serial poly init bits).map h = serial poly (init.map h) (bits.map h) := by
  induction bits generalizing init with
  | nil => rfl
  | cons b bs ih => simp only [serial, List.foldl_cons, List.map_cons] at *
                    rw [ih, map_serialStep hh]

theorem map_fieldBits (hh : IsHom h) (one : α) (reg : List α) :
    (fieldBits one reg).map h = fieldBits (h one) (reg.map h) := by
  simp [fieldBits, List.map_reverse, hh.xor, Function.comp_def]

theorem map_keystream (hh : IsHom h) (poly : List Bool) (k : Nat) (reg : List α) :
    (keystream poly k reg).map h = keystream poly k (reg.map h) := by
  induction k generalizing reg with
  | zero => rfl
  | succ k ih => simp only [keystream, List.map_cons, ih, map_serialStep hh, map_getLastD hh, hh.zero]

theorem map_advance (hh : IsHom h) (poly : List Bool) (k : Nat) (reg : List α) :
    (advance poly k reg).map h = advance poly k (reg.map h) := by
  simp [advance, map_serial hh, hh.zero]

theorem map_row (hh : IsHom h) (one : α) (inp : List α) (r : List Nat × Bool) :
    h (row one inp r) = row (h one) (inp.map h) r := by
  obtain ⟨idx, inv⟩ := r
  simp only [row]
  have start : h (if inv then one else zero) = (if inv then h one else zero) := by
    cases inv <;> simp [hh.zero]
  rw [← start]
  generalize (if inv then one else zero) = acc
  induction idx generalizing acc with
  | nil => rfl
  | cons i is ih =>
    simp only [List.foldl_cons]
    rw [ih, hh.xor]
    congr 3
    simp only [List.getD_eq_getElem?_getD, List.getElem?_map]
    cases inp[i]? <;> simp [hh.zero]

theorem map_net (hh : IsHom h) (one : α) (inp : List α) (t : List (List Nat × Bool)) :
    (net one inp t).map h = net (h one) (inp.map h) t := by
  simp [net, map_row hh, Function.comp_def]

end hom

/-! ## The symbolic instance -/

/-- Coefficient vector over any number of variables, packed into a natural number: bit `i` is the
coefficient of variable `i`.  (Packed so that the kernel evaluates `xor` with its built-in
`Nat.xor`; with lists of `Bool` the table checks below take minutes instead of a second.) -/
structure Sym where
  m : Nat
deriving DecidableEq, Repr

instance : XorAlg Sym := ⟨⟨0⟩, fun a b => ⟨a.m ^^^ b.m⟩⟩

/-- Value of a coefficient vector under the assignment `ρ` (variable `i` ↦ `ρ[i]`). -/
def evalN : List Bool → Nat → Bool
  | [], _ => false
  | r :: rs, m => ((r && m.testBit 0) != evalN rs (m >>> 1))

def eval (ρ : List Bool) (s : Sym) : Bool := evalN ρ s.m

theorem evalN_zero (ρ : List Bool) : evalN ρ 0 = false := by
  induction ρ with
  | nil => rfl
  | cons r rs ih => simp [evalN, ih]

theorem evalN_xor (ρ : List Bool) (a b : Nat) : evalN ρ (a ^^^ b) = (evalN ρ a != evalN ρ b) := by
  induction ρ generalizing a b with
  | nil => rfl
  | cons r rs ih =>
    simp only [evalN, Nat.shiftRight_xor_distrib, ih, Nat.testBit_xor]
    cases r <;> cases a.testBit 0 <;> cases b.testBit 0 <;> simp

/-- Evaluation is a homomorphism `Sym → Bool` — the once-and-for-all fact (`eval_hom`). -/
theorem evalHom (ρ : List Bool) : IsHom (eval ρ) where
  zero := evalN_zero ρ
  xor a b := evalN_xor ρ a.m b.m

/-- The `n` unit vectors `1, 2, 4, …`. -/
def unitsN : Nat → List Nat
  | 0 => []
  | n + 1 => 1 :: (unitsN n).map (2 * ·)

theorem evalN_double (r : Bool) (rs : List Bool) (x : Nat) : evalN (r :: rs) (2 * x) = evalN rs x := by
  simp only [evalN]
  have h0 : (2 * x).testBit 0 = false := by simp [Nat.testBit_zero]
  have h1 : (2 * x) >>> 1 = x := by simp [Nat.shiftRight_succ]
  simp [h0, h1]

theorem map_evalN_unitsN (ρ : List Bool) : (unitsN ρ.length).map (evalN ρ) = ρ := by
  induction ρ with
  | nil => rfl
  | cons r rs ih =>
    simp only [List.length_cons, unitsN, List.map_cons, List.map_map]
    congr 1
    · simp [evalN, evalN_zero]
    · have : (evalN (r :: rs) ∘ fun x => 2 * x) = evalN rs := by
        funext x; exact evalN_double r rs x
      rw [this, ih]

/-- Symbolic inputs: variable 0 is the constant `true`, variables `1 … n` are the inputs. -/
def symOne : Sym := ⟨1⟩
def symIn (n : Nat) : List Sym := ((unitsN n).map (2 * ·)).map (fun c => ⟨c⟩)

theorem eval_symOne (ρ : List Bool) : eval (true :: ρ) symOne = true := by
  simp [eval, symOne, evalN, evalN_zero]

theorem eval_symIn (ρ : List Bool) : (symIn ρ.length).map (eval (true :: ρ)) = ρ := by
  have h := map_evalN_unitsN (true :: ρ)
  simp only [List.length_cons, unitsN, List.map_cons, List.cons.injEq] at h
  simp only [symIn, List.map_map]
  simpa [Function.comp_def, eval] using h.2

/-! ## Transfer: a symbolic table equation holds for all Boolean inputs -/

/-- Generic transfer principle.  `f` and `g` are the two sides instantiated at `Sym` and at `Bool`,
each with the naturality fact that evaluation commutes with it (supplied by the `map_*` lemmas). -/
theorem transfer {n : Nat} (ρ : List Bool) (hρ : ρ.length = n)
    (fS gS : Sym → List (Sym) → List (Sym))
    (fB gB : Bool → List Bool → List Bool)
    (hf : ∀ o i, (fS o i).map (eval (true :: ρ)) = fB (eval (true :: ρ) o) (i.map (eval (true :: ρ))))
    (hg : ∀ o i, (gS o i).map (eval (true :: ρ)) = gB (eval (true :: ρ) o) (i.map (eval (true :: ρ))))
    (table : fS symOne (symIn n) = gS symOne (symIn n)) :
    fB true ρ = gB true ρ := by
  subst hρ
  have := congrArg (List.map (eval (true :: ρ))) table
  rwa [hf, hg, eval_symOne, eval_symIn] at this

/-- next-state networks: table `t` over inputs (register `k` bits ++ data) equals the serial CRC. -/
theorem transfer_step {n : Nat} (t : List (List Nat × Bool)) (poly : List Bool) (k : Nat)
    (table : net symOne (symIn n) t = serial poly ((symIn n).take k) ((symIn n).drop k))
    (ρ : List Bool) (hρ : ρ.length = n) :
    net true ρ t = serial poly (ρ.take k) (ρ.drop k) :=
  transfer ρ hρ (fun o i => net o i t) (fun _ i => serial poly (i.take k) (i.drop k))
    (fun o i => net o i t) (fun _ i => serial poly (i.take k) (i.drop k))
    (fun o i => map_net (evalHom _) o i t)
    (fun _ i => by rw [map_serial (evalHom _), List.map_take, List.map_drop])
    table

/-- whole-field networks (CRC5): table `t` over the message bits equals the complemented,
MSB-first register of the serial CRC started at all ones. -/
theorem transfer_field {n : Nat} (t : List (List Nat × Bool)) (poly : List Bool) (w : Nat)
    (table : net symOne (symIn n) t
              = fieldBits symOne (serial poly (List.replicate w symOne) (symIn n)))
    (ρ : List Bool) (hρ : ρ.length = n) :
    net true ρ t = fieldBits true (serial poly (List.replicate w true) ρ) :=
  transfer ρ hρ (fun o i => net o i t) (fun o i => fieldBits o (serial poly (List.replicate w o) i))
    (fun o i => net o i t) (fun o i => fieldBits o (serial poly (List.replicate w o) i))
    (fun o i => map_net (evalHom _) o i t)
    (fun o i => by rw [map_fieldBits (evalHom _), map_serial (evalHom _), List.map_replicate])
    table

/-- LFSR advance networks: table `t` over the register equals `k` serial advances. -/
theorem transfer_advance {n : Nat} (t : List (List Nat × Bool)) (poly : List Bool) (k : Nat)
    (table : net symOne (symIn n) t = advance poly k (symIn n))
    (ρ : List Bool) (hρ : ρ.length = n) :
    net true ρ t = advance poly k ρ :=
  transfer ρ hρ (fun o i => net o i t) (fun _ i => advance poly k i)
    (fun o i => net o i t) (fun _ i => advance poly k i)
    (fun o i => map_net (evalHom _) o i t)
    (fun _ i => map_advance (evalHom _) poly k i)
    table

/-- LFSR output networks: table `t` over the register equals the next `k` keystream bits. -/
theorem transfer_keystream {n : Nat} (t : List (List Nat × Bool)) (poly : List Bool) (k : Nat)
    (table : net symOne (symIn n) t = keystream poly k (symIn n))
    (ρ : List Bool) (hρ : ρ.length = n) :
    net true ρ t = keystream poly k ρ :=
  transfer ρ hρ (fun o i => net o i t) (fun _ i => keystream poly k i)
    (fun o i => net o i t) (fun _ i => keystream poly k i)
    (fun o i => map_net (evalHom _) o i t)
    (fun _ i => map_keystream (evalHom _) poly k i)
    table

/-! ## Connection with the reference definitions of `Core/Crc.lean` -/

theorem serialStep_bool (poly reg : List Bool) (d : Bool) :
    serialStep poly reg d = Crc.serialStep poly reg d := rfl

theorem serial_bool (poly init bits : List Bool) :
    serial poly init bits = Crc.serial poly init bits := rfl

theorem fieldBits_bool (reg : List Bool) : fieldBits true reg = reg.reverse.map (!·) := by
  simp [fieldBits, XorAlg.xor]

theorem length_serialStep {α : Type} [XorAlg α] (poly : List Bool) (reg : List α) (d : α)
    (h : reg.length = poly.length) (hp : 0 < poly.length) : (serialStep poly reg d).length = poly.length := by
  simp only [serialStep, List.length_zipWith, List.length_cons, List.length_dropLast]
  omega

theorem length_serial {α : Type} [XorAlg α] (poly : List Bool) (reg bits : List α)
    (h : reg.length = poly.length) (hp : 0 < poly.length) : (serial poly reg bits).length = poly.length := by
  induction bits generalizing reg with
  | nil => exact h
  | cons b bs ih => exact ih _ (length_serialStep poly reg b h hp)

theorem serial_append {α : Type} [XorAlg α] (poly : List Bool) (reg a b : List α) :
    serial poly reg (a ++ b) = serial poly (serial poly reg a) b := by
  simp [serial, List.foldl_append]

end LunaVerif.XorAlg
