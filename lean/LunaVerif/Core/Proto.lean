/-
Line protocol shared by every model driver (no Mathlib; core Lean only).

The Python harness simulates the real gateware and writes one line per clock cycle holding the
*input* port values of that cycle as space-separated decimal naturals.  A line starting with `#`
opens a new case: the naturals after the `#` are the build-time configuration of the model, and
the model is put back into its reset state.  For every input line the driver prints one line of
output port values (again space separated decimals), for every `#` line it prints `#`.

The harness then diffs the driver's output against the ports it recorded from the simulator.
-/
namespace LunaVerif.Proto

def parseNats (line : String) : List Nat :=
  (line.splitOn " ").filterMap (fun w => if w.isEmpty then none else w.toNat?)

def showNats (xs : List Nat) : String :=
  " ".intercalate (xs.map toString)

def b2n (b : Bool) : Nat := if b then 1 else 0
def n2b (n : Nat) : Bool := n != 0

/-- Fetch the i-th field of an input line (0 when absent: the harness always sends all fields;
the default only keeps the driver total). -/
def fld (xs : List Nat) (i : Nat) : Nat := xs.getD i 0

/-- Generic cycle driver: `init cfg` builds the reset state for a configuration line, `step`
consumes the input fields of one cycle and returns the next state and the output fields. -/
partial def loop {σ : Type} (h : IO.FS.Stream) (out : IO.FS.Stream)
    (init : List Nat → σ) (step : σ → List Nat → σ × List Nat) (s : σ) : IO Unit := do
  let line ← h.getLine
  if line.isEmpty then
    out.flush
    return ()
  let line := line.trimAscii.toString
  if line.startsWith "#" then
    out.putStrLn "#"
    loop h out init step (init (parseNats (line.drop 1).toString))
  else
    let (s', o) := step s (parseNats line)
    out.putStrLn (showNats o)
    loop h out init step s'

def runDriver {σ : Type} (init : List Nat → σ) (step : σ → List Nat → σ × List Nat) : IO Unit := do
  let stdin ← IO.getStdin
  let stdout ← IO.getStdout
  loop stdin stdout init step (init [])

end LunaVerif.Proto
