import LunaVerif.Core.Utmi
/-
Additive extension of `Core/Utmi.lean` (C01, C04, C21): the *meaning* of "the packets received in a
UTMI history", as a small tracker over raw cycles, so that detector theorems can be stated for every
raw history (no rendering needed) and then transported to rendered packet lists by `packetsOf_renderAll`.

`Track` = the bytes of the packet in progress (`none` = line idle).  A packet starts in the cycle
`rx_active` is first seen high (that cycle carries no byte in a legal history), collects one byte
per `rx_valid` cycle, and completes in the first cycle with `rx_active` low.

Core Lean only.
-/
namespace LunaVerif.Utmi

abbrev Track := Option (List Nat)

def trackNext (cur : Track) (c : RxCycle) : Track :=
  match cur with
  | none => if c.active then some [] else none
  | some bs => if !c.active then none else if c.valid then some (bs ++ [c.data]) else some bs

/-- The packet (list of bytes) that completes in this cycle, if any. -/
def trackDone (cur : Track) (c : RxCycle) : Option (List Nat) :=
  match cur with
  | some bs => if !c.active then some bs else none
  | none => none

/-- Tracker state after the cycles `past` (most recent first), from an idle line. -/
def trackAfter : List RxCycle → Track
  | [] => none
  | c :: past => trackNext (trackAfter past) c

/-- All packets completed during a history (oldest first), starting from tracker state `cur`. -/
def packetsOf : Track → List RxCycle → List (List Nat)
  | _, [] => []
  | cur, c :: cs =>
    match trackDone cur c with
    | some p => p :: packetsOf (trackNext cur c) cs
    | none => packetsOf (trackNext cur c) cs

/-- Tracker state at the end of a history. -/
def trackEnd : Track → List RxCycle → Track
  | cur, [] => cur
  | cur, c :: cs => trackEnd (trackNext cur c) cs

theorem packetsOf_append (cur : Track) (a b : List RxCycle) :
    packetsOf cur (a ++ b) = packetsOf cur a ++ packetsOf (trackEnd cur a) b := by
  induction a generalizing cur with
  | nil => rfl
  | cons c cs ih =>
    simp only [List.cons_append, packetsOf, trackEnd]
    cases trackDone cur c <;> simp [ih]

theorem trackEnd_append (cur : Track) (a b : List RxCycle) :
    trackEnd cur (a ++ b) = trackEnd (trackEnd cur a) b := by
  induction a generalizing cur with
  | nil => rfl
  | cons c cs ih => simp only [List.cons_append, trackEnd, ih]

/-! ### Rendered packets -/

theorem packetsOf_waits (bs : List Nat) (ws : List Nat) :
    packetsOf (some bs) (ws.map waitC) = [] ∧ trackEnd (some bs) (ws.map waitC) = some bs := by
  induction ws with
  | nil => exact ⟨rfl, rfl⟩
  | cons w ws ih => simpa [packetsOf, trackEnd, trackDone, trackNext, waitC] using ih

theorem packetsOf_slots (bs : List Nat) (slots : List (Nat × List Nat)) :
    packetsOf (some bs) (renderSlots slots) = [] ∧
    trackEnd (some bs) (renderSlots slots) = some (bs ++ slots.map (·.1)) := by
  induction slots generalizing bs with
  | nil => simp [renderSlots, packetsOf, trackEnd]
  | cons s rest ih =>
    obtain ⟨b, ws⟩ := s
    have hw := packetsOf_waits (bs ++ [b]) ws
    have hr := ih (bs ++ [b])
    simp only [renderSlots, packetsOf, trackEnd, trackDone, trackNext, byteC, Bool.not_true,
      Bool.false_eq_true, if_false, if_true, packetsOf_append, trackEnd_append, hw.1, hw.2, hr.1,
      hr.2, List.map_cons, List.append_assoc, List.singleton_append, List.nil_append, and_self]

theorem packetsOf_idles (g : List Nat) :
    packetsOf none (g.map idleC) = [] ∧ trackEnd none (g.map idleC) = none := by
  induction g with
  | nil => exact ⟨rfl, rfl⟩
  | cons w ws ih => simpa [packetsOf, trackEnd, trackDone, trackNext, idleC] using ih

/-- A well-formed rendered packet is seen by the tracker as exactly one packet with its bytes, and
leaves the line idle. -/
theorem packetsOf_render (p : RxPacket) (h : p.wf) :
    packetsOf none (render p) = [p.bytes] ∧ trackEnd none (render p) = none := by
  obtain ⟨lead, slots, gap⟩ := p
  obtain ⟨hl, hg⟩ := h
  cases lead with
  | nil => exact absurd rfl hl
  | cons l ls =>
    cases gap with
    | nil => exact absurd rfl hg
    | cons g gs =>
      have h1 := packetsOf_waits [] ls
      have h2 := packetsOf_slots [] slots
      have h3 := packetsOf_idles gs
      simp only [render, List.map_cons, List.cons_append, packetsOf, trackEnd, trackDone, trackNext,
        waitC, if_true, packetsOf_append, trackEnd_append]
      simp only [h1.1, h1.2, h2.1, h2.2, List.nil_append, idleC, packetsOf, trackEnd, trackDone,
        trackNext, Bool.not_false, if_true]
      simp [h3.1, h3.2, RxPacket.bytes]

theorem packetsOf_renderAll (ps : List RxPacket) (h : ∀ p ∈ ps, p.wf) :
    packetsOf none (renderAll ps) = ps.map (·.bytes) ∧ trackEnd none (renderAll ps) = none := by
  induction ps with
  | nil => exact ⟨rfl, rfl⟩
  | cons p ps ih =>
    have hp := packetsOf_render p (h p (by simp))
    have hr := ih (fun q hq => h q (by simp [hq]))
    simp only [renderAll, List.flatMap_cons] at hr ⊢
    rw [packetsOf_append, trackEnd_append, hp.1, hp.2, hr.1, hr.2]
    simp

end LunaVerif.Utmi
