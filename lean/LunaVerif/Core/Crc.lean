/-
Reference CRC definitions, written bit-serially from the specification texts (USB 2.0 §8.3.5,
USB 3.2 §7.2): shift register, MSB feedback, data bits in transmission order (LSB of each byte
first), all-ones seed, complemented remainder sent MSB first.  These are the *oracles*: models of
packet-level gateware use them directly, and C30 proves that the XOR networks in the gateware
(regenerated from /repo by the translator) compute exactly these functions.

Core Lean only (models import this file and are linked into native drivers).
-/
namespace LunaVerif.Crc

/-- Bits of `v`, least significant first, `n` of them. -/
def lsbBits (v n : Nat) : List Bool := (List.range n).map (fun i => v.testBit i)

/-- Value of a bit list, least significant first. -/
def ofLsbBits : List Bool → Nat
  | [] => 0
  | b :: bs => (if b then 1 else 0) + 2 * ofLsbBits bs

/-- One step of the serial CRC register `reg` (list of `width` bits, index 0 = LSB): feedback =
MSB xor data bit; shift left; xor the polynomial (given without its top term, LSB first) when the
feedback is set. -/
def serialStep (poly : List Bool) (reg : List Bool) (d : Bool) : List Bool :=
  let fb := (reg.getLastD false) != d
  let shifted := false :: reg.dropLast
  List.zipWith (fun p s => if p then (s != fb) else s) poly shifted

def serial (poly : List Bool) (init : List Bool) (bits : List Bool) : List Bool :=
  bits.foldl (serialStep poly) init

/-- The transmitted check field as an integer whose bit 0 is sent first: complemented register,
MSB first. -/
def field (reg : List Bool) : Nat := ofLsbBits (reg.reverse.map (!·))

def ones (n : Nat) : List Bool := List.replicate n true

/-- USB 2.0 token CRC5: G(x) = x^5 + x^2 + 1 over the 11 token bits. -/
def usb2Crc5 (data11 : Nat) : Nat :=
  field (serial (lsbBits 0x05 5) (ones 5) (lsbBits data11 11))

def bytesBits (bs : List Nat) : List Bool := bs.flatMap (fun b => lsbBits b 8)

/-- USB 2.0 data CRC16: G(x) = x^16 + x^15 + x^2 + 1 over the payload bytes; result's low byte is
transmitted first. -/
def usb2Crc16 (payload : List Nat) : Nat :=
  field (serial (lsbBits 0x8005 16) (ones 16) (bytesBits payload))

/-- Running form used by receivers/transmitters: register after the payload so far. -/
def usb2Crc16Reg (payload : List Nat) : List Bool :=
  serial (lsbBits 0x8005 16) (ones 16) (bytesBits payload)

/-- USB 3 link-command CRC5 (same polynomial and conventions as USB2's). -/
def usb3Crc5 (data11 : Nat) : Nat := usb2Crc5 data11

/-- USB 3 header CRC16: poly 0x100B over 12 header bytes. -/
def usb3Crc16 (bytes : List Nat) : Nat :=
  field (serial (lsbBits 0x100B 16) (ones 16) (bytesBits bytes))

/-- USB 3 data payload CRC32: poly 0x04C11DB7. -/
def usb3Crc32 (payload : List Nat) : Nat :=
  field (serial (lsbBits 0x04C11DB7 32) (ones 32) (bytesBits payload))

end LunaVerif.Crc
