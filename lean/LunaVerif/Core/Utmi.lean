/-
UTMI receive-history vocabulary shared by the USB2 packet-layer models (C02, C06, …).
Core Lean only (models import this file and are linked into native drivers).

A UTMI receive history is one `RxCycle` per clock: `rx_active`, `rx_valid`, `rx_data`.
What a PHY may legally do (`LegalRx`): `rx_valid` only while `rx_active`, and never in the cycle
in which `rx_active` rises; packets (maximal runs of `rx_active`) are therefore separated by at
least one inactive cycle.  `rx_data` is unconstrained in cycles without `rx_valid`.

"For all legal histories" is presented to the proofs in *rendered* form: a history is a list of
`RxPacket`s, each carrying its bytes together with its complete timing (how many cycles the PHY
waits before the first byte and after every byte, how long the line is idle afterwards) and the
arbitrary `rx_data` values of every cycle that carries no byte.  `render` maps it to cycles.
-/
namespace LunaVerif.Utmi

structure RxCycle where
  active : Bool
  valid  : Bool
  data   : Nat
deriving Repr, DecidableEq

/-- `rx_active` high without a byte (`rx_data = d` is arbitrary and must be ignored). -/
def waitC (d : Nat) : RxCycle := ⟨true, false, d⟩
/-- a byte delivered by the PHY. -/
def byteC (b : Nat) : RxCycle := ⟨true, true, b⟩
/-- line idle. -/
def idleC (d : Nat) : RxCycle := ⟨false, false, d⟩

/-- One received packet with its timing.  The `Nat`s in `lead`, in the second components of
`slots` and in `gap` are the (don't-care) `rx_data` values of the byte-less cycles, so the list
lengths are the numbers of such cycles. -/
structure RxPacket where
  lead  : List Nat                 -- cycles between `rx_active` rising and the first byte  (≥ 1)
  slots : List (Nat × List Nat)    -- every byte, and the wait cycles following it
  gap   : List Nat                 -- inactive cycles after the packet                       (≥ 1)
deriving Repr, DecidableEq

def RxPacket.bytes (p : RxPacket) : List Nat := p.slots.map (·.1)

/-- The constraints a legal PHY obeys. -/
def RxPacket.wf (p : RxPacket) : Prop := p.lead ≠ [] ∧ p.gap ≠ []

instance (p : RxPacket) : Decidable p.wf := by unfold RxPacket.wf; infer_instance

def renderSlots : List (Nat × List Nat) → List RxCycle
  | [] => []
  | (b, ws) :: rest => byteC b :: (ws.map waitC ++ renderSlots rest)

def render (p : RxPacket) : List RxCycle :=
  p.lead.map waitC ++ (renderSlots p.slots ++ p.gap.map idleC)

def renderAll (ps : List RxPacket) : List RxCycle := ps.flatMap render

/-- Legality of a raw history, given whether `rx_active` was high in the cycle before it:
`rx_valid ⇒ rx_active`, and `rx_valid ⇒ rx_active` was already high one cycle earlier. -/
def legalFrom : Bool → List RxCycle → Bool
  | _, [] => true
  | prev, c :: cs => (!c.valid || (c.active && prev)) && legalFrom c.active cs

def LegalRx (h : List RxCycle) : Bool := legalFrom false h

end LunaVerif.Utmi
