import LunaVerif.Props.C56SpiProgress
/-!
# C56 — `SyncSerialILA`: the bit-level statement on the pins alone

`spi_readout_bits` speaks through the tracker `(K, n)` (words completed, output edges since the last word boundary), which is
computed along the model's run.  Here both components are tied to the `sck` waveform: `K = ⌊E / bits_per_word⌋`
(`spi_readout_progress`) and `n = E mod bits_per_word + 1` while the clock sits after an output edge (`track_bits`), `E` = sampling
edges so far.  `spi_readout_pins`: the controller's sampling edge number `E` reads bit `bits_per_word - 1 - E mod bits_per_word`
of recorded sample `⌊E / bits_per_word⌋` — for every clock waveform whose first edge in the window is an output edge.
-/

namespace LunaVerif.IlaSpi
open LunaVerif.Ila

/-- level of the (polarity-corrected) SPI clock after a stretch of cycles, from the pin -/
def clkAfter (c : SpiDevice.Config) : Bool → List In → Bool
  | p, [] => p
  | _, x :: xs => clkAfter c (x.sck != c.pol) xs

theorem pastClk_run (c : Config) (ws : List In) : ∀ s, (runState c s ws).spi.pastClk = clkAfter c.spi s.spi.pastClk ws := by
  induction ws with
  | nil => intro s; rfl
  | cons x xs ih =>
    intro s
    simp only [runState, clkAfter]
    rw [ih, (step_proj c s x).2.1, spi_step_pastClk]; rfl

/-- 1 while the clock sits at the level it has after an output edge (`phase`), 0 at the level after a sampling edge -/
def afterOut (ph p : Bool) : Nat := bif p == ph then 1 else 0

theorem edge_levels (c : SpiDevice.Config) (p : Bool) (i : SpiDevice.In) :
    (SpiDevice.sampleEdge c p i = true → afterOut c.phase p = 1 ∧ afterOut c.phase (i.sck != c.pol) = 0) ∧
    (SpiDevice.outputEdge c p i = true → afterOut c.phase p = 0 ∧ afterOut c.phase (i.sck != c.pol) = 1) ∧
    (SpiDevice.sampleEdge c p i = false → SpiDevice.outputEdge c p i = false →
      afterOut c.phase (i.sck != c.pol) = afterOut c.phase p) := by
  simp only [SpiDevice.sampleEdge, SpiDevice.outputEdge, SpiDevice.leading, SpiDevice.trailing, SpiDevice.serialClock,
    afterOut]
  generalize (i.sck != c.pol) = k
  cases c.phase <;> cases p <;> cases k <;> simp

/-- output edges since the last word boundary = bits of the current word already sampled, plus one while the clock sits
after an output edge (level `phase`) -/
theorem track_bits (c : Config) (hw : 1 ≤ c.spi.w) (hcs : c.spi.csIdlesHigh = false) (ws : List In) :
    ∀ (K n : Nat) (s : State), s.spi.bitCount < c.spi.w →
      n = s.spi.bitCount + afterOut c.spi.phase s.spi.pastClk → InWindow ws →
      (track c (K, n) s ws).2 =
        (runState c s ws).spi.bitCount + afterOut c.spi.phase (runState c s ws).spi.pastClk := by
  induction ws with
  | nil => intro K n s _ hn _; simp only [track, runState]; exact hn
  | cons x xs ih =>
    intro K n s hb hn hin
    have hx := hin x (by simp)
    have hrest : InWindow xs := fun y hy => hin y (by simp [hy])
    have hselS : SpiDevice.selected c.spi (spiIn c s x) = true := by simp [SpiDevice.selected, spiIn, hcs, hx.1]
    obtain ⟨q1, _, _⟩ := spi_step_sel c.spi s.spi (spiIn c s x) hselS
    obtain ⟨_, p2, _⟩ := step_proj c s x
    have hpc : (step c s x).1.spi.pastClk = (x.sck != c.spi.pol) := by
      rw [p2, spi_step_pastClk]; rfl
    rw [← p2] at q1
    obtain ⟨l1, l2, l3⟩ := edge_levels c.spi s.spi.pastClk (spiIn c s x)
    have hsck : (spiIn c s x).sck = x.sck := rfl
    rw [hsck] at l1 l2 l3
    have key : ∀ (n' : Nat) (K' : Nat), n' = (step c s x).1.spi.bitCount + afterOut c.spi.phase (x.sck != c.spi.pol) →
        (step c s x).1.spi.bitCount < c.spi.w →
        (track c (K', n') (step c s x).1 xs).2 = (runState c (step c s x).1 xs).spi.bitCount +
          afterOut c.spi.phase (runState c (step c s x).1 xs).spi.pastClk := by
      intro n' K' h1 h2
      exact ih K' n' _ h2 (by rw [hpc]; exact h1) hrest
    simp only [track, runState]
    rcases Bool.eq_false_or_eq_true (SpiDevice.sampleEdge c.spi s.spi.pastClk (spiIn c s x)) with he | he
    · -- sampling edge
      obtain ⟨a1, a2⟩ := l1 he
      have ho := edges_excl c.spi s.spi.pastClk (spiIn c s x) he
      simp only [he, if_true] at q1
      by_cases hlast : s.spi.bitCount + 1 = c.spi.w
      · have hc : completing c.spi s.spi (spiIn c s x) = true := by simp [completing, he, hselS, hlast]
        have hbeq : (s.spi.bitCount + 1 == c.spi.w) = true := by simp [hlast]
        simp only [hbeq, if_true] at q1
        simp only [hc, if_true]
        exact key _ _ (by rw [q1, a2]) (by rw [q1]; omega)
      · have hc : completing c.spi s.spi (spiIn c s x) = false := by simp [completing, he, hlast]
        have hbeq : (s.spi.bitCount + 1 == c.spi.w) = false := by simp [hlast]
        simp only [hbeq, Bool.false_eq_true, if_false, SpiDevice.bc_wrap c.spi.w s.spi.bitCount (by omega)] at q1
        simp only [hc, ho, Bool.false_eq_true, if_false]
        exact key _ _ (by rw [q1, a2, hn, a1]) (by rw [q1]; omega)
    · have hc : completing c.spi s.spi (spiIn c s x) = false := by simp [completing, he]
      simp only [he, Bool.false_eq_true, if_false] at q1
      simp only [hc, Bool.false_eq_true, if_false]
      rcases Bool.eq_false_or_eq_true (SpiDevice.outputEdge c.spi s.spi.pastClk (spiIn c s x)) with ho | ho
      · obtain ⟨a1, a2⟩ := l2 ho
        simp only [ho, if_true]
        exact key _ _ (by rw [q1, a2, hn, a1]) (by rw [q1]; exact hb)
      · simp only [ho, Bool.false_eq_true, if_false]
        exact key _ _ (by rw [q1, l3 he ho, hn]) (by rw [q1]; exact hb)

/-- the SPI interface at the start of the chip-select window: bit counter 0, `past_clk` = the level of `sck` in `g4` -/
theorem window_spi_state (c : Config) (hcs : c.spi.csIdlesHigh = false) (hd : 1 ≤ c.ila.depth)
    (σ : State) (hσ : IdleState c.ila σ.core) (x0 : In) (ht : x0.trigger = true) (xs : List In)
    (hl : xs.length = c.ila.depth) (gs : List In) (hgs : AtRest gs) (g1 g2 g3 g4 : In)
    (hg : AtRest [g1, g2, g3, g4]) :
    (runState c σ (x0 :: xs ++ gs ++ [g1, g2, g3, g4])).spi.bitCount = 0 ∧
    (runState c σ (x0 :: xs ++ gs ++ [g1, g2, g3, g4])).spi.pastClk = (g4.sck != c.spi.pol) := by
  have hc := core_run c (x0 :: xs) σ
  obtain ⟨hi, hlen⟩ := coreHist_inputs c (x0 :: xs) σ
  have hcap := captures_depth_consecutive_samples c.ila hd σ.core hσ ⟨x0.trigger, x0.inputs, σ.rdaddr⟩ ht
    (coreHist c (step c σ x0).1 xs) (by simpa [coreHist, hl] using hlen)
  obtain ⟨k1, k2, k3, k4, _⟩ := hcap
  have hh : coreHist c σ (x0 :: xs) = ⟨x0.trigger, x0.inputs, σ.rdaddr⟩ :: coreHist c (step c σ x0).1 xs := rfl
  rw [← hh, ← hc] at k1 k2 k3 k4
  obtain ⟨r1, r2, r3, r4⟩ := rest_run c hcs _ gs (runState c σ (x0 :: xs)) k1 k2 k4 hgs
  obtain ⟨w1, _, _⟩ := window_start c hcs _ (runState c (runState c σ (x0 :: xs)) gs) r1 r2 r3 g1 g2 g3 g4 hg
  have happ : runState c σ (x0 :: xs ++ gs ++ [g1, g2, g3, g4]) =
      runState c (runState c (runState c σ (x0 :: xs)) gs) [g1, g2, g3, g4] := by
    rw [runState_append, runState_append]
  rw [← happ] at w1
  refine ⟨by have := w1.bc; omega, ?_⟩
  have h3 : runState c σ (x0 :: xs ++ gs ++ [g1, g2, g3, g4]) =
      (step c (runState c (runState c (runState c σ (x0 :: xs)) gs) [g1, g2, g3]) g4).1 := by
    rw [happ]
    have : [g1, g2, g3, g4] = [g1, g2, g3] ++ [g4] := rfl
    rw [this, runState_append]; rfl
  rw [h3, (step_proj c _ g4).2.1, spi_step_pastClk]; rfl

/-- **spi_readout_pins**: `spi_readout_bits` stated on the pins alone.  Hypotheses of `spi_readout_bits`, and the SPI clock rests,
before the window, at the level it has after a sampling edge (`hclk`: the first edge in the window is an output edge — the
monitor's "judged window" condition).  At ANY point of the chip-select window `ws` at which the clock sits after an output edge
(`clkAfter … = phase`: the next edge will be a sampling edge), with `E` = the number of sampling edges of `sck` in the window so
far: the `sdo` pin carries bit `bits_per_word - 1 - E mod bits_per_word` of recorded sample `⌊E / bits_per_word⌋` — i.e. the
controller's sampling edge number `E` (counting from 0) reads exactly that bit: the samples leave in order, MSB first,
`bits_per_word` clock periods each, for every clock waveform. -/
theorem spi_readout_pins (c : Config) (hw : 4 ≤ c.spi.w) (hcs : c.spi.csIdlesHigh = false) (hm : c.spi.msbFirst = true)
    (hd : 1 ≤ c.ila.depth)
    (σ : State) (hσ : IdleState c.ila σ.core) (x0 : In) (ht : x0.trigger = true) (xs : List In)
    (hl : xs.length = c.ila.depth) (gs : List In) (hgs : AtRest gs) (g1 g2 g3 g4 : In)
    (hg : AtRest [g1, g2, g3, g4]) (hclk : (g4.sck != c.spi.pol) = !c.spi.phase)
    (ws : List In) (hws : InWindow ws) (hout : clkAfter c.spi (g4.sck != c.spi.pol) ws = c.spi.phase) (y : In) :
    let s0 := runState c σ (x0 :: xs ++ gs ++ [g1, g2, g3, g4])
    let S := ((σ.core.dl ++ (x0 :: xs).map (·.inputs)).drop 1).take c.ila.depth
    let E := sampleEdges c.spi (g4.sck != c.spi.pol) ws
    some (step c (runState c s0 ws) y).2.sdo = (sampleWord c S (E / c.spi.w))[c.spi.w - 1 - E % c.spi.w]? := by
  intro s0 S E
  obtain ⟨hb0, hpc⟩ := window_spi_state c hcs hd σ hσ x0 ht xs hl gs hgs g1 g2 g3 g4 hg
  have hprog := spi_readout_progress c hw hcs hd σ hσ x0 ht xs hl gs hgs g1 g2 g3 g4 hg ws hws
  have hwords := (track_words c (by omega) hcs ws 0 0 s0 (by show s0.spi.bitCount < c.spi.w; rw [hb0]; omega) hws).2
  have hbits := track_bits c (by omega) hcs ws 0 0 s0 (by show s0.spi.bitCount < c.spi.w; rw [hb0]; omega)
    (by show 0 = s0.spi.bitCount + afterOut c.spi.phase s0.spi.pastClk
        rw [hb0, hpc, hclk]; cases c.spi.phase <;> rfl) hws
  have hpe : (runState c s0 ws).spi.pastClk = c.spi.phase := by
    rw [pastClk_run]; show clkAfter c.spi s0.spi.pastClk ws = c.spi.phase; rw [hpc]; exact hout
  have hao : afterOut c.spi.phase c.spi.phase = 1 := by cases c.spi.phase <;> rfl
  have hp2 : (track c (0, 0) s0 ws).2 = E % c.spi.w + 1 := by
    rw [hbits, hpe, hao, hwords]
    show (s0.spi.bitCount + sampleEdges c.spi s0.spi.pastClk ws) % c.spi.w + 1 = _
    rw [hb0, hpc, Nat.zero_add]
  have hbitsThm := spi_readout_bits c hw hcs hm hd σ hσ x0 ht xs hl gs hgs g1 g2 g3 g4 hg ws hws y
  simp only at hbitsThm hprog
  have := hbitsThm (by rw [hp2]; omega)
  rw [this, hprog, hp2]
  congr 1
  omega

/-! ## Non-vacuity (the configuration of `Props/C56Spi.lean`: depth 2, 4-bit words, samples 5 = 0101b and 6 = 0110b): after five
clock periods and the output edge of the sixth, `E = 5`: bit `4 - 1 - 5 mod 4 = 2` of sample `5 / 4 = 1` -/
example : (restX.sck != cfgX.spi.pol) = !cfgX.spi.phase := by decide
example : clkAfter cfgX.spi (restX.sck != cfgX.spi.pol) (bitX ++ bitX ++ bitX ++ bitX ++ bitX ++ bitX.take 1) = cfgX.spi.phase ∧
    sampleEdges cfgX.spi (restX.sck != cfgX.spi.pol) (bitX ++ bitX ++ bitX ++ bitX ++ bitX ++ bitX.take 1) = 5 := by decide

end LunaVerif.IlaSpi
