import LunaVerif.Model.Usb2.DataGenerator
/-!
# C03 — USB2 transmitted data packets are correctly framed with a valid CRC16

"For any payload stream and any PHY acceptance (tx_ready) pattern, each transmitted packet is the
DATA PID selected by the requested toggle, followed by the payload bytes in order, followed by the
standard USB CRC16 of the payload (low byte first); a request marked 'last' without 'first'
produces a zero-length packet.  Every payload byte offered to the transmitter is sent exactly once."

Quantifier: all payload byte sequences, all PID selections, all `tx_ready` stall patterns, CRC
generator wired as in USBDevice (the theorems hold for both wirings of the model, `Config` is
universally quantified).

Presentation.  The generator runs in closed loop (`closed`) with an explicit well-behaved stream
producer `prodIn`: it offers the bytes `q` still to be sent with `valid`, `first` on the first byte,
`last` on the last one, keeps the byte until `stream.ready` takes it, and is silent afterwards.  The
`tx_ready` schedule is an arbitrary `List Bool`.  What happens is read off as events in cycle order:
`tx b` — the PHY accepted byte `b` (`tx.valid ∧ tx.ready`), `took b` — the generator consumed
payload byte `b` from the stream (`stream.ready ∧ stream.valid`).

The main statement is prefix-exact for EVERY schedule: after `n` accepting cycles exactly the
first `n` of the groups `[tx PID], [tx b₀, took b₀], …, [tx crc_lo], [tx crc_hi]` have happened,
and nothing else — so no byte is duplicated, skipped or reordered whatever the stall pattern, and
a schedule that never accepts transmits nothing.
-/
namespace LunaVerif.DataGenerator
open LunaVerif.DataCrc LunaVerif.Crc

inductive Ev
  | tx (b : Nat)     -- byte accepted by the PHY
  | took (b : Nat)   -- payload byte consumed from the stream
deriving Repr, DecidableEq

/-- **Producer assumption**: inputs of a well-behaved stream producer that still has to send `q`
(`junk` is whatever it drives on `payload` when it offers nothing). -/
def prodIn (d junk : Nat) (q : List Nat) (isFirst ready : Bool) : In :=
  match q with
  | [] => ⟨d, false, false, false, junk, ready⟩
  | b :: rest => ⟨d, true, isFirst, rest.isEmpty, b, ready⟩

def cycleEvents (o : Out) (i : In) : List Ev :=
  (if o.txValid && i.ready then [.tx o.txData] else []) ++
  (if o.streamReady && i.valid then [.took i.payload] else [])

/-- the generator takes the offered byte in this cycle -/
def consumes (c : Config) (s : State) (i : In) : Bool := (step c s i).2.streamReady && i.valid

/-- Generator and producer in closed loop under a `tx_ready` schedule. -/
def closed (c : Config) (d junk : Nat) : State → List Nat → Bool → List Bool → List Ev
  | _, _, _, [] => []
  | s, q, f, r :: rs =>
    cycleEvents (step c s (prodIn d junk q f r)).2 (prodIn d junk q f r) ++
      closed c d junk (step c s (prodIn d junk q f r)).1
        (if consumes c s (prodIn d junk q f r) then q.tail else q)
        (if consumes c s (prodIn d junk q f r) then false else f) rs

def crcGroups (p : List Nat) : List (List Ev) := [[.tx (usb2Crc16 p % 256)], [.tx (usb2Crc16 p / 256)]]
def payloadGroups (q : List Nat) : List (List Ev) := q.map (fun b => [.tx b, .took b])

/-- **Specification**: what must happen, one group per accepting cycle. -/
def expected (d : Nat) (p : List Nat) : List (List Ev) :=
  [.tx (dataPidByte d)] :: (payloadGroups p ++ crcGroups p)

def firstGroups (n : Nat) (gs : List (List Ev)) : List Ev := (gs.take n).flatten

/-! ## Phases (each for every stall pattern) -/

theorem closed_cons (c : Config) (d junk : Nat) (s : State) (q : List Nat) (f r : Bool) (rs : List Bool) :
    closed c d junk s q f (r :: rs) =
      cycleEvents (step c s (prodIn d junk q f r)).2 (prodIn d junk q f r) ++
        closed c d junk (step c s (prodIn d junk q f r)).1
          (if consumes c s (prodIn d junk q f r) then q.tail else q)
          (if consumes c s (prodIn d junk q f r) then false else f) rs := rfl

theorem firstGroups_zero (gs : List (List Ev)) : firstGroups 0 gs = [] := rfl
theorem firstGroups_succ (n : Nat) (g : List Ev) (gs : List (List Ev)) :
    firstGroups (n + 1) (g :: gs) = g ++ firstGroups n gs := by simp [firstGroups]
theorem firstGroups_nil (n : Nat) : firstGroups n [] = [] := by simp [firstGroups]

theorem done_quiet (c : Config) (d junk : Nat) (rs : List Bool) (s : State) (f : Bool) (hs : s.fsm = .idle) :
    closed c d junk s [] f rs = [] := by
  induction rs generalizing s f with
  | nil => rfl
  | cons r rs ih =>
    have h1 : (step c s (prodIn d junk [] f r)).1.fsm = .idle := by simp [step, fsmStep, prodIn, hs]
    have he : cycleEvents (step c s (prodIn d junk [] f r)).2 (prodIn d junk [] f r) = [] := by
      simp [cycleEvents, step, fsmStep, prodIn, hs]
    have hc : consumes c s (prodIn d junk [] f r) = false := by simp [consumes, prodIn]
    rw [closed_cons, he, hc]
    simpa using ih _ _ h1

theorem crc_second (c : Config) (d junk h : Nat) (rs : List Bool) (s : State) (f : Bool)
    (hs : s.fsm = .sendCrcSecond) (hr : s.remainingCrc = h) :
    closed c d junk s [] f rs = firstGroups (rs.count true) [[.tx h]] := by
  induction rs generalizing s f with
  | nil => rfl
  | cons r rs ih =>
    have hc : consumes c s (prodIn d junk [] f r) = false := by simp [consumes, prodIn]
    cases r with
    | false =>
      have h1 : (step c s (prodIn d junk [] f false)).1.fsm = .sendCrcSecond := by simp [step, fsmStep, prodIn, hs]
      have h2 : (step c s (prodIn d junk [] f false)).1.remainingCrc = h := by simp [step, fsmStep, prodIn, hs, hr]
      have he : cycleEvents (step c s (prodIn d junk [] f false)).2 (prodIn d junk [] f false) = [] := by
        simp [cycleEvents, prodIn]
      rw [closed_cons, he, hc]
      simpa using ih _ _ h1 h2
    | true =>
      have h1 : (step c s (prodIn d junk [] f true)).1.fsm = .idle := by simp [step, fsmStep, prodIn, hs]
      have he : cycleEvents (step c s (prodIn d junk [] f true)).2 (prodIn d junk [] f true) = [.tx h] := by
        simp [cycleEvents, step, fsmStep, prodIn, hs, hr]
      rw [closed_cons, he, hc]
      simp only [Bool.false_eq_true, if_false, List.count_cons_self, firstGroups_succ, firstGroups_nil]
      rw [done_quiet c d junk rs _ _ h1]

/-- SEND_CRC_FIRST with the CRC unit holding the register of the payload `p`. -/
theorem crc_first (c : Config) (d junk : Nat) (p : List Nat) (rs : List Bool) (s : State) (f : Bool)
    (hs : s.fsm = .sendCrcFirst) (hcrc : s.crc = usb2Crc16Reg p) :
    closed c d junk s [] f rs = firstGroups (rs.count true) (crcGroups p) := by
  induction rs generalizing s f with
  | nil => rfl
  | cons r rs ih =>
    have hc : consumes c s (prodIn d junk [] f r) = false := by simp [consumes, prodIn]
    cases r with
    | false =>
      have h1 : (step c s (prodIn d junk [] f false)).1.fsm = .sendCrcFirst := by simp [step, fsmStep, prodIn, hs]
      have h2 : (step c s (prodIn d junk [] f false)).1.crc = usb2Crc16Reg p := by
        cases hcfg : c.standalone <;> simp [step, fsmStep, prodIn, hs, hcrc, DataCrc.next, hcfg]
      have he : cycleEvents (step c s (prodIn d junk [] f false)).2 (prodIn d junk [] f false) = [] := by
        simp [cycleEvents, prodIn]
      rw [closed_cons, he, hc]
      simpa using ih _ _ h1 h2
    | true =>
      have h1 : (step c s (prodIn d junk [] f true)).1.fsm = .sendCrcSecond := by simp [step, fsmStep, prodIn, hs]
      have h2 : (step c s (prodIn d junk [] f true)).1.remainingCrc = usb2Crc16 p / 256 := by
        simp [step, fsmStep, prodIn, hs, hcrc, output_reg]
      have he : cycleEvents (step c s (prodIn d junk [] f true)).2 (prodIn d junk [] f true)
          = [.tx (usb2Crc16 p % 256)] := by
        simp [cycleEvents, step, fsmStep, prodIn, hs, hcrc, output_reg]
      rw [closed_cons, he, hc]
      simp only [Bool.false_eq_true, if_false, List.count_cons_self, crcGroups, firstGroups_succ]
      rw [crc_second c d junk _ rs _ _ h1 h2]

/-- SEND_PAYLOAD: `pre` already sent and in the CRC, `q` (non-empty) still offered. -/
theorem payload_phase (c : Config) (d junk : Nat) (rs : List Bool) (s : State) (pre q : List Nat) (f : Bool)
    (hq : q ≠ []) (hs : s.fsm = .sendPayload) (hcrc : s.crc = usb2Crc16Reg pre) :
    closed c d junk s q f rs = firstGroups (rs.count true) (payloadGroups q ++ crcGroups (pre ++ q)) := by
  induction rs generalizing s pre q f with
  | nil => rfl
  | cons r rs ih =>
    match q, hq with
    | b :: rest, _ =>
      cases r with
      | false =>
        have hc : consumes c s (prodIn d junk (b :: rest) f false) = false := by
          simp [consumes, step, fsmStep, prodIn, hs]
        have h1 : (step c s (prodIn d junk (b :: rest) f false)).1.fsm = .sendPayload := by
          simp [step, fsmStep, prodIn, hs]
        have h2 : (step c s (prodIn d junk (b :: rest) f false)).1.crc = usb2Crc16Reg pre := by
          cases hcfg : c.standalone <;> simp [step, fsmStep, prodIn, hs, hcrc, DataCrc.next, hcfg]
        have he : cycleEvents (step c s (prodIn d junk (b :: rest) f false)).2 (prodIn d junk (b :: rest) f false)
            = [] := by simp [cycleEvents, step, fsmStep, prodIn, hs]
        rw [closed_cons, he, hc]
        simpa using ih _ pre (b :: rest) f (by simp) h1 h2
      | true =>
        have hc : consumes c s (prodIn d junk (b :: rest) f true) = true := by
          simp [consumes, step, fsmStep, prodIn, hs]
        have h2 : (step c s (prodIn d junk (b :: rest) f true)).1.crc = usb2Crc16Reg (pre ++ [b]) := by
          rw [reg_snoc]
          cases hcfg : c.standalone <;> simp [step, fsmStep, prodIn, hs, hcrc, DataCrc.next, hcfg]
        have he : cycleEvents (step c s (prodIn d junk (b :: rest) f true)).2 (prodIn d junk (b :: rest) f true)
            = [.tx b, .took b] := by simp [cycleEvents, step, fsmStep, prodIn, hs]
        rw [closed_cons, he, hc]
        simp only [if_true, List.tail_cons, List.count_cons_self, payloadGroups, List.map_cons,
          List.cons_append, firstGroups_succ]
        match rest with
        | [] =>
          have h1 : (step c s (prodIn d junk [b] f true)).1.fsm = .sendCrcFirst := by
            simp [step, fsmStep, prodIn, hs]
          rw [crc_first c d junk (pre ++ [b]) rs _ false h1 h2]; simp
        | b2 :: rest2 =>
          have h1 : (step c s (prodIn d junk (b :: b2 :: rest2) f true)).1.fsm = .sendPayload := by
            simp [step, fsmStep, prodIn, hs]
          rw [ih _ (pre ++ [b]) (b2 :: rest2) false (by simp) h1 h2]; simp [payloadGroups]

/-- SEND_PID for a packet with payload: stalls keep the CRC unit cleared, the accepted PID byte
starts the payload phase with a fresh CRC. -/
theorem pid_phase (c : Config) (d junk P : Nat) (rs : List Bool) (s : State) (q : List Nat) (f : Bool)
    (hq : q ≠ []) (hs : s.fsm = .sendPid) (hp : s.currentPid = P) (hz : s.isZlp = false) :
    closed c d junk s q f rs = firstGroups (rs.count true) ([.tx P] :: (payloadGroups q ++ crcGroups q)) := by
  induction rs generalizing s with
  | nil => rfl
  | cons r rs ih =>
    have hc : consumes c s (prodIn d junk q f r) = false := by
      cases q <;> simp [consumes, step, fsmStep, prodIn, hs]
    cases r with
    | false =>
      have h1 : (step c s (prodIn d junk q f false)).1.fsm = .sendPid := by
        cases q <;> simp [step, fsmStep, prodIn, hs]
      have h2 : (step c s (prodIn d junk q f false)).1.currentPid = P := by
        cases q <;> simp [step, fsmStep, prodIn, hs, hp]
      have h3 : (step c s (prodIn d junk q f false)).1.isZlp = false := by
        cases q <;> simp [step, fsmStep, prodIn, hs, hz]
      have he : cycleEvents (step c s (prodIn d junk q f false)).2 (prodIn d junk q f false) = [] := by
        cases q <;> simp [cycleEvents, step, fsmStep, prodIn, hs]
      rw [closed_cons, he, hc]
      simpa using ih _ h1 h2 h3
    | true =>
      have h1 : (step c s (prodIn d junk q f true)).1.fsm = .sendPayload := by
        cases q <;> simp [step, fsmStep, prodIn, hs, hz]
      have h2 : (step c s (prodIn d junk q f true)).1.crc = usb2Crc16Reg [] := by
        cases q <;> simp [step, fsmStep, prodIn, hs, DataCrc.next, reg_nil]
      have he : cycleEvents (step c s (prodIn d junk q f true)).2 (prodIn d junk q f true) = [.tx P] := by
        cases q <;> simp [cycleEvents, step, fsmStep, prodIn, hs, hp]
      rw [closed_cons, he, hc]
      simp only [Bool.false_eq_true, if_false, List.count_cons_self, firstGroups_succ]
      rw [payload_phase c d junk rs _ [] q f hq h1 h2]; simp

/-- SEND_PID for a zero-length packet. -/
theorem pid_phase_zlp (c : Config) (d junk P : Nat) (rs : List Bool) (s : State) (f : Bool)
    (hs : s.fsm = .sendPid) (hp : s.currentPid = P) (hz : s.isZlp = true) :
    closed c d junk s [] f rs = firstGroups (rs.count true) ([.tx P] :: crcGroups []) := by
  induction rs generalizing s f with
  | nil => rfl
  | cons r rs ih =>
    have hc : consumes c s (prodIn d junk [] f r) = false := by simp [consumes, prodIn]
    cases r with
    | false =>
      have h1 : (step c s (prodIn d junk [] f false)).1.fsm = .sendPid := by simp [step, fsmStep, prodIn, hs]
      have h2 : (step c s (prodIn d junk [] f false)).1.currentPid = P := by simp [step, fsmStep, prodIn, hs, hp]
      have h3 : (step c s (prodIn d junk [] f false)).1.isZlp = true := by simp [step, fsmStep, prodIn, hs, hz]
      have he : cycleEvents (step c s (prodIn d junk [] f false)).2 (prodIn d junk [] f false) = [] := by
        simp [cycleEvents, prodIn]
      rw [closed_cons, he, hc]
      simpa using ih _ _ h1 h2 h3
    | true =>
      have h1 : (step c s (prodIn d junk [] f true)).1.fsm = .sendCrcFirst := by
        simp [step, fsmStep, prodIn, hs, hz]
      have h2 : (step c s (prodIn d junk [] f true)).1.crc = usb2Crc16Reg [] := by
        simp [step, fsmStep, prodIn, hs, DataCrc.next, reg_nil]
      have he : cycleEvents (step c s (prodIn d junk [] f true)).2 (prodIn d junk [] f true) = [.tx P] := by
        simp [cycleEvents, step, fsmStep, prodIn, hs, hp]
      rw [closed_cons, he, hc]
      simp only [Bool.false_eq_true, if_false, List.count_cons_self, firstGroups_succ]
      rw [crc_first c d junk [] rs _ _ h1 h2]

/-! ## The property -/

/-- **C03, all schedules, prefix-exact.**  From IDLE (all other registers and the CRC unit in any
state), a producer offering the non-empty payload `p` with data PID selector `d`, under ANY
`tx_ready` schedule `r0 :: rs` (`r0` is the cycle in which the request is noticed; nothing is on the
bus yet): after `n = number of accepting cycles in rs` exactly the first `n` groups of
`[tx PID], [tx b, took b]…, [tx crc_lo], [tx crc_hi]` have happened, in order, nothing else. -/
theorem tx_events_exact (c : Config) (d junk : Nat) (p : List Nat) (hp : p ≠ []) (s : State)
    (hs : s.fsm = .idle) (r0 : Bool) (rs : List Bool) :
    closed c d junk s p true (r0 :: rs) = firstGroups (rs.count true) (expected d p) := by
  match p, hp with
  | b :: rest, _ =>
    have hc : consumes c s (prodIn d junk (b :: rest) true r0) = false := by
      simp [consumes, step, fsmStep, prodIn, hs]
    have h1 : (step c s (prodIn d junk (b :: rest) true r0)).1.fsm = .sendPid := by
      simp [step, fsmStep, prodIn, hs]
    have h2 : (step c s (prodIn d junk (b :: rest) true r0)).1.currentPid = dataPidByte d := by
      simp [step, fsmStep, prodIn, hs]
    have h3 : (step c s (prodIn d junk (b :: rest) true r0)).1.isZlp = false := by
      simp [step, fsmStep, prodIn, hs]
    have he : cycleEvents (step c s (prodIn d junk (b :: rest) true r0)).2 (prodIn d junk (b :: rest) true r0)
        = [] := by simp [cycleEvents, step, fsmStep, prodIn, hs]
    rw [closed_cons, he, hc]
    simp only [Bool.false_eq_true, if_false, List.nil_append]
    rw [pid_phase c d junk _ rs _ (b :: rest) true (by simp) h1 h2 h3]; rfl

/-- The bytes the PHY accepted / the bytes taken from the stream, among a list of events. -/
def txBytes : List Ev → List Nat
  | [] => []
  | .tx b :: es => b :: txBytes es
  | _ :: es => txBytes es
def tookBytes : List Ev → List Nat
  | [] => []
  | .took b :: es => b :: tookBytes es
  | _ :: es => tookBytes es

theorem txBytes_append (a b : List Ev) : txBytes (a ++ b) = txBytes a ++ txBytes b := by
  induction a with
  | nil => rfl
  | cons e a ih => cases e <;> simp [txBytes, ih]
theorem tookBytes_append (a b : List Ev) : tookBytes (a ++ b) = tookBytes a ++ tookBytes b := by
  induction a with
  | nil => rfl
  | cons e a ih => cases e <;> simp [tookBytes, ih]

theorem txBytes_payload (q : List Nat) (rest : List Ev) :
    txBytes ((payloadGroups q).flatten ++ rest) = q ++ txBytes rest := by
  induction q with
  | nil => rfl
  | cons b q ih => simp [payloadGroups, txBytes] at ih ⊢; exact ih
theorem tookBytes_payload (q : List Nat) (rest : List Ev) :
    tookBytes ((payloadGroups q).flatten ++ rest) = q ++ tookBytes rest := by
  induction q with
  | nil => rfl
  | cons b q ih => simp [payloadGroups, tookBytes] at ih ⊢; exact ih

theorem firstGroups_all (n : Nat) (gs : List (List Ev)) (h : gs.length ≤ n) : firstGroups n gs = gs.flatten := by
  simp [firstGroups, List.take_of_length_le h]

/-- **tx_packet_exact**: for every payload, data PID and `tx_ready` schedule that accepts the
whole packet (arbitrary stalls anywhere), the bytes accepted on UTMI are exactly
`[PID] ++ payload ++ [CRC16 low, CRC16 high]` — and nothing more, however long the schedule goes on. -/
theorem tx_packet_exact (c : Config) (d junk : Nat) (p : List Nat) (hp : p ≠ []) (s : State)
    (hs : s.fsm = .idle) (r0 : Bool) (rs : List Bool) (hacc : p.length + 3 ≤ rs.count true) :
    txBytes (closed c d junk s p true (r0 :: rs))
      = dataPidByte d :: (p ++ [usb2Crc16 p % 256, usb2Crc16 p / 256]) := by
  rw [tx_events_exact c d junk p hp s hs, firstGroups_all _ _ (by simp [expected, payloadGroups, crcGroups]; omega)]
  simp only [expected, List.flatten_cons, List.flatten_append, txBytes_append]
  have := txBytes_payload p []
  simp only [List.append_nil] at this
  rw [this]; simp [txBytes, crcGroups]

/-- **each_payload_byte_once**: the bytes taken from the stream are the payload, each once, in order. -/
theorem each_payload_byte_once (c : Config) (d junk : Nat) (p : List Nat) (hp : p ≠ []) (s : State)
    (hs : s.fsm = .idle) (r0 : Bool) (rs : List Bool) (hacc : p.length + 3 ≤ rs.count true) :
    tookBytes (closed c d junk s p true (r0 :: rs)) = p := by
  rw [tx_events_exact c d junk p hp s hs, firstGroups_all _ _ (by simp [expected, payloadGroups, crcGroups]; omega)]
  simp only [expected, List.flatten_cons, List.flatten_append, tookBytes_append]
  have := tookBytes_payload p []
  simp only [List.append_nil] at this
  rw [this]; simp [tookBytes, crcGroups]

/-- A request `valid ∧ last ∧ ¬first` seen in IDLE (one cycle), producer silent afterwards. -/
def zlpRequest (d junk : Nat) (r0 : Bool) : In := ⟨d, true, false, true, junk, r0⟩

/-- **zlp_on_last_without_first**: such a request produces `[PID, CRC16([]) low, high]` (prefix-exact
for every schedule) and consumes nothing from the stream. -/
theorem zlp_on_last_without_first (c : Config) (d junk : Nat) (s : State) (hs : s.fsm = .idle) (r0 : Bool)
    (rs : List Bool) :
    (step c s (zlpRequest d junk r0)).2.txValid = false ∧
    closed c d junk (step c s (zlpRequest d junk r0)).1 [] false rs
      = firstGroups (rs.count true) [[.tx (dataPidByte d)], [.tx (usb2Crc16 [] % 256)], [.tx (usb2Crc16 [] / 256)]] := by
  have h1 : (step c s (zlpRequest d junk r0)).1.fsm = .sendPid := by simp [step, fsmStep, zlpRequest, hs]
  have h2 : (step c s (zlpRequest d junk r0)).1.currentPid = dataPidByte d := by
    simp [step, fsmStep, zlpRequest, hs]
  have h3 : (step c s (zlpRequest d junk r0)).1.isZlp = true := by simp [step, fsmStep, zlpRequest, hs]
  exact ⟨by simp [step, fsmStep, zlpRequest, hs], pid_phase_zlp c d junk _ rs _ false h1 h2 h3⟩

/-- **crc_capture_stall_safe**: however long the PHY stalls in SEND_CRC_FIRST (`n` cycles without
`tx_ready`), when the first CRC byte is finally accepted the generator is in SEND_CRC_SECOND with
`remaining_crc` = the HIGH byte of the payload's CRC16, although the CRC unit itself has just
absorbed the low CRC byte. -/
theorem crc_capture_stall_safe (c : Config) (p : List Nat) (n : Nat) (s : State) (ins : List In)
    (hs : s.fsm = .sendCrcFirst) (hcrc : s.crc = usb2Crc16Reg p) (hn : ins.length = n)
    (hstall : ∀ i ∈ ins, i.ready = false) (iacc : In) (hacc : iacc.ready = true) :
    let s' := ins.foldl (fun st i => (step c st i).1) s
    (step c s' iacc).1.fsm = .sendCrcSecond ∧ (step c s' iacc).1.remainingCrc = usb2Crc16 p / 256 ∧
      (step c s' iacc).2.txData = usb2Crc16 p % 256 := by
  induction ins generalizing s n with
  | nil => simp [step, fsmStep, hs, hcrc, hacc, output_reg]
  | cons i is ih =>
    have hr : i.ready = false := hstall i (by simp)
    have h1 : (step c s i).1.fsm = .sendCrcFirst := by simp [step, fsmStep, hs, hr]
    have h2 : (step c s i).1.crc = usb2Crc16Reg p := by
      cases hcfg : c.standalone <;> simp [step, fsmStep, hs, hr, hcrc, DataCrc.next, hcfg]
    exact ih is.length _ h1 h2 rfl (fun j hj => hstall j (by simp [hj]))

/-! ## Non-vacuity: concrete schedules evaluated on the model -/

example : txBytes (closed ⟨false⟩ 1 0 init [0x11, 0x22, 0x33] true
      [true, false, false, true, true, false, true, false, false, false, true, false, true, true, false, true, true])
    = [0x4B, 0x11, 0x22, 0x33, usb2Crc16 [0x11, 0x22, 0x33] % 256, usb2Crc16 [0x11, 0x22, 0x33] / 256] := by
  decide +kernel
example : usb2Crc16 [] = 0 := by decide +kernel
example : closed ⟨false⟩ 0 0 (step ⟨false⟩ init (zlpRequest 0 0 true)).1 [] false [false, true, false, true, true, true]
    = [.tx 0xC3, .tx 0, .tx 0] := by decide +kernel

end LunaVerif.DataGenerator
