import LunaVerif.Model.Usb2.InterpacketTimer
/-!
# C05 — Inter-packet response timing matches the selected bus speed

"Measured from the most recent timer start (or reset), the 'response allowed' indication occurs
exactly at the minimum inter-packet gap for the currently selected speed (one 60 MHz cycle at high
speed, 2 bit times at full speed, 2 low-speed bit times at low speed), the 'response deadline' at
the documented maximum (6.5 bit times, or 24 cycles at high speed), and the receive timeout at 16
bit times (FS/LS) or 736 bit times (HS).  In full-speed-only configurations this holds for full
speed, the only speed such a device uses."

Quantified over all speeds, all timer-start schedules (and arbitrary speed changes), and the
supported configurations (60 MHz with or without `fs_only`, 12 MHz `fs_only`).

Time base.  `sinceStart past` is the number of cycles that have passed since the counter was last
zeroed: `past` holds the inputs of all earlier cycles, most recent first; a start strobe in the
previous cycle gives 0, no start strobe at all since reset gives the cycle number (reset acts like a
start strobe in the cycle before cycle 0).  This is the convention of the repository's own test
(`advance_cycles(10)` counted from the cycle after the start strobe).

The model is of the repaired code (`fix:` low-speed branch uses the low-speed table); on the
unrepaired code the low-speed column of `specTable` is violated (1/24/92 instead of 80/260/640).
-/
namespace LunaVerif.InterpacketTimer

/-- The three times of the property, in clock cycles. -/
structure Spec where
  minGap    : Nat
  deadline  : Nat
  rxTimeout : Nat
deriving Repr, DecidableEq

/-- Specification table, written from the numbers of the property text / USB 2.0 §7.1.18 /
ULPI 1.1 figure 18: speed 0 = high, 1 = full, 2 = low; `none` = combination not supported. -/
def specTable (clk12 : Bool) (speed : Nat) : Option Spec :=
  match clk12, speed with
  | false, 0 => some ⟨1, 24, 92⟩
  | false, 1 => some ⟨10, 32, 80⟩
  | false, 2 => some ⟨80, 260, 640⟩
  | true,  1 => some ⟨2, 7, 16⟩
  | _,     _ => none

/-- Clock cycles per bit time (full speed 12 Mbit/s, low speed 1.5 Mbit/s). -/
def cyclesPerBit (clk12 : Bool) (speed : Nat) : Nat :=
  match clk12, speed with
  | false, 1 => 5      -- 60 MHz / 12 Mbit/s
  | false, 2 => 40     -- 60 MHz / 1.5 Mbit/s
  | true,  1 => 1      -- 12 MHz / 12 Mbit/s
  | _,     _ => 0

/-- The table is what the property's bit times give: FS/LS 2 and 16 bit times exactly, 6.5 bit times
rounded to a whole cycle (`|2·deadline − 13·cyclesPerBit| ≤ 1`); HS one cycle (8 HS bit times at
60 MHz), 24 cycles, and 736 HS bit times at 8 bits per cycle. -/
theorem specTable_from_bit_times :
    (∀ clk12 speed s, (speed = 1 ∨ speed = 2) → specTable clk12 speed = some s →
        s.minGap = 2 * cyclesPerBit clk12 speed ∧ s.rxTimeout = 16 * cyclesPerBit clk12 speed ∧
        2 * s.deadline ≤ 13 * cyclesPerBit clk12 speed + 1 ∧
        13 * cyclesPerBit clk12 speed ≤ 2 * s.deadline + 1) ∧
    (∀ s, specTable false 0 = some s → s.minGap = 1 ∧ s.deadline = 24 ∧ 8 * s.rxTimeout = 736) := by
  refine ⟨?_, ?_⟩
  · intro clk12 speed s hs h
    rcases hs with rfl | rfl <;> cases clk12 <;> simp [specTable] at h <;> subst h <;>
      simp [cyclesPerBit]
  · intro s h; simp [specTable] at h; subst h; simp

/-- Speeds a device built with configuration `c` can be operated at. -/
def speedValid (c : Config) (speed : Nat) : Bool :=
  if c.fsOnly then speed == 1 else decide (speed ≤ 2)

/-- Cycles since the counter was last zeroed (`past` most recent first). -/
def sinceStart : List In → Nat
  | [] => 0
  | i :: past => if i.start then 0 else sinceStart past + 1

def strobesAt (e : Nat) : Option Spec → Out
  | some s => ⟨e == s.minGap, e == s.deadline, e == s.rxTimeout⟩
  | none => noStrobe

/-- The specification of one cycle: each strobe is high iff the time since the last start equals
the table value for the speed selected in this cycle. -/
def specOut (c : Config) (past : List In) (x : In) : Out :=
  strobesAt (sinceStart past) (specTable c.clk12 x.speed)

def specRun (c : Config) : List In → List In → List Out
  | _, [] => []
  | past, x :: xs => specOut c past x :: specRun c (x :: past) xs

/-- What the code selects for *every* 2-bit speed value, including those outside the property
(`fs_only` builds drive no strobe for speeds other than FULL; the unused encoding 3 is treated as
LOW). -/
def codeTable (c : Config) (speed : Nat) : Option Spec :=
  if c.fsOnly then (if speed = 1 then specTable c.clk12 1 else none)
  else if speed = 0 then specTable false 0
  else if speed = 1 then specTable false 1
  else specTable false 2

def codeRun (c : Config) : List In → List In → List Out
  | _, [] => []
  | past, x :: xs => strobesAt (sinceStart past) (codeTable c x.speed) :: codeRun c (x :: past) xs

/-! ## One-step lemmas -/

/-- The counter is the elapsed time, saturated one above `counter_max`. -/
def counterAfter (c : Config) (past : List In) : Nat := min (sinceStart past) (counterMax c + 1)

theorem counterAfter_nil (c : Config) : counterAfter c [] = init := by
  simp [counterAfter, sinceStart, init]

theorem next_no_start (c : Config) (n : Nat) :
    next c (min n (counterMax c + 1)) false = min (n + 1) (counterMax c + 1) := by
  unfold next
  simp only [Bool.false_eq_true, if_false]
  by_cases h : min n (counterMax c + 1) < counterMax c + 1
  · rw [if_pos h]; omega
  · rw [if_neg h]; omega

theorem next_counter (c : Config) (past : List In) (x : In) :
    next c (counterAfter c past) x.start = counterAfter c (x :: past) := by
  cases hx : x.start
  · have e : sinceStart (x :: past) = sinceStart past + 1 := by simp [sinceStart, hx]
    unfold counterAfter
    rw [e]; exact next_no_start c _
  · have e : sinceStart (x :: past) = 0 := by simp [sinceStart, hx]
    simp [next, counterAfter, e]

/-- Every table value lies below the saturation point, so saturation never hides or fakes a strobe. -/
theorem beq_min (e v k : Nat) (h : v < k) : (min e k == v) = (e == v) := by
  by_cases h1 : e < k
  · rw [Nat.min_eq_left (by omega)]
  · rw [Nat.min_eq_right (by omega)]
    rw [show (k == v) = false from by rw [beq_eq_false_iff_ne]; omega,
        show (e == v) = false from by rw [beq_eq_false_iff_ne]; omega]

theorem outputs_counter (c : Config) (hc : c.valid = true) (past : List In) (speed : Nat) :
    outputs c (counterAfter c past) speed = strobesAt (sinceStart past) (codeTable c speed) := by
  obtain ⟨clk12, fsOnly⟩ := c
  by_cases h0 : speed = 0
  · subst h0
    cases clk12 <;> cases fsOnly <;> simp [Config.valid] at hc <;>
      simp [outputs, codeTable, specTable, strobesAt, noStrobe, counterAfter, counterMax,
        hsRxToTxDelay, hsTxToRxTimeout, lsTxToRxTimeout, beq_min]
  · by_cases h1 : speed = 1
    · subst h1
      cases clk12 <;> cases fsOnly <;> simp [Config.valid] at hc <;>
        simp [outputs, codeTable, specTable, strobesAt, counterAfter, counterMax,
          fsRxToTxDelay, fsTxToRxTimeout, lsTxToRxTimeout, beq_min]
    · cases clk12 <;> cases fsOnly <;> simp [Config.valid] at hc <;>
        simp [outputs, codeTable, specTable, strobesAt, noStrobe, counterAfter, counterMax, h0, h1,
          lsRxToTxDelay, lsTxToRxTimeout, beq_min]

/-! ## History theorems -/

theorem run_eq_codeRun_from (c : Config) (hc : c.valid = true) (past hist : List In) :
    run c (counterAfter c past) hist = codeRun c past hist := by
  induction hist generalizing past with
  | nil => rfl
  | cons x xs ih =>
    simp only [run, codeRun, step]
    rw [outputs_counter c hc, next_counter]
    congr 1
    exact ih (x :: past)

/-- The model's behaviour for all inputs whatsoever (any speed values, any start schedule). -/
theorem timer_run_all_speeds (c : Config) (hc : c.valid = true) (hist : List In) :
    run c init hist = codeRun c [] hist := by
  rw [← counterAfter_nil c]; exact run_eq_codeRun_from c hc [] hist

theorem codeTable_eq_specTable (c : Config) (hc : c.valid = true) (speed : Nat)
    (hs : speedValid c speed = true) : codeTable c speed = specTable c.clk12 speed := by
  obtain ⟨clk12, fsOnly⟩ := c
  cases clk12 <;> cases fsOnly <;> simp [Config.valid] at hc <;>
    simp [speedValid] at hs <;> simp [codeTable, hs]
  · have : speed = 0 ∨ speed = 1 ∨ speed = 2 := by omega
    rcases this with rfl | rfl | rfl <;> simp

theorem codeRun_eq_specRun (c : Config) (hc : c.valid = true) (past hist : List In)
    (hs : ∀ i ∈ hist, speedValid c i.speed = true) : codeRun c past hist = specRun c past hist := by
  induction hist generalizing past with
  | nil => rfl
  | cons x xs ih =>
    simp only [codeRun, specRun, specOut]
    rw [codeTable_eq_specTable c hc x.speed (hs x (by simp))]
    congr 1
    exact ih (x :: past) (fun i hi => hs i (by simp [hi]))

/-- **C05.**  For every supported configuration, every start schedule and every schedule of speeds
valid for the configuration, the strobes produced from reset are, cycle by cycle, exactly: high iff
the time since the most recent start (or reset) equals the specification value for the speed
selected in that cycle. -/
theorem timer_strobes_exact (c : Config) (hc : c.valid = true) (hist : List In)
    (hs : ∀ i ∈ hist, speedValid c i.speed = true) :
    run c init hist = specRun c [] hist := by
  rw [timer_run_all_speeds c hc]; exact codeRun_eq_specRun c hc [] hist hs

/-- For valid speeds the table entry exists (the specification is never vacuous). -/
theorem specTable_some_of_valid (c : Config) (hc : c.valid = true) (speed : Nat)
    (hs : speedValid c speed = true) : ∃ s, specTable c.clk12 speed = some s := by
  obtain ⟨clk12, fsOnly⟩ := c
  cases clk12 <;> cases fsOnly <;> simp [Config.valid] at hc <;> simp [speedValid] at hs
  · have : speed = 0 ∨ speed = 1 ∨ speed = 2 := by omega
    rcases this with rfl | rfl | rfl <;> simp [specTable]
  · subst hs; simp [specTable]
  · subst hs; simp [specTable]

theorem specRun_length (c : Config) (past hist : List In) :
    (specRun c past hist).length = hist.length := by
  induction hist generalizing past with
  | nil => rfl
  | cons x xs ih => simp [specRun, ih]

theorem specRun_getElem (c : Config) (past hist : List In) (t : Nat) (ht : t < hist.length) :
    (specRun c past hist)[t]'(by rw [specRun_length]; exact ht)
      = specOut c ((hist.take t).reverse ++ past) hist[t] := by
  induction hist generalizing past t with
  | nil => simp at ht
  | cons x xs ih =>
    cases t with
    | zero => simp [specRun]
    | succ t =>
      simp only [specRun, List.getElem_cons_succ, List.take_succ_cons, List.reverse_cons,
        List.append_assoc, List.singleton_append]
      exact ih (x :: past) t (by simpa using ht)

/-- Cycle-indexed form: in cycle `t` the strobes are those the specification gives for the inputs of
cycles `0 … t-1` (as `past`) and the speed selected in cycle `t`. -/
theorem timer_strobe_at_cycle (c : Config) (hc : c.valid = true) (hist : List In)
    (hs : ∀ i ∈ hist, speedValid c i.speed = true) (t : Nat) (ht : t < hist.length) :
    (run c init hist)[t]? = some (specOut c (hist.take t).reverse hist[t]) := by
  rw [timer_strobes_exact c hc hist hs]
  rw [List.getElem?_eq_getElem (by rw [specRun_length]; exact ht), specRun_getElem c [] hist t ht]
  simp

/-- `sinceStart` is the distance to the most recent start strobe … -/
theorem sinceStart_last_start (pre rest : List In) (i : In) (hi : i.start = true)
    (hpre : ∀ j ∈ pre, j.start = false) : sinceStart (pre ++ i :: rest) = pre.length := by
  induction pre with
  | nil => simp [sinceStart, hi]
  | cons p ps ih =>
    have hp : p.start = false := hpre p (by simp)
    simp only [List.cons_append, sinceStart, hp, List.length_cons]
    rw [ih (fun j hj => hpre j (by simp [hj]))]
    simp

/-- … and the time since reset when there has been none. -/
theorem sinceStart_no_start (past : List In) (h : ∀ j ∈ past, j.start = false) :
    sinceStart past = past.length := by
  induction past with
  | nil => rfl
  | cons p ps ih =>
    have hp : p.start = false := h p (by simp)
    simp only [sinceStart, hp, List.length_cons]
    rw [ih (fun j hj => h j (by simp [hj]))]
    simp

/-- A full-speed-only build consults only the full-speed table: for any other speed value it
drives no strobe at all, whatever the counter. -/
theorem fs_only_never_uses_other_tables (c : Config) (hf : c.fsOnly = true) (counter speed : Nat)
    (hs : speed ≠ 1) : outputs c counter speed = noStrobe := by
  unfold outputs
  simp [hf, hs]

/-- The strobes are single-cycle pulses: after the counter saturates nothing fires until the next
start (no table value lies above `counter_max`). -/
theorem no_strobe_after_saturation (c : Config) (hc : c.valid = true) (past : List In) (speed : Nat)
    (h : counterMax c < sinceStart past) :
    outputs c (counterAfter c past) speed = noStrobe := by
  rw [outputs_counter c hc]
  obtain ⟨clk12, fsOnly⟩ := c
  cases clk12 <;> cases fsOnly <;> simp [Config.valid] at hc <;>
    simp [counterMax, fsTxToRxTimeout, lsTxToRxTimeout] at h <;>
    simp only [codeTable, specTable] <;>
    (repeat' split) <;> simp [strobesAt, noStrobe] <;> omega

/-! ## Non-vacuity: concrete runs -/

/-- Low speed at 60 MHz from reset: the three strobes at cycles 80, 260 and 640 and nowhere else in
700 cycles. -/
example :
    ((run ⟨false, false⟩ init (List.replicate 700 ⟨false, 2⟩)).zipIdx.filterMap
      (fun (o, t) => if o = noStrobe then none else some (t, o)))
    = [(80, ⟨true, false, false⟩), (260, ⟨false, true, false⟩), (640, ⟨false, false, true⟩)] := by
  decide +kernel

/-- 12 MHz full-speed-only build, restarted in cycle 3 and again in cycle 9. -/
example :
    ((run ⟨true, true⟩ init
      (List.replicate 3 (In.mk false 1) ++ [In.mk true 1] ++ List.replicate 5 (In.mk false 1)
        ++ [In.mk true 1] ++ List.replicate 20 (In.mk false 1))).map (·.txAllowed)).zipIdx.filterMap
      (fun (o, t) => if o then some t else none)
    = [2, 6, 12] := by
  decide +kernel

example : ∀ i ∈ (List.replicate 700 (⟨false, 2⟩ : In)), speedValid ⟨false, false⟩ i.speed = true := by
  intro i hi; rw [List.eq_of_mem_replicate hi]; rfl

/-! ## A start strobe and a reset of the clock domain are the same event for the timer

The counter is the timer's only register and a start strobe loads its reset value, so the state after a start is the
power-on state.  The co-simulation's `domreset` cases (a `ResetInserter` around the gateware timer, reset pulse in the
middle of a count) hand the domain reset to the model as a start; these two lemmas are why that is the right reading
of "from the most recent timer start (or reset)". -/

theorem start_is_reset (c : Config) (s : State) (sp : Nat) : (step c s ⟨true, sp⟩).1 = init := by
  simp [step, next, init]

theorem run_after_start_eq_run_from_reset (c : Config) (s : State) (sp : Nat) (is : List In) :
    run c (step c s ⟨true, sp⟩).1 is = run c init is := by
  rw [start_is_reset]

end LunaVerif.InterpacketTimer
