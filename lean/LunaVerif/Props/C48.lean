import LunaVerif.Model.Usb3.SSSetupDecoder
import LunaVerif.Model.Usb3.SSDescriptor
/-!
# C48 — SuperSpeed control requests are decoded and answered exactly

"The SuperSpeed setup decoder reports a request iff a good data packet with the setup flag carries
exactly eight bytes, with fields equal to those bytes; GET_DESCRIPTOR answers with the first
min(wLength, length) bytes of the requested descriptor and the matching length field, and unknown
descriptors are STALLed."

Part 1 (setup decoder).  The *specification* is a reference tracker `Spec` that simply collects the
payload bytes of the packet in flight (with the setup flag seen at its first word and whether its
last word has been seen) and, at the packet's verdict strobe, reports the bytes iff the verdict is
good, the flag was set, the packet ended and it carried exactly eight bytes.  The theorems say that
for every cycle history that is a well-formed word stream (`envOK`), the decoder's `received`
strobes and output fields are exactly the tracker's reports, little-endian decoded.
-/
namespace LunaVerif.SSSetup

/-- number of bytes selected by a byte-prefix valid mask -/
def cnt (m : Nat) : Nat :=
  if m = 15 then 4 else if m = 7 then 3 else if m = 3 then 2 else if m = 1 then 1 else 0

/-- the first `k` bytes of a little-endian 32-bit word -/
def wordBytes (data k : Nat) : List Nat :=
  [data % 256, data / 256 % 256, data / 65536 % 256, data / 16777216 % 256].take k

/-- Reference tracker: the packet in flight. -/
structure Spec where
  inPkt : Bool          -- a packet has started and has not yet received its verdict
  flag  : Bool          -- header setup flag at its first word
  bytes : List Nat      -- payload bytes so far
  ended : Bool          -- its last word has been seen
deriving Repr

def Spec.init : Spec := ⟨false, false, [], false⟩

/-- One cycle of the tracker; the report (if any) is the list of payload bytes. -/
def specStep (q : Spec) (i : In) : Spec × Option (List Nat) :=
  if i.valid ≠ 0 then
    if q.inPkt then
      ({ q with bytes := q.bytes ++ wordBytes i.data (cnt i.valid), ended := i.last }, none)
    else (⟨true, i.setup, wordBytes i.data (cnt i.valid), i.last⟩, none)
  else if (i.good || i.bad) && q.inPkt then
    (Spec.init,
      if i.good && q.flag && q.ended && q.bytes.length == 8 then some q.bytes else none)
  else (q, none)

/-- Environment: what a well-formed word stream looks like in one cycle, given the packet in
flight.  Only word cycles are constrained: no verdict strobe in a word cycle; every word but the
last has all four bytes valid, a partial word is a byte prefix; `first` exactly on the first word of
a packet; no word after the last one until the verdict. -/
def envOK (q : Spec) (i : In) : Bool :=
  if i.valid ≠ 0 then
    !i.good && !i.bad &&
    (i.valid == 15 || ((i.valid == 1 || i.valid == 3 || i.valid == 7) && i.last)) &&
    (if q.inPkt then !i.first && !q.ended else i.first)
  else true

def envRun : Spec → List In → Bool
  | _, [] => true
  | q, i :: h => envOK q i && envRun (specStep q i).1 h

def specReports : Spec → List In → List (Option (List Nat))
  | _, [] => []
  | q, i :: h => (specStep q i).2 :: specReports (specStep q i).1 h

/-- Little-endian decoding of eight setup bytes into the request fields (USB 2.0 §9.3). -/
def decode (b : List Nat) : Fields :=
  { recipient := b.getD 0 0 % 32
    type      := b.getD 0 0 / 32 % 4
    isIn      := b.getD 0 0 / 128 % 2
    request   := b.getD 1 0
    value     := b.getD 2 0 + 256 * b.getD 3 0
    index     := b.getD 4 0 + 256 * b.getD 5 0
    length    := b.getD 6 0 + 256 * b.getD 7 0 }

/-- What the decoder shows on its (registered) outputs in the cycle after an input. -/
def report (s : State) : Option Fields :=
  if (out s).received then some (out s).fields else none

def modelReports : State → List In → List (Option Fields)
  | _, [] => []
  | s, i :: h => report (next s i) :: modelReports (next s i) h

/-- FSM state of the decoder as a function of the packet in flight. -/
def absFsm (q : Spec) : Fsm :=
  if q.inPkt && q.flag then
    if 4 ≤ q.bytes.length ∧ q.bytes.length < 8 then .parseSecond
    else if q.bytes.length = 8 ∧ q.ended then .waitValid
    else .waitFirst
  else .waitFirst

structure R (q : Spec) (s : State) : Prop where
  fsm   : s.fsm = absFsm q
  mod4  : q.inPkt = true → q.ended = false → q.bytes.length % 4 = 0
  pos   : q.inPkt = true → 1 ≤ q.bytes.length
  w0    : absFsm q ≠ .waitFirst → q.bytes.take 4 = wordBytes s.w0 4
  w1    : absFsm q = .waitValid → q.bytes.drop 4 = wordBytes s.w1 4

theorem wordBytes_length (d k : Nat) (hk : k ≤ 4) : (wordBytes d k).length = k := by
  simp [wordBytes]; omega

theorem absFsm_ps (q : Spec) : absFsm q = .parseSecond ↔
    (q.inPkt = true ∧ q.flag = true ∧ 4 ≤ q.bytes.length ∧ q.bytes.length < 8) := by
  unfold absFsm; grind

theorem absFsm_wv (q : Spec) : absFsm q = .waitValid ↔
    (q.inPkt = true ∧ q.flag = true ∧ q.bytes.length = 8 ∧ q.ended = true) := by
  unfold absFsm; grind

theorem absFsm_wf (q : Spec) : absFsm q = .waitFirst ↔
    (q.inPkt = false ∨ q.flag = false ∨ q.bytes.length < 4 ∨ 8 < q.bytes.length
      ∨ (q.bytes.length = 8 ∧ q.ended = false)) := by
  unfold absFsm; grind

theorem R_idle (s : State) (h : s.fsm = .waitFirst) : R Spec.init s := by
  constructor <;> simp [Spec.init, absFsm, h]

theorem R_init : R Spec.init init := R_idle _ rfl

theorem decode_words (a b : Nat) : fieldsOf a b = decode (wordBytes a 4 ++ wordBytes b 4) := by
  simp only [fieldsOf, decode, wordBytes, List.take, List.cons_append, List.nil_append,
    List.getD_cons_zero, List.getD_cons_succ, Fields.mk.injEq]
  refine ⟨?_, ?_, ?_, ?_, ?_, ?_, ?_⟩
  all_goals (first | trivial | omega)

theorem cnt_cases (v : Nat) (l : Bool)
    (h : (v == 15 || ((v == 1 || v == 3 || v == 7) && l)) = true) :
    (v = 15 ∧ cnt v = 4) ∨ (v ≠ 15 ∧ 1 ≤ cnt v ∧ cnt v < 4 ∧ l = true) := by
  simp at h
  rcases h with h | ⟨(h | h) | h, hl⟩ <;> subst h <;> simp [cnt, *]

/-- (A) verdict strobe for the packet in flight -/
theorem sim_verdict (q : Spec) (s : State) (i : In) (hR : R q s) (hv : i.valid = 0)
    (hgb : i.good = true ∨ i.bad = true) (hin : q.inPkt = true) :
    R Spec.init (next s i) ∧ report (next s i) =
      (if i.good && q.flag && q.ended && q.bytes.length == 8 then some q.bytes else none).map decode := by
  obtain ⟨hf, hm, hp, h0, h1⟩ := hR
  obtain ⟨fsm, w0, w1, o0, o1, rc⟩ := s
  simp only at hf h0 h1
  cases hfsm : absFsm q
  · -- waitFirst: nothing stored, nothing reported
    rw [hfsm] at hf; subst hf
    have hno : (i.good && q.flag && q.ended && q.bytes.length == 8) = false := by
      rcases (absFsm_wf q).1 hfsm with h | h | h | h | ⟨h, h'⟩
      · simp [hin] at h
      · simp [h]
      · have : (q.bytes.length == 8) = false := by simp; omega
        simp [this]
      · have : (q.bytes.length == 8) = false := by simp; omega
        simp [this]
      · simp [h']
    rw [hno]
    refine ⟨R_idle _ ?_, ?_⟩ <;> simp [next, hv, report, out]
  · -- parseSecond: leave on either strobe (the repair), nothing reported
    rw [hfsm] at hf; subst hf
    obtain ⟨_, _, hl4, hl8⟩ := (absFsm_ps q).1 hfsm
    have hno : (i.good && q.flag && q.ended && q.bytes.length == 8) = false := by
      have : (q.bytes.length == 8) = false := by simp; omega
      simp [this]
    have hgb' : (i.bad || i.good) = true := by rcases hgb with h | h <;> simp [h]
    rw [hno]
    refine ⟨R_idle _ ?_, ?_⟩ <;> simp [next, hv, hgb', report, out]
  · -- waitValid: report iff good
    rw [hfsm] at hf; subst hf
    obtain ⟨_, hfl, hl8, hend⟩ := (absFsm_wv q).1 hfsm
    have hb : q.bytes = wordBytes w0 4 ++ wordBytes w1 4 := by
      rw [← h0 (by simp [hfsm]), ← h1 hfsm, List.take_append_drop]
    cases hg : i.good
    · have hbad : i.bad = true := by simpa [hg] using hgb
      refine ⟨R_idle _ ?_, ?_⟩ <;> simp [next, hv, hg, hbad, report, out]
    · refine ⟨R_idle _ ?_, ?_⟩
      · cases i.bad <;> simp [next, hv, hg]
      · have : report (next ⟨.waitValid, w0, w1, o0, o1, rc⟩ i) = some (fieldsOf w0 w1) := by
          cases i.bad <;> simp [report, out, next, hv, hg]
        rw [this, decode_words, ← hb]
        simp [hfl, hend, hl8]

/-- (B) a cycle that is neither a word nor a verdict for a packet in flight -/
theorem sim_idle (q : Spec) (s : State) (i : In) (hR : R q s) (hv : i.valid = 0)
    (hq : q.inPkt = false ∨ (i.good = false ∧ i.bad = false)) :
    R q (next s i) ∧ report (next s i) = none := by
  obtain ⟨hf, hm, hp, h0, h1⟩ := hR
  obtain ⟨fsm, w0, w1, o0, o1, rc⟩ := s
  simp only at hf h0 h1
  have hstay : next ⟨fsm, w0, w1, o0, o1, rc⟩ i = ⟨fsm, w0, w1, o0, o1, false⟩ := by
    cases hfsm : absFsm q
    · rw [hfsm] at hf; subst hf; simp [next, hv]
    · rw [hfsm] at hf; subst hf
      rcases hq with hq | ⟨hg, hb⟩
      · have := (absFsm_ps q).1 hfsm; simp [hq] at this
      · simp [next, hv, hg, hb]
    · rw [hfsm] at hf; subst hf
      rcases hq with hq | ⟨hg, hb⟩
      · have := (absFsm_wv q).1 hfsm; simp [hq] at this
      · simp [next, hv, hg, hb]
  rw [hstay]
  exact ⟨⟨hf, hm, hp, h0, h1⟩, by simp [report, out]⟩

/-- (C) the first word of a packet -/
theorem sim_first (q : Spec) (s : State) (i : In) (hR : R q s) (hv : i.valid ≠ 0)
    (hin : q.inPkt = false) (hg : i.good = false) (hb : i.bad = false) (hfirst : i.first = true)
    (hc : (i.valid = 15 ∧ cnt i.valid = 4) ∨ (i.valid ≠ 15 ∧ 1 ≤ cnt i.valid ∧ cnt i.valid < 4 ∧ i.last = true)) :
    R ⟨true, i.setup, wordBytes i.data (cnt i.valid), i.last⟩ (next s i) ∧ report (next s i) = none := by
  obtain ⟨hf, hm, hp, h0, h1⟩ := hR
  obtain ⟨fsm, w0, w1, o0, o1, rc⟩ := s
  simp only at hf h0 h1
  have hfsm : fsm = .waitFirst := by rw [hf]; simp [absFsm, hin]
  subst hfsm
  have hlen : (wordBytes i.data (cnt i.valid)).length = cnt i.valid :=
    wordBytes_length _ _ (by rcases hc with ⟨_, h⟩ | ⟨_, _, h, _⟩ <;> omega)
  have hc1 : 1 ≤ cnt i.valid := by rcases hc with ⟨_, h⟩ | ⟨_, h, _, _⟩ <;> omega
  have hfull : cnt i.valid = 4 → (wordBytes i.data (cnt i.valid)).take 4 = wordBytes i.data 4 := by
    intro h; rw [h]; simp [wordBytes]
  generalize wordBytes i.data (cnt i.valid) = bs at *
  by_cases htake : i.valid = 15 ∧ i.setup = true
  · have hnx : next ⟨.waitFirst, w0, w1, o0, o1, rc⟩ i = ⟨.parseSecond, i.data, w1, o0, o1, false⟩ := by
      simp [next, htake.1, htake.2, hfirst]
    have h4 : cnt i.valid = 4 := by
      rcases hc with ⟨_, h⟩ | ⟨h, _⟩
      · exact h
      · exact absurd htake.1 h
    have hnew : absFsm ⟨true, i.setup, bs, i.last⟩ = .parseSecond := by
      rw [absFsm_ps]; simp [htake.2]; omega
    rw [hnx]
    refine ⟨⟨by simp [hnew], ?_, (by intro _; simp only [List.length_append]; omega), ?_, ?_⟩, by simp [report, out]⟩
    · intro _ _; simp only; omega
    · intro _; exact hfull h4
    · intro h; rw [hnew] at h; cases h
  · have hnx : next ⟨.waitFirst, w0, w1, o0, o1, rc⟩ i = ⟨.waitFirst, w0, w1, o0, o1, false⟩ := by
      simp only [next]
      have : (i.valid == 15 && i.first && i.setup) = false := by
        cases hs : i.setup <;> simp_all
      simp [this]
    have hnew : absFsm ⟨true, i.setup, bs, i.last⟩ = .waitFirst := by
      rw [absFsm_wf]; simp only
      rcases hc with ⟨h15, h4⟩ | ⟨_, _, h4, _⟩
      · right; left; cases hs : i.setup
        · rfl
        · exact absurd ⟨h15, hs⟩ htake
      · right; right; left; omega
    rw [hnx]
    refine ⟨⟨by simp [hnew], ?_, (by intro _; simp only [List.length_append]; omega), ?_, ?_⟩, by simp [report, out]⟩
    · intro _ hl; simp only at hl ⊢
      rcases hc with ⟨_, h4⟩ | ⟨_, _, _, hl'⟩
      · omega
      · simp [hl'] at hl
    · intro h; exact absurd hnew h
    · intro h; rw [hnew] at h; cases h

/-- (D) a further word of the packet in flight -/
theorem sim_more (q : Spec) (s : State) (i : In) (hR : R q s) (hv : i.valid ≠ 0)
    (hin : q.inPkt = true) (hg : i.good = false) (hb : i.bad = false) (hnf : i.first = false)
    (hne : q.ended = false)
    (hc : (i.valid = 15 ∧ cnt i.valid = 4) ∨ (i.valid ≠ 15 ∧ 1 ≤ cnt i.valid ∧ cnt i.valid < 4 ∧ i.last = true)) :
    R { q with bytes := q.bytes ++ wordBytes i.data (cnt i.valid), ended := i.last } (next s i)
      ∧ report (next s i) = none := by
  obtain ⟨hf, hm, hp, h0, h1⟩ := hR
  obtain ⟨fsm, w0, w1, o0, o1, rc⟩ := s
  simp only at hf h0 h1
  have hm4 := hm hin hne
  have hlen : (wordBytes i.data (cnt i.valid)).length = cnt i.valid :=
    wordBytes_length _ _ (by rcases hc with ⟨_, h⟩ | ⟨_, _, h, _⟩ <;> omega)
  have hc1 : 1 ≤ cnt i.valid ∧ cnt i.valid ≤ 4 := by
    rcases hc with ⟨_, h⟩ | ⟨_, h1, h, _⟩ <;> omega
  have hmod : i.last = false → (q.bytes.length + cnt i.valid) % 4 = 0 := by
    intro hl; rcases hc with ⟨_, h4⟩ | ⟨_, _, _, hl'⟩
    · omega
    · simp [hl'] at hl
  have hfull : cnt i.valid = 4 → wordBytes i.data (cnt i.valid) = wordBytes i.data 4 := by
    intro h; rw [h]
  generalize wordBytes i.data (cnt i.valid) = bs at *
  cases hfsm : absFsm q
  · -- the packet is being ignored (no flag, short first word, or too long): it stays ignored
    rw [hfsm] at hf; subst hf
    have hstay : next ⟨.waitFirst, w0, w1, o0, o1, rc⟩ i = ⟨.waitFirst, w0, w1, o0, o1, false⟩ := by
      simp [next, hnf]
    have hnew : absFsm { q with bytes := q.bytes ++ bs, ended := i.last }
        = .waitFirst := by
      rw [absFsm_wf]
      simp only [List.length_append, hlen]
      rcases (absFsm_wf q).1 hfsm with h | h | h | h | ⟨h, _⟩
      · simp [hin] at h
      · right; left; exact h
      · -- fewer than 4 bytes without having ended: length is a multiple of four, so it is 0
        have := hp hin
        omega
      · right; right; right; left; omega
      · right; right; right; left; omega
    rw [hstay]
    refine ⟨⟨by simp [hnew], ?_, (by intro _; simp only [List.length_append]; omega), ?_, ?_⟩, by simp [report, out]⟩
    · intro _ hl; simp only [List.length_append, hlen]; exact hmod hl
    · intro h; exact absurd hnew h
    · intro h; rw [hnew] at h; cases h
  · -- second word
    rw [hfsm] at hf; subst hf
    obtain ⟨_, hq, hl4, hl8⟩ := (absFsm_ps q).1 hfsm
    have hl : q.bytes.length = 4 := by omega
    have hw0 := h0 (by simp [hfsm])
    have ht : (q.bytes ++ bs).take 4 = q.bytes.take 4 := by
      rw [List.take_append_of_le_length (by omega)]
    rcases hc with ⟨h15, hc4⟩ | ⟨hn15, _, hc4, hlast⟩
    · cases hlast : i.last
      · -- a full word that is not the last: not a setup packet
        have hnew : absFsm { q with bytes := q.bytes ++ bs, ended := false }
            = .waitFirst := by
          rw [absFsm_wf]; simp only [List.length_append, hlen]; right; right; right; right
          exact ⟨by omega, trivial⟩
        have hnx : next ⟨.parseSecond, w0, w1, o0, o1, rc⟩ i = ⟨.waitFirst, w0, w1, o0, o1, false⟩ := by
          simp [next, h15, hlast, hg, hb]
        rw [hnx]
        refine ⟨⟨by simp [hnew], ?_, (by intro _; simp only [List.length_append]; omega), ?_, ?_⟩, by simp [report, out]⟩
        · intro _ _; simp only [List.length_append, hlen]; omega
        · intro h; exact absurd hnew h
        · intro h; rw [hnew] at h; cases h
      · have hnew : absFsm { q with bytes := q.bytes ++ bs, ended := true }
            = .waitValid := by
          rw [absFsm_wv]; simp only [List.length_append, hlen]; simp [hin, hq]; omega
        have hnx : next ⟨.parseSecond, w0, w1, o0, o1, rc⟩ i = ⟨.waitValid, w0, i.data, o0, o1, false⟩ := by
          simp [next, h15, hlast, hg, hb]
        rw [hnx]
        refine ⟨⟨by simp [hnew], ?_, (by intro _; simp only [List.length_append]; omega), ?_, ?_⟩, by simp [report, out]⟩
        · intro _ h; cases h
        · intro _; simp only; rw [ht]; exact hw0
        · intro _; simp only
          rw [List.drop_append_of_le_length (by omega), List.drop_eq_nil_of_le (Nat.le_of_eq hl)]
          exact hfull hc4
    · have hne15 : (i.valid == 15) = false := by simp [hn15]
      have hnew : absFsm { q with bytes := q.bytes ++ bs, ended := i.last }
            = .parseSecond := by
        rw [absFsm_ps]; simp only [List.length_append, hlen]; simp [hin, hq]; omega
      have hnx : next ⟨.parseSecond, w0, w1, o0, o1, rc⟩ i = ⟨.parseSecond, w0, w1, o0, o1, false⟩ := by
        simp [next, hne15, hg, hb]
      rw [hnx]
      refine ⟨⟨by simp [hnew], ?_, (by intro _; simp only [List.length_append]; omega), ?_, ?_⟩, by simp [report, out]⟩
      · intro _ h; simp [hlast] at h
      · intro _; simp only; rw [ht]; exact hw0
      · intro h; rw [hnew] at h; cases h
  · -- the packet has ended (8 bytes + last): the environment sends no further word
    obtain ⟨_, _, _, hend⟩ := (absFsm_wv q).1 hfsm
    rw [hend] at hne; cases hne

/-- One-cycle simulation: the decoder follows the tracker and reports exactly what it reports. -/
theorem step_sim (q : Spec) (s : State) (i : In) (hR : R q s) (he : envOK q i = true) :
    R (specStep q i).1 (next s i) ∧ report (next s i) = ((specStep q i).2).map decode := by
  by_cases hv : i.valid = 0
  · by_cases hs : ((i.good || i.bad) && q.inPkt) = true
    · simp only [specStep, hv, ne_eq, not_true_eq_false, if_false, hs, if_true]
      simp only [Bool.and_eq_true, Bool.or_eq_true] at hs
      exact sim_verdict q s i hR hv hs.1 hs.2
    · simp only [specStep, hv, ne_eq, not_true_eq_false, if_false, hs]
      have hq : q.inPkt = false ∨ (i.good = false ∧ i.bad = false) := by
        cases hq : q.inPkt <;> simp [hq] at hs ⊢; exact hs
      exact sim_idle q s i hR hv hq
  · simp only [envOK, ne_eq, hv, not_false_eq_true, if_true, Bool.and_eq_true, Bool.not_eq_true'] at he
    obtain ⟨⟨⟨hg, hb⟩, hmask⟩, hfl⟩ := he
    have hc := cnt_cases i.valid i.last hmask
    simp only [specStep, ne_eq, hv, not_false_eq_true, if_true]
    cases hin : q.inPkt
    · simp only [hin, Bool.false_eq_true, if_false] at hfl ⊢
      exact sim_first q s i hR hv hin hg hb hfl hc
    · simp only [hin, if_true, Bool.and_eq_true, Bool.not_eq_true'] at hfl ⊢
      have := sim_more q s i hR hv hin hg hb hfl.1 hfl.2 hc
      rw [hin] at this; exact this

theorem run_sim (q : Spec) (s : State) (h : List In) (hR : R q s) (he : envRun q h = true) :
    modelReports s h = (specReports q h).map (Option.map decode) := by
  induction h generalizing q s with
  | nil => rfl
  | cons i h ih =>
    simp only [envRun, Bool.and_eq_true] at he
    obtain ⟨hs, hrep⟩ := step_sim q s i hR he.1
    simp only [modelReports, specReports, List.map_cons]
    rw [hrep, ih _ _ hs he.2]

/-- **C48 (setup, fields)**: for every well-formed history from reset, in every cycle the decoder's
registered outputs show a request exactly when the tracker reports one, and the fields are the
little-endian decoding of that packet's eight payload bytes. -/
theorem ss_setup_fields_exact (h : List In) (he : envRun Spec.init h = true) :
    modelReports init h = (specReports Spec.init h).map (Option.map decode) :=
  run_sim _ _ h R_init he

/-- **C48 (setup, iff)**: `received` is strobed in the cycle after an input iff that input is a good
verdict for a packet that had the setup flag, has ended, and carried exactly eight bytes. -/
theorem ss_setup_reported_iff (h : List In) (he : envRun Spec.init h = true) :
    (modelReports init h).map Option.isSome = (specReports Spec.init h).map Option.isSome := by
  rw [ss_setup_fields_exact h he, List.map_map]
  congr 1; funext o; cases o <;> rfl

/-- the tracker reports only good, flagged, ended packets of exactly eight bytes (spec sanity) -/
theorem spec_report_iff (q : Spec) (i : In) (b : List Nat) :
    (specStep q i).2 = some b ↔
      (i.valid = 0 ∧ i.good = true ∧ q.inPkt = true ∧ q.flag = true ∧ q.ended = true
        ∧ q.bytes.length = 8 ∧ b = q.bytes) := by
  unfold specStep
  by_cases hv : i.valid = 0
  · by_cases hs : ((i.good || i.bad) && q.inPkt) = true
    · simp only [hv, ne_eq, not_true_eq_false, if_false, hs, if_true]
      by_cases hc : (i.good && q.flag && q.ended && q.bytes.length == 8) = true
      · simp only [hc, if_true]; simp at hc hs
        constructor
        · intro h; cases h; simp_all
        · intro h; simp_all
      · simp only [hc]; simp at hc hs
        constructor
        · intro h; cases h
        · intro h; simp_all
    · simp only [hv, ne_eq, not_true_eq_false, if_false, hs]
      simp at hs
      constructor
      · intro h; cases h
      · intro h; simp_all
  · simp only [ne_eq, hv, not_false_eq_true, if_true]
    split <;> simp [hv]

/- Non-vacuity: an 8-byte good SETUP (GET_DESCRIPTOR device, wLength 18) preceded by a 4-byte setup
packet (the history on which the unrepaired gateware loses the request) and a bad one. -/
def demo : List In :=
  [ ⟨15, true, true, 0x11223344, false, false, true⟩, ⟨0, false, false, 0, true, false, true⟩,
    ⟨15, true, false, 0x01000680, false, false, true⟩, ⟨0, false, false, 7, false, false, true⟩,
    ⟨15, false, true, 0x00120000, false, false, true⟩, ⟨0, false, true, 0, true, false, true⟩,
    ⟨15, true, false, 0x01000680, false, false, true⟩, ⟨15, false, true, 0x00120000, false, false, true⟩,
    ⟨0, false, false, 0, false, true, true⟩, ⟨0, false, false, 0, false, false, false⟩ ]

example : envRun Spec.init demo = true := by decide
example : modelReports init demo =
    [none, none, none, none, none, some ⟨0, 0, 1, 6, 0x0100, 0, 18⟩, none, none, none, none] := by decide

end LunaVerif.SSSetup
