import LunaVerif.Model.Usb3.CtcSkipInserter
/-!
# C33 — Transmit CTC inserts SKPs only in place of idle and often enough

"The transmitted symbol stream equals the link layer's stream except that some logical-idle filler
words are replaced by SKP words; packet and command data are never replaced, dropped or delayed out
of order, the scrambler does not advance over inserted SKPs, and SKP symbols are scheduled at the
rate of one SKP ordered set per 354 transmitted symbols whenever idle time permits."

Quantifier: all link-layer streams (bursts of data interleaved with idle filler of any length).

Environment assumption (`Env`): in every cycle with `can_send_skip = 1` the word offered on the sink is
logical idle (valid, four D0.0 symbols).  link/layer.py guarantees it structurally: the only assignment
of `can_send_skp` sits in the `If(arbiter.idle)` block that also drives the sink with IDL
(`link_layer_idle_mux_guarantees_env` on the model `linkIdleMux`; the harness re-checks the source text
on every run), physical/layer.py forwards the flag unchanged and the scrambler in between is
combinational (no skew between flag and word).

What "transmitted stream" means here: the source of `CTCSkipInserter` is a register, so the word the
PHY sees in cycle t+1 is `(next s i).src` for the input `i` of cycle t.  As coded, every sink word is
forwarded whether or not `sink.ready` was high (there is no back-pressure besides the registered
ready); in the physical layer `source.ready` is constant 1 outside electrical idle.

Debt counter: `skips_to_send` is 3 bits wide; `skp_debt_accounting` holds while it does not wrap
(`NoWrap`), `no_wrap_below_2832_bytes` shows that takes 8·354 bytes of unpaid debt, and
`debt_counter_overflow_boundary` exhibits the wrap 7 → 0 (eight owed ordered sets forgotten).
-/
namespace LunaVerif.CtcInserter
open LunaVerif.Ss

/-! ## Specification vocabulary -/

def isIdle (b : Beat) : Prop := b.valid = true ∧ b.syms = IDLE4

/-- The environment assumption, for a given shape `idle` of the logical-idle beat at the sink of the
inserter: `isIdle` as the link layer offers it; inside the physical layer the (combinational)
scrambler sits in between, so there `idle` is "the scrambled image of the idle word of this cycle" —
the inserter never looks at the data, hence the theorems hold for any `idle`. -/
def Env (idle : Beat → Prop) (ins : List In) : Prop := ∀ i ∈ ins, i.canSend = true → idle i.sink

/-- The beats in the source register after each input = what is transmitted one cycle later. -/
def txBeats (s : State) (ins : List In) : List Beat := (states s ins).map (·.src)

/-- The specification of the transmitted stream: the link layer's beat, or the SKP word where one is
inserted (`first`/`last` of the register are left as they were — the PHY does not use them). -/
def specBeat (s : State) (i : In) (inserted : Bool) : Beat :=
  if inserted then ⟨true, SKP4, s.src.first, s.src.last⟩ else i.sink

/-- Number of SKP words inserted. -/
def sentWords : State → List In → Nat
  | _, [] => 0
  | s, i :: is => (if sending s i then 1 else 0) + sentWords (next s i) is

/-- The 3-bit debt counter does not wrap: it is below 7 whenever it is incremented. -/
def NoWrap : State → List In → Prop
  | _, [] => True
  | s, i :: is => (skipNeeded s i = true → sending s i = false → s.skips < 7) ∧ NoWrap (next s i) is

/-! ## The environment is what link/layer.py provides -/

theorem link_layer_idle_mux_guarantees_env (arbiterIdle : Bool) (arb : Beat) (srcReady : Bool) :
    Env isIdle [⟨(linkIdleMux arbiterIdle arb).1, srcReady, (linkIdleMux arbiterIdle arb).2⟩] := by
  intro i hi hc
  simp only [List.mem_singleton] at hi
  subst hi
  cases arbiterIdle <;> simp_all [linkIdleMux, isIdle]

/-! ## The transmitted stream -/

theorem next_src (s : State) (i : In) : (next s i).src = specBeat s i (sending s i) := rfl

theorem sending_needs_permission (s : State) (i : In) (h : sending s i = true) :
    i.canSend = true ∧ 2 ≤ s.skips := by
  simpa [sending] using h

/-- "Whenever idle time permits": a SKP word is inserted in EVERY cycle in which the link layer allows
it and two ordered sets are owed — no further condition. -/
theorem skp_sent_as_soon_as_allowed (s : State) (i : In) :
    sending s i = (i.canSend && decide (2 ≤ s.skips)) := rfl

/-- **C33 (a).**  For every history: the word transmitted after each cycle is the link layer's word of
that cycle, except in the cycles flagged by `sending_skip`, where it is SKP SKP SKP SKP; flagged
cycles have `can_send_skip = 1`, and under `Env` the word they replace is logical idle.  One output
per input, same order, latency one cycle: nothing else is replaced, dropped, delayed or reordered. -/
theorem tx_stream_is_input_with_idle_replaced (idle : Beat → Prop) (s : State) (ins : List In)
    (he : Env idle ins) :
    (txBeats s ins).map (fun b => (b.valid, b.syms)) =
      List.zipWith (fun (i : In) (f : Bool) => if f then (true, SKP4) else (i.sink.valid, i.sink.syms))
        ins (sendFlags s ins) ∧
    (sendFlags s ins).length = ins.length ∧
    (∀ p ∈ List.zip ins (sendFlags s ins), p.2 = true → p.1.canSend = true ∧ idle p.1.sink) := by
  induction ins generalizing s with
  | nil => simp [txBeats, states, sendFlags]
  | cons i is ih =>
    have hi := he i (List.mem_cons_self ..)
    obtain ⟨h1, h2, h3⟩ := ih (next s i) (fun j hj => he j (List.mem_cons_of_mem _ hj))
    refine ⟨?_, by simp [sendFlags, h2], ?_⟩
    · simp only [txBeats, states, sendFlags, List.map_cons, List.zipWith_cons_cons]
      rw [show (states (next s i) is).map (·.src) = txBeats (next s i) is from rfl, h1, next_src]
      cases sending s i <;> simp [specBeat]
    · intro p hp hf
      simp only [sendFlags, List.zip_cons_cons, List.mem_cons] at hp
      rcases hp with rfl | hp
      · have := (sending_needs_permission s i hf).1
        exact ⟨this, hi this⟩
      · exact h3 p hp hf

/-- Packet and command words: every beat that is not logical idle is transmitted unchanged (all
fields), in its own slot. -/
theorem non_idle_words_pass_unchanged (idle : Beat → Prop) (s : State) (ins : List In)
    (he : Env idle ins) :
    ∀ p ∈ List.zip ins (txBeats s ins), ¬ idle p.1.sink → p.2 = p.1.sink := by
  induction ins generalizing s with
  | nil => simp [txBeats, states]
  | cons i is ih =>
    intro p hp hn
    simp only [txBeats, states, List.map_cons, List.zip_cons_cons, List.mem_cons] at hp
    rcases hp with rfl | hp
    · show (next s i).src = i.sink
      rw [next_src]
      cases hs : sending s i
      · rfl
      · exact absurd (he i (List.mem_cons_self ..) (sending_needs_permission s i hs).1) hn
    · exact ih (next s i) (fun j hj => he j (List.mem_cons_of_mem _ hj)) p hp hn

/-! ## Scrambler hold -/

/-- **C33 (b).**  physical/layer.py wires `scrambler.hold = tx_ctc.sending_skip`.  The flag is high
exactly in the cycles whose word is replaced: then the SKP word is what gets transmitted and the
link-layer word of that cycle (idle, under `Env`) is consumed without being transmitted; otherwise
the link-layer word itself is transmitted.  So the scrambler is held precisely over inserted SKP
words (the link layer itself never offers a SKP word: `hnoskp`). -/
theorem scrambler_hold_iff_skp_word (s : State) (i : In) (hnoskp : i.sink.syms ≠ SKP4) :
    ((outOf s i).sendingSkip = true ↔ (next s i).src.syms = SKP4) ∧
    ((outOf s i).sendingSkip = true → (next s i).src.valid = true) ∧
    ((outOf s i).sendingSkip = false → (next s i).src = i.sink) := by
  rw [next_src]
  show (sending s i = true ↔ _) ∧ (sending s i = true → _) ∧ (sending s i = false → _)
  cases sending s i <;> simp [specBeat, hnoskp]

/-! ## SKP scheduling: the debt accounting -/

theorem step_accounting (s : State) (i : In) (he : s.elapsed < 354) (hk : s.skips < 8)
    (hnw : skipNeeded s i = true → sending s i = false → s.skips < 7) :
    354 * (next s i).skips + (next s i).elapsed + 708 * (if sending s i then 1 else 0) =
      354 * s.skips + s.elapsed + 4 * (if xfer s i then 1 else 0) ∧
    (next s i).elapsed < 354 ∧ (next s i).skips < 8 := by
  unfold skipNeeded sending at hnw
  unfold next skipNeeded sending
  simp only [SKIP_BYTE_LIMIT] at *
  cases hx : xfer s i <;> cases hc : i.canSend <;> by_cases h2 : 2 ≤ s.skips <;>
    by_cases hl : s.elapsed + 4 ≥ 354 <;> simp [hx, hc, h2, hl] at hnw ⊢ <;> omega

/-- **C33 (c).**  While the 3-bit counter does not wrap, for every history from any legal state: the
bytes accepted from the link layer are accounted for exactly — 354 per owed ordered set
(`skips_to_send`), 2·354 per inserted SKP word (two ordered sets), plus the remainder kept in
`data_bytes_elapsed` (never discarded, as USB 3.2 §6.4.3 requires). -/
theorem skp_debt_accounting (s : State) (ins : List In) (he : s.elapsed < 354) (hk : s.skips < 8)
    (hnw : NoWrap s ins) :
    354 * (final s ins).skips + (final s ins).elapsed + 708 * sentWords s ins =
      354 * s.skips + s.elapsed + 4 * transfers s ins ∧
    (final s ins).elapsed < 354 ∧ (final s ins).skips < 8 := by
  induction ins generalizing s with
  | nil => simp [final, sentWords, transfers, he, hk]
  | cons i is ih =>
    obtain ⟨hn1, hn2⟩ := hnw
    obtain ⟨h1, h2, h3⟩ := step_accounting s i he hk hn1
    obtain ⟨g1, g2, g3⟩ := ih (next s i) h2 h3 hn2
    refine ⟨?_, g2, g3⟩
    simp only [final, sentWords, transfers]
    cases hs : sending s i <;> cases hx : xfer s i <;>
      simp only [hs, hx, if_true, if_false, Bool.false_eq_true] at h1 ⊢ <;> omega

/-- From reset: the debt is ⌊bytes/354⌋ − 2·(SKP words sent) and the remainder is bytes mod 354, i.e.
one SKP ordered set is scheduled per 354 symbols taken from the link layer. -/
theorem debt_from_reset (ins : List In) (hnw : NoWrap init ins) :
    (final init ins).skips + 2 * sentWords init ins = 4 * transfers init ins / 354 ∧
    (final init ins).elapsed = 4 * transfers init ins % 354 := by
  obtain ⟨h1, h2, _⟩ := skp_debt_accounting init ins (by decide) (by decide) hnw
  have e1 : init.skips = 0 := rfl
  have e2 : init.elapsed = 0 := rfl
  rw [e1, e2] at h1
  omega

/-- The wrap cannot happen before 8·354 = 2832 bytes of debt (owed sets, remainder and bytes still to
come) have accumulated without being paid. -/
theorem no_wrap_below_2832_bytes (s : State) (ins : List In) (he : s.elapsed < 354) (hk : s.skips < 8)
    (hb : 354 * s.skips + s.elapsed + 4 * transfers s ins < 2832) : NoWrap s ins := by
  induction ins generalizing s with
  | nil => trivial
  | cons i is ih =>
    have hstep : skipNeeded s i = true → sending s i = false → s.skips < 7 := by
      intro hn _
      simp only [skipNeeded, SKIP_BYTE_LIMIT, Bool.and_eq_true] at hn
      obtain ⟨hx, hl⟩ := hn
      have hl' := of_decide_eq_true hl
      simp only [transfers, hx, if_true] at hb
      omega
    obtain ⟨h1, h2, h3⟩ := step_accounting s i he hk hstep
    refine ⟨hstep, ih (next s i) h2 h3 ?_⟩
    simp only [transfers] at hb
    cases hx : xfer s i <;> cases hs : sending s i <;> simp only [hx, hs, if_true, if_false,
      Bool.false_eq_true] at h1 hb <;> omega

/-- **The overflow boundary as coded.**  With seven ordered sets owed, one more 354-byte boundary
crossed in a cycle without insertion wraps the counter to 0: eight owed sets are forgotten.  (The
source comments expect at most 4 owed sets; the link layer allows insertion only while its arbiter is
idle, so any transmission longer than 8·354 bytes without an idle word — e.g. training sets — gets
here.) -/
theorem debt_counter_overflow_boundary (s : State) (i : In) (h7 : s.skips = 7)
    (hn : skipNeeded s i = true) (hs : sending s i = false) : (next s i).skips = 0 := by
  simp [next, hn, hs, h7]

/-! ## Non-vacuity -/

private def idleIn : In := ⟨⟨true, IDLE4, false, false⟩, true, true⟩
private def dataIn (d : Nat) : In := ⟨⟨true, unpack 4 d 0, false, false⟩, true, false⟩

example : Env isIdle (List.replicate 3 idleIn ++ [dataIn 0x11223344, idleIn]) := by
  intro i hi; simp [idleIn, dataIn] at hi; rcases hi with rfl | rfl | rfl <;> simp [isIdle]

/-- 178 data words (712 bytes) then idle: two ordered sets are owed, the first idle word after the
burst is replaced by a SKP word, the second is not. -/
example : sendFlags init (idleIn :: (List.replicate 178 (dataIn 0xA5A5A5A5) ++ [idleIn, idleIn, idleIn])) =
    List.replicate 179 false ++ [true, false, false] := by decide +kernel

example : NoWrap init (idleIn :: (List.replicate 178 (dataIn 0xA5A5A5A5) ++ [idleIn, idleIn, idleIn])) :=
  no_wrap_below_2832_bytes _ _ (by decide) (by decide) (by decide +kernel)

/-- The wrap is reachable: state with 7 owed sets, limit reached, no permission. -/
example : (next ⟨7, 352, ⟨false, IDLE4, false, false⟩, true⟩ (dataIn 1)).skips = 0 := by decide

end LunaVerif.CtcInserter
