import LunaVerif.Props.C13
import LunaVerif.Lemmas.C13Fin
/-!
# C13 — the history-level theorems
-/
namespace LunaVerif.StreamOutEndpoint
open LunaVerif

def runState (c : Config) : State → List In → State
  | s, [] => s
  | s, i :: is => runState c (step c s i).1 is

theorem transfers_cons (i : In) (o : Out) (is : List In) (os : List Out) :
    transfers (i :: is) (o :: os)
      = (if i.ready && o.valid then [(o.data, o.first, o.last)] else []) ++ transfers is os := by
  simp only [transfers, List.zip_cons_cons, List.filterMap_cons]
  split <;> simp_all

theorem view_not_both {p : Phase} {o : BoundaryDetector.Out} (h : View p o) :
    ¬(o.completeOut = true ∧ o.invalidOut = true) := by
  cases p <;> simp only [View] at h
  case finStrobe t pid bytes ok r => obtain ⟨_, h1, h2⟩ := h; rw [h1, h2]; cases ok <;> simp
  all_goals (obtain ⟨h1, h2, _⟩ := h; simp_all)

/-- one cycle of C18's queue as the endpoint drives it (`read_commit = 1`, `read_discard = 0`, and
`write_en` already gated with `~full`): the read side hands out the oldest committed entry, the write side is
`wNext` -/
theorem qstep_eq (q : TxnFifo.Queue Nat) (d : Nat) (w : Nat × Bool × Bool × Bool) (ren : Bool) (com : List Nat)
    (h : (w.2.1 && !(q.held == d)) = w.2.1) :
    (q.step d ⟨w.1, w.2.1, w.2.2.1, w.2.2.2, ren, true, false⟩).W = (wNext q.W com w).1 ∧
    ∃ Cadd, (if ren && !q.C.isEmpty then q.C.take 1 else [])
        ++ (q.step d ⟨w.1, w.2.1, w.2.2.1, w.2.2.2, ren, true, false⟩).C = q.C ++ Cadd ∧
      (wNext q.W com w).2 = com ++ Cadd := by
  obtain ⟨wd, wen, wc, wdis⟩ := w
  simp only at h
  have ht : List.take 1 q.C ++ q.C.tail = q.C := by cases q.C <;> simp
  simp only [TxnFifo.Queue.step, wNext, h]
  cases hr : (ren && !q.C.isEmpty) <;> cases wdis <;> cases wc <;> simp [← List.append_assoc, ht]

theorem transfer_now {c : Config} {s : State} {q : TxnFifo.Queue Nat} (i : In) (hrel : TxnFifo.Rel c.depth s.fifo q) :
    transfers [i] [(step c s i).2] = (if i.ready && !q.C.isEmpty then q.C.take 1 else []).map dec := by
  have he := TxnFifo.rel_empty hrel
  have hrd := hrel.hrd
  simp only [transfers, step, outOf, he]
  cases hC : q.C with
  | nil => simp
  | cons x xs =>
    have := hrd (by simp [hC])
    simp only [hC, List.head?_cons, Option.some.injEq] at this
    subst this
    cases hr : i.ready <;> simp [dec, hr]

/-- the concrete endpoint against the write-side machine: detector by `DetRel`, registers equal, the FIFO
represents (C18's `Rel`) a queue whose uncommitted part is `W` and whose committed unread part, after the
transfers already handed to the consumer, is everything committed so far -/
structure Sim (c : Config) (p : Phase) (s : State) (w : WState) (del : List Entry) : Prop where
  det  : DetRel p s.det
  regs : s.regs = w.r
  fifo : ∃ q, TxnFifo.Rel c.depth s.fifo q ∧ q.W = w.W ∧ del ++ q.C.map dec = w.com.map dec
  inv  : w.Inv c p

theorem sim_step {c : Config} {p p' : Phase} {s : State} {w : WState} {del : List Entry} {i : In}
    (hmps : 1 ≤ c.mps) (h : Sim c p s w del) (hs : p.step c i = some p') :
    Sim c p' (step c s i).1
      (w.next c p s.det.out (TxnFifo.full c.depth s.fifo) (TxnFifo.space c.depth s.fifo) i)
      (del ++ transfers [i] [(step c s i).2]) := by
  obtain ⟨hdet, hregs, ⟨q, hrel, hW, hdel⟩, hinv⟩ := h
  have hview := hdet.view
  refine ⟨detRel_step hdet hs, ?_, ?_, winv_step hmps hinv hview hs⟩
  · rw [step_regs, hregs]; rfl
  · have hlegal := fifo_inputs_legal c s i (view_not_both hview)
    have hfull := TxnFifo.rel_full hrel
    have hwen : ((wctl c s.det.out (TxnFifo.full c.depth s.fifo) (TxnFifo.space c.depth s.fifo) w.r i).2.1
        && !(q.held == c.depth)) = (wctl c s.det.out (TxnFifo.full c.depth s.fifo) (TxnFifo.space c.depth s.fifo) w.r i).2.1 := by
      simp only [wctl, combG, hfull]
      cases (q.held == c.depth) <;> simp
    obtain ⟨h1, Cadd, h2, h3⟩ := qstep_eq q c.depth _ i.ready w.com hwen
    refine ⟨q.step c.depth (fifoIn c s i), TxnFifo.rel_step hrel hlegal, ?_⟩
    rw [fifoIn_eq, hregs]
    refine ⟨by rw [h1, hW]; rfl, ?_⟩
    rw [transfer_now i hrel]
    simp only [WState.next]
    rw [← hW, h3, List.map_append, ← hdel, List.append_assoc, List.append_assoc, ← List.map_append, ← List.map_append, h2]

theorem sim_init (c : Config) : Sim c .idle init ⟨⟨false, false⟩, Regs.init, [], [], []⟩ [] :=
  ⟨detRel_init, rfl, ⟨TxnFifo.Queue.nil, TxnFifo.rel_init c.depth 0, rfl, rfl⟩, winv_init c⟩

theorem transfers_nil : transfers [] [] = [] := rfl

/-- the observer's bookkeeping after a history -/
def acctRun (c : Config) : Acct → Phase → List In → List Out → Acct
  | a, p, i :: is, o :: os =>
    match p.step c i with
    | some p' => acctRun c (a.step c p i o.ack).1 p' is os
    | none => a
  | a, _, _, _ => a

theorem sim_run {c : Config} (hmps : 1 ≤ c.mps) (ins : List In) :
    ∀ {p : Phase} {s : State} {w : WState} {del : List Entry} {pf : Phase}, Sim c p s w del →
      Phase.run c p ins = some pf →
      ∃ w', Sim c pf (runState c s ins) w' (del ++ transfers ins (runOuts c s ins)) ∧
        w'.acc = w.acc ++ expected c w.a p ins (runOuts c s ins) ∧
        w'.a = acctRun c w.a p ins (runOuts c s ins) := by
  induction ins with
  | nil =>
    intro p s w del pf h hr
    simp only [Phase.run, Option.some.injEq] at hr
    subst hr
    exact ⟨w, by simpa [runState, runOuts, transfers_nil] using h, by simp [expected], by simp [acctRun]⟩
  | cons i is ih =>
    intro p s w del pf h hr
    simp only [Phase.run] at hr
    cases hs : p.step c i with
    | none => simp [hs] at hr
    | some p' =>
      simp only [hs] at hr
      have h1 := sim_step hmps h hs
      obtain ⟨w', hsim, hacc, hacct⟩ := ih h1 hr
      have hack : (hsG c s.det.out (TxnFifo.full c.depth s.fifo) (TxnFifo.space c.depth s.fifo) w.r i).1
          = (step c s i).2.ack := by
        rw [← h.regs, ← hs_eq]; rfl
      refine ⟨w', ?_, ?_, ?_⟩
      · have : transfers (i :: is) (runOuts c s (i :: is))
            = transfers [i] [(step c s i).2] ++ transfers is (runOuts c (step c s i).1 is) := by
          simp only [runOuts, transfers_cons, transfers_nil, List.append_nil]
        rw [this, ← List.append_assoc]
        exact hsim
      · rw [hacc]
        simp only [WState.next, runOuts, expected, hs, hack, List.append_assoc]
      · rw [hacct]
        simp only [WState.next, runOuts, acctRun, hs, hack]

/-! ## The theorems -/

/-- the observer starts with DATA0 expected and no transfer open -/
def Acct.init : Acct := ⟨false, false⟩

/-- **out_stream_exact**.  For every endpoint number, `max_packet_size ≥ 1`, buffer size, and every
`LegalHost` history (OUT / PING / foreign transactions, CRC-corrupted packets, repeated or wrong data
toggles, any response delay ≥ 1, any consumer `ready` pattern): the transfers handed to the consumer,
followed by the committed entries still waiting in the FIFO (the `C` part of the commit/rollback queue the
FIFO state represents, C18), are exactly the payloads — with their `first`/`last` marks — of the packets
that were ACKed with the expected data toggle, in order, each once.  Corrupted, NAKed, overflowed,
wrong-toggle and foreign packets contribute nothing. -/
theorem out_stream_exact (c : Config) (hmps : 1 ≤ c.mps) (ins : List In) (hl : LegalHost c ins = true) :
    ∃ q : TxnFifo.Queue Nat, TxnFifo.Rel c.depth (runState c init ins).fifo q ∧
      transfers ins (runOuts c init ins) ++ q.C.map dec
        = expected c Acct.init .idle ins (runOuts c init ins) := by
  simp only [LegalHost] at hl
  cases hr : Phase.run c .idle ins with
  | none => simp [hr] at hl
  | some pf =>
    simp only [hr] at hl
    obtain ⟨w', ⟨_, _, ⟨q, hrel, _, hdel⟩, hinv⟩, hacc, _⟩ := sim_run hmps ins (sim_init c) hr
    refine ⟨q, hrel, ?_⟩
    simp only [List.nil_append] at hdel hacc
    have hcom : w'.com.map dec = w'.acc := by
      cases pf <;> simp only [Phase.quiet] at hl <;> try (exact absurd hl (by decide))
      · exact hinv.2.2.2.2
      · exact hinv.2.2.2.2.1
    rw [hdel, hcom, hacc]
    rfl

/-- The consumer never sees anything but a prefix of the accepted payloads (safety, at the end of every
complete transaction). -/
theorem out_stream_prefix (c : Config) (hmps : 1 ≤ c.mps) (ins : List In) (hl : LegalHost c ins = true) :
    transfers ins (runOuts c init ins) <+: expected c Acct.init .idle ins (runOuts c init ins) := by
  obtain ⟨q, _, h⟩ := out_stream_exact c hmps ins hl
  exact ⟨_, h⟩

/-- Once the consumer has drained the FIFO (`stream.valid` low after the history) it has received exactly
the accepted payloads. -/
theorem out_stream_complete_when_drained (c : Config) (hmps : 1 ≤ c.mps) (ins : List In)
    (hl : LegalHost c ins = true) (hd : TxnFifo.empty (runState c init ins).fifo = true) :
    transfers ins (runOuts c init ins) = expected c Acct.init .idle ins (runOuts c init ins) := by
  obtain ⟨q, hrel, h⟩ := out_stream_exact c hmps ins hl
  rw [TxnFifo.rel_empty hrel] at hd
  have : q.C = [] := by simpa using hd
  simpa [this] using h

/-! ### The marks of an accepted packet -/

theorem marks_length (f short : Bool) (bytes : List Nat) : (marks f short bytes).length = bytes.length := by
  induction bytes generalizing f with
  | nil => rfl
  | cons b bs ih => cases bs <;> simp_all [marks]

/-- the payloads of the entries are the packet's bytes (8 bits each), in order -/
theorem marks_payloads (f short : Bool) (bytes : List Nat) :
    (marks f short bytes).map (·.1) = bytes.map (· % 256) := by
  induction bytes generalizing f with
  | nil => rfl
  | cons b bs ih => cases bs <;> simp_all [marks]

theorem marks_get (f short : Bool) (bytes : List Nat) (j : Nat) (h : j < (marks f short bytes).length) :
    (marks f short bytes)[j].2 = (f && j == 0, short && j + 1 == bytes.length) := by
  induction bytes generalizing f j with
  | nil => simp [marks] at h
  | cons b bs ih =>
    cases bs with
    | nil =>
      simp only [marks, List.length_singleton] at h
      have : j = 0 := by omega
      subst this; simp [marks]
    | cons b' bs =>
      cases j with
      | zero => simp [marks]
      | succ j =>
        have := ih false j (by simpa [marks] using h)
        simp only [marks, List.getElem_cons_succ] at this ⊢
        rw [this]; simp

/-- **last_iff_short_packet_end**: in the expected stream an entry is marked `last` iff it is the final
byte of its packet and the packet is shorter than `max_packet_size`. -/
theorem last_iff_short_packet_end (c : Config) (open_ : Bool) (bytes : List Nat) (j : Nat)
    (h : j < (pktEntries c open_ bytes).length) :
    (pktEntries c open_ bytes)[j].2.2 = true ↔ (j + 1 = bytes.length ∧ bytes.length < c.mps) := by
  simp only [pktEntries] at h ⊢
  rw [marks_get]
  simp [and_comm]

/-- **first_iff_transfer_start**: in the expected stream an entry is marked `first` iff it is byte 0 of its
packet and no transfer is open, i.e. the previously accepted packet (if any) was not a max-size one
(`Acct.step` sets `open_ := bytes.length == max_packet_size` on every newly accepted packet). -/
theorem first_iff_transfer_start (c : Config) (open_ : Bool) (bytes : List Nat) (j : Nat)
    (h : j < (pktEntries c open_ bytes).length) :
    (pktEntries c open_ bytes)[j].2.1 = true ↔ (j = 0 ∧ open_ = false) := by
  simp only [pktEntries] at h ⊢
  rw [marks_get]
  simp [and_comm]

/-! ### Non-vacuity -/

/-- The three regression histories of `Props/C13.lean` are `LegalHost` histories (max-size packet + ZLP +
short packet; a corrupted packet between two transfers; an overflowed packet NAKed after a 10-cycle
response delay and retried), and the observer's expectation for them is what the consumer got. -/
example :
    let ins := outPacket 2 0 true [11, 12, 13, 14] 2 ++ outPacket 2 1 true [] 2 ++ outPacket 2 0 true [21, 22] 2
                 ++ List.replicate 6 (idleIn 2 1 true)
    LegalHost ⟨2, 4, 7⟩ ins = true ∧
    expected ⟨2, 4, 7⟩ Acct.init .idle ins (runOuts ⟨2, 4, 7⟩ init ins)
      = [(11, true, false), (12, false, false), (13, false, false), (14, false, false),
         (21, true, false), (22, false, true)] := by decide +kernel

example :
    let ins := outPacket 2 0 true [11] 2 ++ badPacket 2 1 true [66, 79] ++ outPacket 2 1 true [21] 2
                 ++ List.replicate 6 (idleIn 2 0 true)
    LegalHost ⟨2, 2, 3⟩ ins = true ∧
    expected ⟨2, 2, 3⟩ Acct.init .idle ins (runOuts ⟨2, 2, 3⟩ init ins) = [(11, true, true), (21, true, true)] := by
  decide +kernel

example :
    let ins := outPacket 2 0 false [11, 12, 13, 14] 10 ++ outPacket 2 1 false [21, 22, 23, 24] 10
                 ++ List.replicate 8 (idleIn 2 1 true) ++ outPacket 2 1 true [21, 22, 23, 24] 10
                 ++ List.replicate 8 (idleIn 2 0 true)
    LegalHost ⟨2, 4, 7⟩ ins = true ∧
    (expected ⟨2, 4, 7⟩ Acct.init .idle ins (runOuts ⟨2, 4, 7⟩ init ins)).map (·.1)
      = [11, 12, 13, 14, 21, 22, 23, 24] ∧
    TxnFifo.empty (runState ⟨2, 4, 7⟩ init ins).fifo = true := by decide +kernel

end LunaVerif.StreamOutEndpoint
