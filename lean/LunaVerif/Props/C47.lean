import LunaVerif.Model.Usb3.TimestampReceiver
/-!
# C47 — Isochronous timestamp packets are decoded in full

"On each isochronous timestamp packet, the reported bus-interval counter and delta equal the
packet's full 14-bit counter and 13-bit delta fields, and an update strobe is raised."
Quantifier: all timestamp packet contents.

USB 3.2 §8.7 (ITP, DWORD 0): bits 4:0 type = 01100b, bits 18:5 bus interval counter (14 bits),
bits 31:19 delta (13 bits).  `itpWord counter delta` is that word; every 32-bit word whose type
field is ITP is of this form (`itp_word_surjective`).

The model is the *repaired* gateware (widths 14/13, defect F21); `unrepaired_truncates` keeps the
failure of the original declaration (`Signal()` = 1 bit) visible.
-/
namespace LunaVerif.TimestampReceiver

/-- DWORD 0 of an isochronous timestamp packet. -/
def itpWord (counter delta : Nat) : Nat := ITP_TYPE + 2 ^ 5 * counter + 2 ^ 19 * delta

theorem isForUs_itpWord (counter delta : Nat) :
    isForUs (itpWord counter delta) = true := by
  simp only [isForUs, itpWord, ITP_TYPE, beq_iff_eq]
  omega

/-- **C47.**  For every previous state, every 14-bit counter and every 13-bit delta: a valid ITP is
accepted (`ready`), and after the clock edge the update strobe is set and both fields are reported
in full. -/
theorem itp_fields_full_width (s : State) (counter delta : Nat)
    (hc : counter < 2 ^ 14) (hd : delta < 2 ^ 13) :
    step repaired s ⟨true, itpWord counter delta⟩
      = (⟨true, counter, delta⟩, ⟨true, s.updateReceived, s.counter, s.delta⟩) := by
  have h32 : itpWord counter delta % 2 ^ 32 = itpWord counter delta := by
    simp only [itpWord, ITP_TYPE]; omega
  simp only [step, h32, isForUs_itpWord counter delta, Bool.and_self, if_true, repaired, slice]
  have h1 : itpWord counter delta / 2 ^ 5 % 2 ^ (19 - 5) % 2 ^ 14 = counter := by
    simp only [itpWord, ITP_TYPE]; omega
  have h2 : itpWord counter delta / 2 ^ 19 % 2 ^ (32 - 19) % 2 ^ 13 = delta := by
    simp only [itpWord, ITP_TYPE]; omega
  rw [h1, h2]

/-- Every 32-bit word with the ITP type is `itpWord` of its own fields: the theorem above covers
all timestamp packet contents. -/
theorem itp_word_surjective (dw0 : Nat) (h32 : dw0 < 2 ^ 32) (ht : isForUs dw0 = true) :
    dw0 = itpWord (slice dw0 5 19) (slice dw0 19 32) ∧ slice dw0 5 19 < 2 ^ 14 ∧ slice dw0 19 32 < 2 ^ 13 := by
  simp only [isForUs, ITP_TYPE, beq_iff_eq] at ht
  simp only [itpWord, slice, ITP_TYPE]
  omega

/-- A cycle without a valid ITP (no header, or a header of another type) leaves the reported
fields untouched, clears the strobe and does not accept the header. -/
theorem non_itp_holds (c : Config) (s : State) (i : In)
    (h : (i.valid && isForUs (i.dw0 % 2 ^ 32)) = false) :
    step c s i = ({ s with updateReceived := false }, ⟨false, s.updateReceived, s.counter, s.delta⟩) := by
  simp [step, h]

theorem runState_append (c : Config) (s : State) (h₁ h₂ : List In) :
    runState c s (h₁ ++ h₂) = runState c (runState c s h₁) h₂ := by
  induction h₁ generalizing s with
  | nil => rfl
  | cons i is ih => simp only [List.cons_append, runState]; exact ih _

/-- History form: whatever happened before (any state, any history), immediately after a valid
ITP the registers hold exactly its fields with the strobe set … -/
theorem itp_after_any_history (s : State) (h : List In) (counter delta : Nat)
    (hc : counter < 2 ^ 14) (hd : delta < 2 ^ 13) :
    runState repaired s (h ++ [⟨true, itpWord counter delta⟩]) = ⟨true, counter, delta⟩ := by
  rw [runState_append]
  simp only [runState, itp_fields_full_width _ counter delta hc hd]

/-- … and they keep them (strobe low) for as long as no further ITP arrives. -/
theorem fields_held_until_next_itp (s : State) (gap : List In) (hne : gap ≠ [])
    (hgap : ∀ i ∈ gap, (i.valid && isForUs (i.dw0 % 2 ^ 32)) = false) :
    runState repaired s gap = ⟨false, s.counter, s.delta⟩ := by
  induction gap generalizing s with
  | nil => exact absurd rfl hne
  | cons i is ih =>
    have hi := hgap i (List.mem_cons_self)
    simp only [runState, non_itp_holds repaired s i hi]
    cases is with
    | nil => rfl
    | cons j js =>
      have := ih { s with updateReceived := false } (by simp)
        (fun k hk => hgap k (List.mem_cons_of_mem _ hk))
      simpa using this

/-- F21 witness: with the original 1-bit declarations the all-ones ITP is reported as counter 1,
delta 1 instead of 0x3FFF / 0x1FFF. -/
theorem unrepaired_truncates :
    (step unrepaired init ⟨true, itpWord 0x3FFF 0x1FFF⟩).1 ≠ ⟨true, 0x3FFF, 0x1FFF⟩ := by
  decide

/-- Non-vacuity: a concrete timestamp (counter 0x2ABC, delta 0x1234) after an unrelated header. -/
example : runState repaired init [⟨true, 0x00000004⟩, ⟨false, 0⟩, ⟨true, itpWord 0x2ABC 0x1234⟩]
    = ⟨true, 0x2ABC, 0x1234⟩ := by decide

end LunaVerif.TimestampReceiver
