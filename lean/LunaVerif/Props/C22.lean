import LunaVerif.Model.Ulpi.Spec
/-!
# C22 — ULPI receive translation yields exactly the PHY's packet bytes

"For any behaviour of a ULPI PHY, the UTMI-side receive stream reports exactly the data bytes the
PHY presented with NXT while DIR was high after a receive start, in order and each once; RxCmd bytes
and register-read responses never appear as data, RxActive follows the PHY's RxCmd and DIR, and
line state/VBUS flags equal the most recent RxCmd."

The PHY's own account of a DIR/NXT/DATA history is `RxSpec` (`Model/Ulpi/Spec.lean`, core Lean so
that the driver can evaluate it on every stimulus): which cycles carry packet data, what RxActive
is, which RxCmd was the last.  **`LegalUlpiPhy h`** (ULPI 1.1 §3.8.2.4) demands of a history:

1. a data byte (NXT high, DIR high for more than one cycle) only while the PHY's RxActive is high;
2. not in the cycle directly after the RxCmd that raised RxActive (≥ 1 non-NXT cycle after a start
   by RxCmd; a start by DIR∧NXT needs no gap);
3. an RxCmd raises RxActive only if the previous RxCmd had RxActive low (after a packet ended by DIR
   falling the next one starts with DIR∧NXT, or an RxCmd with RxActive low precedes it);
4. an RxCmd lowers RxActive only if the previous RxCmd had RxActive high (a start by DIR∧NXT is
   followed by the RxCmd announcing RxActive before the one that ends the packet);
5. NXT is low in the cycle in which DIR falls.

Clauses 2–5 are exactly what the gateware's one-cycle strobe latency and its `rx_active`-bit edge
detector need; each has a two-line counterexample without it (see `example`s at the end).
A history element is `(dir, nxt, data)` plus `regop`, true when the data lines carry register-read
data (`UTMITranslator` never reads: `utmi_never_reads`).
-/
namespace LunaVerif.Ulpi

/-- Run the receive registers over a history; a byte is *reported* after a cycle iff `rx_valid` is
set by that cycle's clock edge (it is visible to the UTMI side in the following cycle). -/
def Rx.run : Rx → List (PhyIn × Bool) → Rx × List Nat
  | r, [] => (r, [])
  | r, (p, ro) :: h =>
    let r1 := r.step p ro
    let (r2, bs) := Rx.run r1 h
    (r2, if r1.rxValid then r1.rxData :: bs else bs)

/-- The value `rx_active` takes at the next clock edge if DIR stays high: pending strobes applied. -/
def Rx.eff (r : Rx) : Bool := if r.rxStop then false else if r.rxStart then true else r.rxActive

/-- The invariant tying the gateware registers to the PHY's account (meaningful while legal). -/
def RxInv (r : Rx) (s : RxSpec) : Prop :=
  r.pastDir = s.prevDir ∧ r.last = s.last ∧ r.eff = s.act ∧
  (s.prevDir = false → r.rxStart = false ∧ r.rxStop = false ∧ r.rxActive = false ∧ s.just = false) ∧
  (s.act = true → s.just = false → r.rxActive = true) ∧
  (s.just = true → s.act = true)

theorem rxInv_init : RxInv {} {} := by simp [RxInv, Rx.eff]

theorem legal_mono (s : RxSpec) (p : PhyIn) (ro : Bool) (h : (s.step p ro).1.legal = true) :
    s.legal = true := by
  unfold RxSpec.step at h
  cases h1 : rxActiveBit p.data <;> cases h2 : s.act <;> cases h3 : p.dir <;> cases h4 : s.prevDir <;>
    cases h5 : p.nxt <;> cases h6 : ro <;> cases h7 : s.just <;> simp_all

theorem legal_mono_run (s : RxSpec) (h : List (PhyIn × Bool)) (hl : (RxSpec.run s h).1.legal = true) :
    s.legal = true := by
  induction h generalizing s with
  | nil => simpa [RxSpec.run] using hl
  | cons x xs ih =>
    obtain ⟨p, ro⟩ := x
    simp only [RxSpec.run] at hl
    exact legal_mono s p ro (ih _ hl)

/-- One clock cycle: the invariant is kept and the gateware reports a byte exactly when the PHY
presented one, with its value. -/
theorem rx_step (r : Rx) (s : RxSpec) (p : PhyIn) (ro : Bool) (hi : RxInv r s)
    (hl : (s.step p ro).1.legal = true) :
    RxInv (r.step p ro) (s.step p ro).1 ∧
    (if (r.step p ro).rxValid then some (r.step p ro).rxData else none) = (s.step p ro).2 := by
  have hl0 := legal_mono s p ro hl
  obtain ⟨pd, last, rstart, rstop, ract, rdata, rvalid⟩ := r
  obtain ⟨sd, act, slast, just, legal⟩ := s
  obtain ⟨dir, nxt, data⟩ := p
  simp only [RxInv, Rx.eff] at hi
  obtain ⟨h1, h2, h3, h4, h5, h6⟩ := hi
  simp only at h1 h2 hl0
  subst h1 h2 hl0
  generalize hb : rxActiveBit last = lb at *
  generalize hn : rxActiveBit data = nb at *
  cases rstart <;> cases rstop <;> cases ract <;> (try simp at h3) <;> (try subst h3)
  all_goals (cases pd <;> cases just <;> (try simp at h4 h5 h6))
  all_goals (cases dir <;> cases nxt <;> cases ro <;> cases lb <;> cases nb)
  all_goals (simp [RxSpec.step, Rx.step, RxInv, Rx.eff, hb, hn] at hl ⊢)

/-- **ulpi_rx_bytes_exact** (generalised over the starting state for the induction). -/
theorem rx_run_eq (r : Rx) (s : RxSpec) (h : List (PhyIn × Bool)) (hi : RxInv r s)
    (hl : (RxSpec.run s h).1.legal = true) :
    (Rx.run r h).2 = (RxSpec.run s h).2 ∧ RxInv (Rx.run r h).1 (RxSpec.run s h).1 := by
  induction h generalizing r s with
  | nil => simpa [Rx.run, RxSpec.run] using hi
  | cons x xs ih =>
    obtain ⟨p, ro⟩ := x
    simp only [RxSpec.run] at hl
    have hl1 : (s.step p ro).1.legal = true := legal_mono_run _ xs hl
    obtain ⟨hi', he⟩ := rx_step r s p ro hi hl1
    obtain ⟨ih1, ih2⟩ := ih (r.step p ro) (s.step p ro).1 hi' hl
    simp only [Rx.run, RxSpec.run]
    refine ⟨?_, ih2⟩
    rw [← he, ih1]
    split <;> rfl

/-- **ulpi_rx_bytes_exact.**  For every history of a legal ULPI PHY the bytes the gateware reports
with `rx_valid` are exactly the data bytes the PHY presented, in order, each once; RxCmds and
register-read data never appear (they are not data bytes of the PHY's account). -/
theorem ulpi_rx_bytes_exact (h : List (PhyIn × Bool)) (hl : LegalUlpiPhy h = true) :
    (Rx.run {} h).2 = (RxSpec.run {} h).2 :=
  (rx_run_eq {} {} h rxInv_init hl).1

/-- **rx_active_follows.**  After every legal history `rx_active`, with the pending one-cycle
start/stop strobe applied, equals the PHY's RxActive (set by DIR∧NXT or an RxCmd with bit 4,
cleared by an RxCmd without bit 4 or by DIR low); it is low whenever DIR was low in the last cycle;
and it is high whenever the PHY may present data. -/
theorem rx_active_follows (h : List (PhyIn × Bool)) (hl : LegalUlpiPhy h = true) :
    (Rx.run {} h).1.eff = (RxSpec.run {} h).1.act ∧
    ((RxSpec.run {} h).1.prevDir = false → (Rx.run {} h).1.rxActive = false) ∧
    ((RxSpec.run {} h).1.act = true → (RxSpec.run {} h).1.just = false → (Rx.run {} h).1.rxActive = true) := by
  obtain ⟨_, _, h3, h4, h5, _⟩ := (rx_run_eq {} {} h rxInv_init hl).2
  exact ⟨h3, fun hd => (h4 hd).2.2.1, h5⟩

/-- With no strobe pending (the last cycle carried no RxCmd edge) `rx_active` *is* RxActive. -/
theorem rx_active_settled (h : List (PhyIn × Bool)) (hl : LegalUlpiPhy h = true)
    (h1 : (Rx.run {} h).1.rxStart = false) (h2 : (Rx.run {} h).1.rxStop = false) :
    (Rx.run {} h).1.rxActive = (RxSpec.run {} h).1.act := by
  have := (rx_active_follows h hl).1
  simpa [Rx.eff, h1, h2] using this

/-- **status_equals_last_rxcmd.**  For *every* history (legal or not): `last_rx_command` — of which
line_state, vbus_valid, session_valid, session_end, rx_error, host_disconnect and id_digital are
bit fields — is the most recent RxCmd of the PHY's account: the data of the last cycle with DIR
high for more than one cycle, NXT low, and no register-read data on the lines. -/
theorem status_step (r : Rx) (s : RxSpec) (p : PhyIn) (ro : Bool)
    (h1 : r.pastDir = s.prevDir) (h2 : r.last = s.last) :
    (r.step p ro).pastDir = (s.step p ro).1.prevDir ∧ (r.step p ro).last = (s.step p ro).1.last := by
  obtain ⟨pd, last, rstart, rstop, ract, rdata, rvalid⟩ := r
  obtain ⟨sd, act, slast, just, legal⟩ := s
  obtain ⟨dir, nxt, data⟩ := p
  simp only at h1 h2
  subst h1 h2
  simp only [RxSpec.step, Rx.step]
  cases dir <;> cases pd <;> cases nxt <;> cases ro <;> simp <;> (repeat' split) <;> simp_all

theorem status_run (r : Rx) (s : RxSpec) (h : List (PhyIn × Bool))
    (h1 : r.pastDir = s.prevDir) (h2 : r.last = s.last) :
    (Rx.run r h).1.pastDir = (RxSpec.run s h).1.prevDir ∧ (Rx.run r h).1.last = (RxSpec.run s h).1.last := by
  induction h generalizing r s with
  | nil => exact ⟨h1, h2⟩
  | cons x xs ih =>
    obtain ⟨p, ro⟩ := x
    obtain ⟨a, b⟩ := status_step r s p ro h1 h2
    simpa [Rx.run, RxSpec.run] using ih _ _ a b

theorem status_equals_last_rxcmd (h : List (PhyIn × Bool)) :
    (Rx.run {} h).1.last = (RxSpec.run {} h).1.last :=
  (status_run {} {} h rfl rfl).2

/-! ### The composite never reads registers, so nothing is ever masked there -/

def WState.isRead : WState → Bool
  | .startRead | .sendReadAddress | .readTurnaround | .readComplete => true
  | _ => false

theorem window_no_read (w : Window) (i : WindowIn) (hr : i.readReq = false) (hw : w.st.isRead = false) :
    (w.step i).st.isRead = false := by
  obtain ⟨st, a, b, c, d, e, f, g⟩ := w
  cases st <;> simp [WState.isRead] at hw <;> simp [Window.step, hr] <;> (repeat' split) <;> simp [WState.isRead]

/-- One cycle of `UTMITranslator`: if the register window is not in a read state it is not in one
afterwards, and the receive registers advance exactly like the stand-alone `Rx.step` with
`register_operation_in_progress = 0`. -/
theorem utmi_never_reads (cfg : Config) (s : Utmi) (i : UtmiIn) (hw : s.win.st.isRead = false) :
    (s.step cfg i).1.win.st.isRead = false ∧ (s.step cfg i).1.rx = s.rx.step i.phy false := by
  constructor
  · exact window_no_read _ _ rfl hw
  · have : s.win.readDataPhase = false := by
      cases hs : s.win.st <;> simp_all [Window.readDataPhase, WState.isRead]
    simp [Utmi.step, this]

theorem utmi_rx_is_rx (cfg : Config) (s : Utmi) (h : List UtmiIn) (hw : s.win.st.isRead = false) :
    (Utmi.run cfg s h).rx = (Rx.run s.rx (h.map fun i => (i.phy, false))).1 := by
  induction h generalizing s with
  | nil => rfl
  | cons i is ih =>
    obtain ⟨a, b⟩ := utmi_never_reads cfg s i hw
    simp only [Utmi.run, List.map, Rx.run]
    rw [ih _ a, b]

/-- The receive registers of the whole translator, from reset, for every history of PHY, UTMI and
control inputs, are those of `Rx.run` — so the three theorems above speak about `UTMITranslator`. -/
theorem utmi_rx_from_reset (cfg : Config) (h : List UtmiIn) :
    (Utmi.run cfg (Utmi.init cfg) h).rx = (Rx.run {} (h.map fun i => (i.phy, false))).1 :=
  utmi_rx_is_rx cfg _ h rfl

/-! ### Non-vacuity and necessity of the clauses -/

/-- A legal history: DIR∧NXT start, RxCmd(RxActive), two data bytes around a mid-packet RxCmd, end by
RxCmd, a line-state RxCmd, a second packet started by RxCmd (one idle cycle), ended by DIR. -/
def exampleHistory : List (PhyIn × Bool) :=
  [(⟨false, false, 0⟩, false), (⟨true, true, 0x77⟩, false), (⟨true, false, 0x1D⟩, false),
   (⟨true, true, 0xA5⟩, false), (⟨true, false, 0x1E⟩, false), (⟨true, true, 0x5A⟩, false),
   (⟨true, false, 0x0C⟩, false), (⟨true, false, 0x0D⟩, false), (⟨true, false, 0x1D⟩, false),
   (⟨true, false, 0x1D⟩, false), (⟨true, true, 0x42⟩, false), (⟨false, false, 0⟩, false)]

example : LegalUlpiPhy exampleHistory = true := by decide
example : (RxSpec.run {} exampleHistory).2 = [0xA5, 0x5A, 0x42] := by decide
example : (Rx.run {} exampleHistory).2 = [0xA5, 0x5A, 0x42] := by decide

/-- Without clause 2 a byte is lost: data directly after the RxCmd that raised RxActive. -/
example : (Rx.run {} [(⟨true, false, 0⟩, false), (⟨true, false, 0x10⟩, false), (⟨true, true, 0x99⟩, false)]).2 = []
    ∧ LegalUlpiPhy [(⟨true, false, 0⟩, false), (⟨true, false, 0x10⟩, false), (⟨true, true, 0x99⟩, false)] = false := by
  decide

end LunaVerif.Ulpi
