import LunaVerif.Props.C13Foreign
/-!
# C13 — "cannot take a whole packet", the converse arithmetic half

`ack_when_space` (Props/C13Space.lean): if the packet fits into the space available when the token has arrived, it
is ACKed whatever the consumer does.  Here the converse for a consumer that does not read while the packet is
received: if the packet is LONGER than the space available at the token, some byte of it meets a full FIFO, and
— carrying the expected data toggle — the packet is NAKed (`nak_when_no_room`), i.e. a packet for the endpoint
that exceeds the free space takes the overflow path (`overflow` set, the packet discarded by
`overflowed_packet_discarded`, nothing committed, the toggle kept).
-/
namespace LunaVerif.StreamOutEndpoint
open LunaVerif

/-- after a cycle in which the consumer does not read, its last read is finalised
(`committed_read_pointer = current_read_pointer`) -/
theorem rr_eq_cr_step (c : Config) (s : State) (i : In) (h : i.ready = false) :
    (step c s i).1.fifo.rr = (step c s i).1.fifo.cr := by
  simp [step, TxnFifo.step, fifoIn, h]

theorem R_nil {d : Nat} {s : TxnFifo.State Nat} {q : TxnFifo.Queue Nat} (h : TxnFifo.Rel d s q)
    (he : s.rr = s.cr) : q.R = [] := by
  have h1 := h.hrr
  rw [he] at h1
  have h2 : TxnFifo.adv d s.cr 0 = s.cr := TxnFifo.adv_zero h.hcr
  have hle := h.hlen
  simp only [TxnFifo.Queue.held] at hle
  have : q.R.length = 0 := TxnFifo.adv_inj h.hcr (by omega) (by omega) (h1.symm.trans h2.symm)
  exact List.eq_nil_of_length_eq_zero this

/-- with the consumer's last read finalised, no read, no commit and no discard, the FIFO grows by exactly the
entry written -/
theorem used_step_eq {c : Config} {p : Phase} {s : State} {w : WState} {del : List Entry} (i : In)
    (hsim : Sim c p s w del) (hrc : s.fifo.rr = s.fifo.cr) (hr : i.ready = false)
    (hco : s.det.out.completeOut = false) (hio : s.det.out.invalidOut = false) :
    used c (step c s i).1 = used c s + (if (comb c s i).writeEn = true then 1 else 0) := by
  obtain ⟨q, hrel, _, _⟩ := hsim.fifo
  have hlegal := fifo_inputs_legal c s i (by simp [hco])
  have hrel' := TxnFifo.rel_step hrel hlegal
  have h1 : (step c s i).1.fifo = (TxnFifo.step c.depth s.fifo (fifoIn c s i)).1 := rfl
  rw [used_eq_held hrel, used_eq_held (c := c) (s := (step c s i).1) (by rw [h1]; exact hrel')]
  have hR := R_nil hrel hrc
  have hw : ((fifoIn c s i).wen && !(q.held == c.depth)) = (comb c s i).writeEn := by
    simp only [fifoIn, comb, TxnFifo.rel_full hrel]
    cases (q.held == c.depth) <;> simp
  have hc : (fifoIn c s i).wcommit = false := by simp [fifoIn, comb, hco]
  have hd : (fifoIn c s i).wdiscard = false := by simp [fifoIn, comb, hco, hio]
  have hren : (fifoIn c s i).ren = false := hr
  have hrcm : (fifoIn c s i).rcommit = true := rfl
  have hrd : (fifoIn c s i).rdiscard = false := rfl
  obtain ⟨R, C, W⟩ := q
  simp only at hR; subst hR
  simp only [TxnFifo.Queue.step, hc, hd, hren, hrcm, hrd, hw]
  cases (comb c s i).writeEn <;> simp [TxnFifo.Queue.held]
  omega

theorem used_le_depth (c : Config) (s : State) : used c s ≤ c.depth := by
  simp only [used]; omega

/-- without a response request and without ClearFeature(HALT) the expected data toggle stays -/
theorem toggle_step (c : Config) (s : State) (i : In) (hx : i.rxReady = false) (hc : i.clearHalt = false) :
    (step c s i).1.expectedToggle = s.expectedToggle := by
  simp [step, comb, hx, hc]

theorem toggle_run (c : Config) (ins : List In) (h : ∀ j ∈ ins, j.rxReady = false ∧ j.clearHalt = false) :
    ∀ s : State, (runState c s ins).expectedToggle = s.expectedToggle := by
  induction ins with
  | nil => intro s; rfl
  | cons i is ih =>
    intro s
    obtain ⟨hx, hc⟩ := h i (by simp)
    rw [runState, ih (fun j hj => h j (by simp [hj])), toggle_step c s i hx hc]

/-- Bookkeeping of a packet for the endpoint while the consumer does not read (`H0` = entries held when the token
arrived, `tg` = the expected toggle): as long as no byte has been lost, the FIFO holds `H0` entries plus the
bytes of the packet the glue logic has handled so far, so a packet that has passed completely fits. -/
def RoomInv (c : Config) (H0 : Nat) (tg : Bool) (p : Phase) (s : State) : Prop :=
  s.expectedToggle = tg ∧ s.fifo.rr = s.fifo.cr ∧
  match p with
  | .idle => True
  | .tok _ => used c s = H0
  | .rx _ pid sent _ _ => pid = tn tg → used c s = H0 + sent.length
  | .finByte _ pid sent _ _ => pid = tn tg → used c s = H0 + sent.length
  | .finStrobe _ pid bytes _ _ => pid = tn tg → H0 + bytes.length ≤ c.depth
  | .finWait _ pid bytes => pid = tn tg → H0 + bytes.length ≤ c.depth

/-- the glue logic's view of a byte of a packet for the endpoint with the expected toggle: lost if the FIFO is
full, written otherwise -/
theorem byte_lost_or_written {c : Config} {s : State} {m : In} {t : Tok} {pid : Nat}
    (htok : Tok.of m = t) (hpid : m.pidToggle = pid) (ht : t.targets c = true) (hp : pid = tn s.expectedToggle)
    (hn : s.det.out.next = true) (hv : s.det.out.valid = true) :
    (comb c s m).dataIsLost = TxnFifo.full c.depth s.fifo ∧
    (comb c s m).writeEn = !TxnFifo.full c.depth s.fifo := by
  rw [comb_eq, combG_tok htok hpid]
  simp [okayP, ht, hp, hn, hv, State.regs]

theorem not_full_used {c : Config} {p : Phase} {s : State} {w : WState} {del : List Entry}
    (hsim : Sim c p s w del) (h : TxnFifo.full c.depth s.fifo = false) : used c s + 1 ≤ c.depth := by
  obtain ⟨q, hrel, _, _⟩ := hsim.fifo
  rw [used_eq_held hrel]
  rw [TxnFifo.rel_full hrel] at h
  have := hrel.hlen
  have : q.held ≠ c.depth := by simpa using h
  omega

theorem no_room_step {c : Config} {H0 : Nat} {tg : Bool} {p p1 : Phase} {s : State} {w : WState} {del : List Entry}
    {m : In} {t : Tok} (hsim : Sim c p s w del) (hinv : RoomInv c H0 tg p s) (hs : p.step c m = some p1)
    (htk : p.token = some t) (ht : t.targets c = true) (hn : m.tokNew = false) (hr : m.ready = false)
    (hx : m.rxReady = false) (hc : m.clearHalt = false) :
    (comb c s m).dataIsLost = true ∨ RoomInv c H0 tg p1 (step c s m).1 := by
  obtain ⟨htg, hrc, hu⟩ := hinv
  have htg' : (step c s m).1.expectedToggle = tg := by rw [toggle_step c s m hx hc, htg]
  have hrc' := rr_eq_cr_step c s m hr
  have hview := hsim.det.view
  have hle' := used_le_depth c (step c s m).1
  cases p with
  | idle => simp [Phase.token] at htk
  | tok t' =>
    obtain ⟨hnx, hco, hio⟩ := hview
    have hnw : (comb c s m).writeEn = false := by
      cases hw : (comb c s m).writeEn
      · rfl
      · have := writeEn_imp hw; simp [hnx] at this
    have hue := used_step_eq m hsim hrc hr hco hio
    simp only [hnw, Bool.false_eq_true, if_false, Nat.add_zero] at hue
    simp only at hu
    obtain ⟨_, h3⟩ := step_tok_inv hs
    right
    refine ⟨htg', hrc', ?_⟩
    rcases h3 with ⟨h, _⟩ | ⟨_, _, _, _, _, rfl⟩ | ⟨_, _, _, _, rfl⟩ | ⟨_, _, _, _, rfl⟩
    · simp [hn] at h
    all_goals (simp only [List.length_nil, Nat.add_zero]; first | (intro _; omega) | omega)
  | rx t' pid sent now buf =>
    simp only [Phase.token, Option.some.injEq] at htk; subst htk
    obtain ⟨hco, hio, hvn⟩ := hview
    have hue := used_step_eq m hsim hrc hr hco hio
    simp only at hu
    obtain ⟨hst, _, h3⟩ := step_rx_inv hs
    obtain ⟨htok, hpid, _, _⟩ := stable_inv hst
    by_cases hp : pid = tn tg
    · have hu := hu hp
      cases now with
      | none =>
        simp only at hvn
        have hnw : (comb c s m).writeEn = false := by
          cases hw : (comb c s m).writeEn
          · rfl
          · have := writeEn_imp hw; simp [hvn] at this
        simp only [hnw, Bool.false_eq_true, if_false, Nat.add_zero] at hue
        right
        refine ⟨htg', hrc', ?_⟩
        rcases h3 with ⟨_, _, _, rfl⟩ | ⟨_, _, _, rfl⟩ | ⟨_, _, _, rfl⟩ <;>
          (simp only [Option.toList, List.append_nil]; intro _; omega)
      | some x =>
        obtain ⟨hnx, hvl, _⟩ := hvn
        obtain ⟨hl, hw⟩ := byte_lost_or_written htok hpid ht (by rw [htg]; exact hp) hnx hvl
        cases hf : TxnFifo.full c.depth s.fifo
        · right
          rw [hf] at hw
          simp only [hw, Bool.not_false, if_true] at hue
          refine ⟨htg', hrc', ?_⟩
          rcases h3 with ⟨_, _, _, rfl⟩ | ⟨_, _, _, rfl⟩ | ⟨_, _, _, rfl⟩ <;>
            (simp only [Option.toList, List.length_append, List.length_singleton]; intro _; omega)
        · left; rw [hl, hf]
    · right
      refine ⟨htg', hrc', ?_⟩
      rcases h3 with ⟨_, _, _, rfl⟩ | ⟨_, _, _, rfl⟩ | ⟨_, _, _, rfl⟩ <;> (intro h; exact absurd h hp)
  | finByte t' pid sent now ok =>
    simp only [Phase.token, Option.some.injEq] at htk; subst htk
    obtain ⟨hco, hio, hvn⟩ := hview
    have hue := used_step_eq m hsim hrc hr hco hio
    simp only at hu
    obtain ⟨hst, _, _, rfl⟩ := step_finByte_inv hs
    obtain ⟨htok, hpid, _, _⟩ := stable_inv hst
    by_cases hp : pid = tn tg
    · have hu := hu hp
      cases now with
      | none =>
        simp only at hvn
        have hnw : (comb c s m).writeEn = false := by
          cases hw : (comb c s m).writeEn
          · rfl
          · have := writeEn_imp hw; simp [hvn] at this
        simp only [hnw, Bool.false_eq_true, if_false, Nat.add_zero] at hue
        right
        refine ⟨htg', hrc', ?_⟩
        simp only [Option.toList, List.append_nil]; intro _; omega
      | some x =>
        obtain ⟨hnx, hvl, _⟩ := hvn
        obtain ⟨hl, hw⟩ := byte_lost_or_written htok hpid ht (by rw [htg]; exact hp) hnx hvl
        cases hf : TxnFifo.full c.depth s.fifo
        · right
          rw [hf] at hw
          simp only [hw, Bool.not_false, if_true] at hue
          refine ⟨htg', hrc', ?_⟩
          simp only [Option.toList, List.length_append, List.length_singleton]; intro _; omega
        · left; rw [hl, hf]
    · right
      exact ⟨htg', hrc', fun h => absurd h hp⟩
  | finStrobe t' pid bytes ok responded =>
    simp only at hu
    obtain ⟨_, _, _, h3⟩ := step_finStrobe_inv hs
    right
    refine ⟨htg', hrc', ?_⟩
    rcases h3 with ⟨_, rfl⟩ | ⟨_, _, _, rfl⟩
    · trivial
    · exact hu
  | finWait t' pid bytes =>
    simp only at hu
    obtain ⟨_, _, h3⟩ := step_finWait_inv hs
    right
    refine ⟨htg', hrc', ?_⟩
    rcases h3 with ⟨_, rfl⟩ | ⟨_, rfl⟩
    · trivial
    · exact hu

/-- the cycles of the packet: no token strobe, the consumer does not read, no response request yet, no
ClearFeature(HALT) -/
def stalled (j : In) : Bool := !j.tokNew && !j.ready && !j.rxReady && !j.clearHalt

theorem stalled_inv {j : In} (h : stalled j = true) :
    j.tokNew = false ∧ j.ready = false ∧ j.rxReady = false ∧ j.clearHalt = false := by
  simp only [stalled, Bool.and_eq_true, Bool.not_eq_true'] at h
  exact ⟨h.1.1.1, h.1.1.2, h.1.2, h.2⟩

theorem no_room_run {c : Config} (hmps : 1 ≤ c.mps) {H0 : Nat} {tg : Bool} {t : Tok} (ht : t.targets c = true)
    (mid : List In) : ∀ {p pk : Phase} {s : State} {w : WState} {del : List Entry}, Sim c p s w del →
      RoomInv c H0 tg p s → p.token = some t → Phase.run c p mid = some pk → pk ≠ .idle →
      (∀ j ∈ mid, stalled j = true) →
      anyLost c s mid = true ∨
        ((∃ w' del', Sim c pk (runState c s mid) w' del') ∧ RoomInv c H0 tg pk (runState c s mid) ∧
          pk.token = some t) := by
  induction mid with
  | nil =>
    intro p pk s w del hsim hinv htk hrun _ _
    simp only [Phase.run, Option.some.injEq] at hrun; subst hrun
    exact Or.inr ⟨⟨w, del, hsim⟩, hinv, htk⟩
  | cons m ms ih =>
    intro p pk s w del hsim hinv htk hrun hpk hall
    obtain ⟨hn, hr, hx, hc⟩ := stalled_inv (hall m (by simp))
    have hall' : ∀ j ∈ ms, stalled j = true := fun j hj => hall j (by simp [hj])
    simp only [Phase.run] at hrun
    cases hs : p.step c m with
    | none => simp [hs] at hrun
    | some p1 =>
      simp only [hs] at hrun
      rcases (token_step hs htk hn).2 with rfl | htk1
      · exact absurd (run_idle_stays (fun j hj => (stalled_inv (hall' j hj)).1) hrun) hpk
      · rcases no_room_step hsim hinv hs htk ht hn hr hx hc with hl | hinv1
        · left; simp [anyLost, hl]
        · rcases ih (sim_step hmps hsim hs) hinv1 htk1 hrun hpk hall' with h | h
          · left; simp [anyLost, h]
          · right; simpa only [runState] using h

theorem forUs_of_token {c : Config} {p : Phase} {t : Tok} (h : p.token = some t) : p.forUs c = t.targets c := by
  cases p <;> simp only [Phase.token, Option.some.injEq] at h <;> first | (subst h; rfl) | exact absurd h (by simp)

/-- **nak_when_no_room** (the converse of `ack_when_space` for a consumer that does not read meanwhile).  In the
setting of `nak_iff_cannot_take` — `pre` any accepted history ending with a token, `mid` the cycles of the data packet
up to the response request `i` for a packet addressed to the endpoint — if the consumer's last read is finalised when
the token has arrived, the consumer does not read while the packet is received, the packet carries the expected data
toggle and is LONGER than `space_available` at the token, then some byte of it meets a full FIFO and the response is
NAK, not ACK: a packet that exceeds the free space takes the overflow path. -/
theorem nak_when_no_room (c : Config) (hmps : 1 ≤ c.mps) (pre mid : List In) (i : In) (t : Tok) (pk p' : Phase)
    (pid : Nat) (bytes : List Nat)
    (h1 : Phase.run c .idle pre = some (.tok t)) (h2 : Phase.run c (.tok t) mid = some pk)
    (hq : ∀ j ∈ mid, stalled j = true) (h3 : pk.step c i = some p')
    (h4 : pk.answered c i = some (pid, bytes))
    (hfin : (runState c init pre).fifo.rr = (runState c init pre).fifo.cr)
    (htg : pid = tn (runState c init pre).expectedToggle)
    (hroom : TxnFifo.space c.depth (runState c init pre).fifo < bytes.length) :
    anyLost c (runState c init pre) (mid ++ [i]) = true ∧
    (outOf c (runState c (runState c init pre) mid) i).nak = true ∧
    (outOf c (runState c (runState c init pre) mid) i).ack = false := by
  have hnt : ∀ j ∈ mid, j.tokNew = false := fun j hj => (stalled_inv (hq j hj)).1
  obtain ⟨w0, _, hsim0, _⟩ := sim_after hmps h1
  obtain ⟨hnak, hack⟩ := nak_iff_cannot_take c hmps pre mid i t pk p' pid bytes h1 h2 hnt h3 h4
  generalize runState c init pre = s0 at *
  generalize hsd : runState c s0 mid = s at *
  -- the packet does not fit
  obtain ⟨q0, hrel0, _, _⟩ := hsim0.fifo
  have hbig : c.depth < used c s0 + bytes.length := by
    have h5 := TxnFifo.rel_space hrel0
    have h6 := hrel0.hlen
    have h7 := used_eq_held hrel0
    have : TxnFifo.space c.depth s0.fifo < bytes.length := hroom
    omega
  have hpk : pk ≠ .idle := by
    intro h; rw [h] at h4; simp [Phase.answered] at h4
  have hfu := answered_forUs h4
  obtain ⟨htk, _⟩ := token_run mid h2 rfl hnt hpk
  have ht : t.targets c = true := by rw [← forUs_of_token (c := c) htk]; exact hfu
  have htog : s.expectedToggle = s0.expectedToggle :=
    hsd ▸ toggle_run c mid (fun j hj => ⟨(stalled_inv (hq j hj)).2.2.1, (stalled_inv (hq j hj)).2.2.2⟩) s0
  have hlost : anyLost c s0 (mid ++ [i]) = true := by
    rw [anyLost_append, hsd]
    rcases no_room_run hmps (H0 := used c s0) (tg := s0.expectedToggle) ht mid hsim0 ⟨rfl, hfin, rfl⟩ rfl h2 hpk hq
      with h | ⟨⟨w, del, hsim⟩, ⟨_, _, hu⟩, _⟩
    · simp [h]
    · rw [hsd] at hsim hu
      have hview := hsim.det.view
      cases pk with
      | idle => exact absurd rfl hpk
      | tok t' => simp [Phase.answered] at h4
      | rx t' pid' sent now buf => simp [Phase.answered] at h4
      | finByte t' pid' sent now ok =>
        simp only [Phase.token, Option.some.injEq] at htk; subst htk
        obtain ⟨hst, _⟩ := step_finByte_inv h3
        obtain ⟨htok, hpid, _, _⟩ := stable_inv hst
        simp only [Phase.answered] at h4
        split at h4
        · simp only [Option.some.injEq, Prod.mk.injEq] at h4
          obtain ⟨rfl, rfl⟩ := h4
          have hu := hu htg
          obtain ⟨_, _, hvn⟩ := hview
          cases now with
          | none =>
            have := used_le_depth c s
            simp only [Option.toList, List.append_nil] at hbig
            omega
          | some x =>
            obtain ⟨hnx, hvl, _⟩ := hvn
            obtain ⟨hl, _⟩ := byte_lost_or_written htok hpid ht (by rw [htog]; exact htg) hnx hvl
            cases hf : TxnFifo.full c.depth s.fifo
            · have := not_full_used hsim hf
              simp only [Option.toList, List.length_append, List.length_singleton] at hbig
              omega
            · simp [anyLost, hl, hf]
        · exact absurd h4 (by simp)
      | finStrobe t' pid' bytes' ok responded =>
        simp only [Phase.answered] at h4
        split at h4
        · simp only [Option.some.injEq, Prod.mk.injEq] at h4
          obtain ⟨rfl, rfl⟩ := h4
          have := hu htg
          omega
        · exact absurd h4 (by simp)
      | finWait t' pid' bytes' =>
        simp only [Phase.answered] at h4
        split at h4
        · simp only [Option.some.injEq, Prod.mk.injEq] at h4
          obtain ⟨rfl, rfl⟩ := h4
          have := hu htg
          omega
        · exact absurd h4 (by simp)
  have hboth : pid = tn s.expectedToggle ∧ anyLost c s0 (mid ++ [i]) = true := ⟨by rw [htog]; exact htg, hlost⟩
  refine ⟨hlost, hnak.mpr hboth, ?_⟩
  cases hk : (outOf c s i).ack
  · rfl
  · exact absurd hboth (hack.mp hk)

/-! ### Non-vacuity: mps 4, buffer 7, a stalled consumer; after one accepted 4-byte packet 3 entries are free, the
next 4-byte packet does not fit -/
example :
    let c : Config := ⟨2, 4, 7⟩
    let idl := idleIn 2 1 false
    let pre := outPacket 2 0 false [11, 12, 13, 14] 10 ++ [{ idl with tokNew := true }]
    let mid := [idl] ++ [21, 22, 23, 24].map (fun b => { idl with rx := ⟨true, true, b, false, false⟩ }) ++
      [{ idl with rx := ⟨true, false, 0, false, false⟩ }, { idl with rx := ⟨false, false, 0, true, false⟩ }] ++
      List.replicate 9 idl
    let i := { idl with rxReady := true }
    Phase.run c .idle pre = some (.tok ⟨2, true, false⟩) ∧
    Phase.run c (.tok ⟨2, true, false⟩) mid = some (.finWait ⟨2, true, false⟩ 1 [21, 22, 23, 24]) ∧
    mid.all stalled = true ∧
    (Phase.finWait ⟨2, true, false⟩ 1 [21, 22, 23, 24]).step c i = some .idle ∧
    (Phase.finWait ⟨2, true, false⟩ 1 [21, 22, 23, 24]).answered c i = some (1, [21, 22, 23, 24]) ∧
    (runState c init pre).fifo.rr = (runState c init pre).fifo.cr ∧
    1 = tn (runState c init pre).expectedToggle ∧
    TxnFifo.space c.depth (runState c init pre).fifo = 3 := by decide +kernel

end LunaVerif.StreamOutEndpoint
