import LunaVerif.Model.Usb3.LinkCommand
/-!
# C35 — Link commands round-trip and corrupted commands are rejected

"A generated link command appears on the wire as the SLC-SLC-SLC-EPF start word followed by two
identical 16-bit command words with a valid CRC5; the detector reports exactly the command class,
type and subtype of such a word and reports nothing when the two copies differ, the CRC5 is wrong
or control symbols are present."
Quantifier: all 4-bit commands and subtypes, all corruptions of the command word, all ready/valid
stalls.

Spec (USB 3.2 §7.2.2.1): link command word = bits 3:0 subtype, 6:4 reserved (0), 10:7 class+type,
15:11 CRC-5 of bits 10:0; link command information = the word twice.
-/
namespace LunaVerif.LinkCommand

/-- The 16-bit link command word of the specification. -/
def specWord16 (cmd sub : Nat) : Nat :=
  let low11 := sub % 16 + 128 * (cmd % 16)
  low11 + 2048 * crc5 low11

/-- The 32-bit link command information: the word and its replica. -/
def specWord32 (cmd sub : Nat) : Nat := specWord16 cmd sub + 65536 * specWord16 cmd sub

/-- Acceptance condition of the specification for a received (data, ctrl) word. -/
def specAccepts (data ctrl : Nat) : Bool :=
  ctrl == 0 && data % 65536 == data / 65536 && (data % 65536) / 2048 == crc5 (data % 2048)

/-- A framed link command: start word then information word, as (data, ctrl) pairs. -/
def frame (cmd sub : Nat) : List (Nat × Nat) := [(LCSTART_DATA, LCSTART_CTRL), (specWord32 cmd sub, 0)]

/-! ## Word format -/

/-- All 256 (command, subtype): the information word is two identical 16-bit copies `w`, with
`w[3:0] = subtype`, `w[6:4] = 0`, `w[10:7] = command`, `w[15:11] = crc5 (w[10:0])`; it fits in 32
bits; the specification's acceptance test passes on it and decodes the same command/subtype. -/
theorem word_format : ∀ cmd < 16, ∀ sub < 16,
    let d := specWord32 cmd sub
    let w := d % 65536
    d < 2 ^ 32 ∧ d / 65536 = w ∧ w % 16 = sub ∧ (w / 16) % 8 = 0 ∧ (w / 128) % 16 = cmd ∧
      w / 2048 = crc5 (w % 2048) ∧ specAccepts d 0 = true := by
  decide +kernel

/-- The start word is SLC SLC SLC EPF (symbol 0 first), all four flagged as control symbols. -/
theorem start_word : LCSTART_DATA = 0xFE + 256 * 0xFE + 65536 * 0xFE + 16777216 * 0xF7 ∧ LCSTART_CTRL = 15 := by
  decide

/-! ## Generator -/
namespace Gen

/-- Words requested in a trace: `generate` in a cycle in which the generator is idle (= not
driving `valid`), with that cycle's command and subtype. -/
def accepted (tr : List (In × Out)) : List (Nat × Nat) :=
  tr.flatMap fun (i, o) => if !o.valid && i.generate then frame i.command i.subtype else []

/-- Words transferred: cycles with `valid ∧ ready`. -/
def emitted (tr : List (In × Out)) : List (Nat × Nat) :=
  tr.filterMap fun (i, o) => if o.valid && i.ready then some (o.data, o.ctrl) else none

/-- Words a state still owes. -/
def pending (s : State) : List (Nat × Nat) :=
  match s.fsm with
  | .idle => []
  | .txHeader => frame s.lcmd s.lsub
  | .txCommand => (frame s.lcmd s.lsub).drop 1

theorem specWord32_mod (c s : Nat) : specWord32 (c % 16) (s % 16) = specWord32 c s := by
  simp [specWord32, specWord16]

theorem step_conserves (s : State) (i : In) :
    pending s ++ accepted [(i, (step s i).2)] = emitted [(i, (step s i).2)] ++ pending (step s i).1 := by
  obtain ⟨f, c, u⟩ := s
  obtain ⟨ic, iu, g, r⟩ := i
  cases f <;> cases g <;> cases r <;>
    simp [step, pending, accepted, emitted, frame, specWord32, specWord16, linkCommand16]

theorem accepted_cons (x : In × Out) (tr : List (In × Out)) : accepted (x :: tr) = accepted [x] ++ accepted tr := by
  simp [accepted]

theorem emitted_cons (x : In × Out) (tr : List (In × Out)) : emitted (x :: tr) = emitted [x] ++ emitted tr := by
  simp only [emitted, List.filterMap_cons, List.filterMap_nil]
  split <;> simp

end Gen

/-- **C35 (generator).**  For every start state, every generate/command/subtype history and every
ready pattern: the words transferred are exactly, in order and once each, the frames
`SLC SLC SLC EPF ; w‖w` of the requests accepted — up to the words still waiting for `ready` at the
end of the history. -/
theorem generated_word_format (s : Gen.State) (h : List Gen.In) :
    Gen.pending s ++ Gen.accepted (Gen.run s h) = Gen.emitted (Gen.run s h) ++ Gen.pending (Gen.final s h) := by
  induction h generalizing s with
  | nil => simp [Gen.run, Gen.final, Gen.accepted, Gen.emitted]
  | cons i is ih =>
    simp only [Gen.run, Gen.final]
    rw [Gen.accepted_cons, Gen.emitted_cons, ← List.append_assoc, Gen.step_conserves, List.append_assoc, ih,
      List.append_assoc]

/-- Held under stalls: in every cycle `valid` says whether a word is owed, the word presented *is*
the first owed word (so it does not change while `ready` is low), and `done` marks the transfer of
the last word. -/
theorem generator_holds_word (s : Gen.State) (i : Gen.In) :
    let o := (Gen.step s i).2
    o.valid = !(Gen.pending s).isEmpty ∧ (∀ w, (Gen.pending s).head? = some w → (o.data, o.ctrl) = w) ∧
      o.done = (i.ready && (Gen.pending s).length == 1) := by
  obtain ⟨f, c, u⟩ := s
  cases f <;> simp [Gen.step, Gen.pending, frame, specWord32, specWord16, Gen.linkCommand16]

/-! ## Detector -/

theorem accepts_eq_spec (data ctrl : Nat) (hd : data < 2 ^ 32) (hc : ctrl < 16) :
    Det.accepts data ctrl = specAccepts data ctrl := by
  have h1 : ctrl % 16 = ctrl := Nat.mod_eq_of_lt hc
  have h2 : data / 2 ^ 16 % 2 ^ 16 = data / 65536 := by omega
  have h3 : data % 2 ^ 16 % 2 ^ 11 = data % 2048 := by omega
  simp only [Det.accepts, specAccepts, h1, h2, h3]

/-- **C35 (rejection).**  For every 32-bit word and 4-bit ctrl presented (valid) after a start word:
a command is reported iff ctrl = 0, the two halves are equal and the CRC-5 matches; when it is, the
reported command and subtype are bits 10:7 and 3:0 of the word; when it is not, the previously
reported fields are untouched.  Either way the detector returns to waiting for a start word. -/
theorem reject_corrupted (s : Det.State) (hs : s.fsm = .parse) (data ctrl : Nat)
    (hd : data < 2 ^ 32) (hc : ctrl < 16) :
    let s' := (Det.step s ⟨true, data, ctrl⟩).1
    (s'.newCommand = specAccepts data ctrl) ∧ s'.fsm = .waitLcstart ∧
    (specAccepts data ctrl = true → s'.command = (data / 128) % 16 ∧ s'.subtype = data % 16) ∧
    (specAccepts data ctrl = false → s'.command = s.command ∧ s'.subtype = s.subtype) := by
  obtain ⟨f, c, u, n⟩ := s
  simp only at hs
  subst hs
  have hm : data % 2 ^ 32 = data := Nat.mod_eq_of_lt hd
  simp only [Det.step, hm, accepts_eq_spec data ctrl hd hc, if_true]
  cases hA : specAccepts data ctrl
  · simp
  · simp
    omega

/-- Nothing is ever reported from the waiting state, whatever the word; and an invalid word in the
parse state is skipped (the detector keeps waiting for the command word). -/
theorem no_report_outside_command_word (s : Det.State) (i : Det.In) :
    (s.fsm = .waitLcstart → (Det.step s i).1.newCommand = false) ∧
    (s.fsm = .parse → i.valid = false → (Det.step s i).1 = { s with newCommand := false }) := by
  obtain ⟨f, c, u, n⟩ := s
  cases f <;> simp [Det.step]
  intro h; simp [h]

/-- The specification of the detector on the gap-free sequence of *valid* words: a start word makes
the next word a command word; a command word is reported iff `specAccepts`. -/
def parseWords : Bool → List (Nat × Nat) → List (Nat × Nat)
  | _, [] => []
  | false, w :: ws => parseWords (w.1 == LCSTART_DATA && w.2 == LCSTART_CTRL) ws
  | true, w :: ws =>
    (if specAccepts w.1 w.2 then [((w.1 / 128) % 16, w.1 % 16)] else []) ++ parseWords false ws

def Det.parsing (s : Det.State) : Bool := match s.fsm with | .parse => true | .waitLcstart => false

def validWords (h : List Det.In) : List (Nat × Nat) :=
  h.filterMap fun i => if i.valid then some (i.data, i.ctrl) else none

/-- Reports seen on the outputs during a trace. -/
def Det.reported (tr : List (Det.In × Det.Out)) : List (Nat × Nat) :=
  tr.filterMap fun (_, o) => if o.newCommand then some (o.command, o.subtype) else none

def Det.owed (s : Det.State) : List (Nat × Nat) := if s.newCommand then [(s.command, s.subtype)] else []

def WellFormed (h : List Det.In) : Prop := ∀ i ∈ h, i.data < 2 ^ 32 ∧ i.ctrl < 16

theorem det_step_report (s : Det.State) (i : Det.In) (hd : i.data < 2 ^ 32) (hc : i.ctrl < 16) :
    Det.owed s = Det.reported [(i, (Det.step s i).2)] ∧
    (∀ ws, parseWords (Det.parsing s) (validWords [i] ++ ws)
        = Det.owed (Det.step s i).1 ++ parseWords (Det.parsing (Det.step s i).1) ws) := by
  obtain ⟨f, c, u, n⟩ := s
  obtain ⟨v, d, k⟩ := i
  simp only at hd hc
  have hm : d % 2 ^ 32 = d := Nat.mod_eq_of_lt hd
  have hk : k % 16 = k := Nat.mod_eq_of_lt hc
  have hw : d % 2 ^ 16 / 2 ^ 7 % 16 = d / 128 % 16 ∧ d % 2 ^ 16 % 16 = d % 16 := by omega
  cases f <;> cases v <;> cases n <;>
    simp [Det.step, Det.owed, Det.reported, validWords, parseWords, Det.parsing, hm, hk,
      accepts_eq_spec d k hd hc, hw.1, hw.2]
  all_goals
    first
    | (cases hA : specAccepts d k <;> simp)
    | (cases e1 : (d == LCSTART_DATA) <;> cases e2 : (k == LCSTART_CTRL) <;>
        simp_all)

/-- **C35 (detector, all histories).**  For every start state and every history of (valid, data,
ctrl) words with arbitrary invalid gaps: the commands reported (including one still in the output
register at the end) are exactly what the specification parses from the sequence of valid words —
in particular invalid words between the start word and the command word change nothing. -/
theorem detector_reports_exactly (s : Det.State) (h : List Det.In) (hw : WellFormed h) :
    Det.reported (Det.run s h) ++ Det.owed (Det.final s h)
      = Det.owed s ++ parseWords (Det.parsing s) (validWords h) := by
  induction h generalizing s with
  | nil => simp [Det.run, Det.final, Det.reported, validWords, parseWords]
  | cons i is ih =>
    have ⟨hd, hc⟩ := hw i List.mem_cons_self
    have hstep := det_step_report s i hd hc
    have hrep : Det.reported (Det.run s (i :: is))
        = Det.reported [(i, (Det.step s i).2)] ++ Det.reported (Det.run (Det.step s i).1 is) := by
      simp only [Det.run, Det.reported, List.filterMap_cons, List.filterMap_nil]
      split <;> simp
    have hvw : validWords (i :: is) = validWords [i] ++ validWords is := by
      simp only [validWords, List.filterMap_cons, List.filterMap_nil]
      split <;> simp
    rw [hrep, Det.final, List.append_assoc, ih _ (fun j hj => hw j (List.mem_cons_of_mem _ hj)), hvw,
      hstep.2, ← hstep.1]

/-! ## Round trip -/
namespace Chain

def accepted (tr : List (Gen.In × Gen.Out × Det.Out)) : List (Nat × Nat) :=
  tr.filterMap fun (i, o, _) => if !o.valid && i.generate then some (i.command % 16, i.subtype % 16) else none

def reported (tr : List (Gen.In × Gen.Out × Det.Out)) : List (Nat × Nat) :=
  tr.filterMap fun (_, _, od) => if od.newCommand then some (od.command, od.subtype) else none

/-- Commands in flight: one in the detector's output register, one in the generator. -/
def inFlight (s : State) : List (Nat × Nat) :=
  (if s.2.newCommand then [(s.2.command, s.2.subtype)] else []) ++
  (if s.1.fsm = .idle then [] else [(s.1.lcmd, s.1.lsub)])

/-- The detector is parsing exactly while the generator is presenting the command word; latched
fields are 4-bit. -/
def Inv (s : State) : Prop :=
  (s.1.fsm = .txCommand ↔ s.2.fsm = .parse) ∧ s.1.lcmd < 16 ∧ s.1.lsub < 16

/-- The detector accepts and correctly decodes every generated information word (finite table). -/
theorem accepts_generated : ∀ c < 16, ∀ u < 16,
    let w := Gen.linkCommand16 c u
    Det.accepts ((w + 2 ^ 16 * w) % 2 ^ 32) 0 = true ∧ ((w + 2 ^ 16 * w) % 2 ^ 16 / 2 ^ 7) % 16 = c ∧
      (w + 2 ^ 16 * w) % 2 ^ 16 % 16 = u := by
  decide +kernel

theorem step_inv (s : State) (i : Gen.In) (hI : Inv s) :
    Inv (step s i).1 ∧
    inFlight s ++ accepted [(i, (step s i).2)] = reported [(i, (step s i).2)] ++ inFlight (step s i).1 := by
  obtain ⟨⟨gf, c, u⟩, ⟨df, dc, du, dn⟩⟩ := s
  obtain ⟨ic, iu, g, r⟩ := i
  obtain ⟨hfsm, hc, hu⟩ := hI
  simp only at hfsm hc hu
  have hacc := accepts_generated c hc u hu
  have hic : ic % 16 < 16 := Nat.mod_lt _ (by decide)
  have hiu : iu % 16 < 16 := Nat.mod_lt _ (by decide)
  have hl : LCSTART_DATA % 2 ^ 32 = LCSTART_DATA ∧ LCSTART_CTRL % 16 = LCSTART_CTRL := by decide
  cases gf <;> cases df <;> simp at hfsm <;> cases g <;> cases r <;> cases dn <;>
    simp_all [step, Gen.step, Det.step, Inv, inFlight, accepted, reported, hl.1, hl.2]

end Chain

/-- **C35 (round trip).**  Generator feeding detector, from reset, every generate/command/subtype
history and every ready (stall) pattern: the detector reports exactly the commands and subtypes
the generator accepted, in order, once each — up to those still in flight at the end. -/
theorem detect_generate (h : List Gen.In) :
    Chain.accepted (Chain.run Chain.init h)
      = Chain.reported (Chain.run Chain.init h) ++ Chain.inFlight (Chain.final Chain.init h) := by
  have key : ∀ (s : Chain.State), Chain.Inv s →
      Chain.inFlight s ++ Chain.accepted (Chain.run s h)
        = Chain.reported (Chain.run s h) ++ Chain.inFlight (Chain.final s h) := by
    induction h with
    | nil => intro s _; simp [Chain.run, Chain.final, Chain.accepted, Chain.reported]
    | cons i is ih =>
      intro s hI
      have ⟨hI', hc⟩ := Chain.step_inv s i hI
      have ha : Chain.accepted (Chain.run s (i :: is))
          = Chain.accepted [(i, (Chain.step s i).2)] ++ Chain.accepted (Chain.run (Chain.step s i).1 is) := by
        simp only [Chain.run, Chain.accepted, List.filterMap_cons, List.filterMap_nil]
        split <;> simp
      have hr : Chain.reported (Chain.run s (i :: is))
          = Chain.reported [(i, (Chain.step s i).2)] ++ Chain.reported (Chain.run (Chain.step s i).1 is) := by
        simp only [Chain.run, Chain.reported, List.filterMap_cons, List.filterMap_nil]
        split <;> simp
      rw [ha, hr, Chain.final, ← List.append_assoc, hc, List.append_assoc, ih _ hI', List.append_assoc]
  have := key Chain.init (by simp [Chain.Inv, Chain.init, Gen.init, Det.init])
  simpa [Chain.inFlight, Chain.init, Gen.init, Det.init] using this

/-- Non-vacuity: LGOOD_3 (command 0, subtype 3) and LCRD_B (command 1… here command 0b0001, subtype 1)
through a stalling channel. -/
example :
    let g (c u : Nat) (gen rdy : Bool) : Gen.In := ⟨c, u, gen, rdy⟩
    Chain.reported (Chain.run Chain.init
      [g 0 3 true false, g 9 9 false false, g 9 9 true true, g 0 0 false false, g 0 0 false true,
       g 1 1 true true, g 0 0 false true, g 0 0 false true, g 0 0 false true])
      = [(0, 3), (1, 1)] := by decide +kernel

end LunaVerif.LinkCommand
