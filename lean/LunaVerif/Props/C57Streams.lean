import LunaVerif.Lemmas.C57Tx
/-!
# C57 — rx / tx order over whole-device event histories

"… delivers bytes written by the host to its receive stream in order, and delivers bytes from its transmit stream
to the host in order."

`rx_in_order` and `tx_in_order` are statements about EVERY event history of the whole serial-device model
(`Full.step`, any `FullConfig` with the endpoint list of `USBSerialDevice`: control endpoint with every standard /
class / vendor request, IN 3, OUT 4, IN 4) from the freshly reset device — legal or not: tokens for any address
and endpoint, good and corrupted data packets, retransmissions, handshakes of this and of other devices'
transactions, control transfers between and in the middle of bulk transactions (SET_LINE_CODING,
CLEAR_FEATURE(ENDPOINT_HALT) naming any endpoint, …), bus resets, produce / consume events of any size.
`LegalHost` histories are a special case (examples at the end).  The histories are observed through the ghost
variables of `Lemmas/C57Ghost.lean` (computed from events, answers and the token detector only).

The only environment hypothesis is that of `tx_in_order`: the host ACKs a tx packet only if it received it
(`HostAcksWhatItGot`).

What CLEAR_FEATURE(ENDPOINT_HALT) and a bus reset do, as coded, is part of the statements:
* halt-clear of OUT 4: the receiver's sequence bit restarts at DATA0 (`rxBit := false`), buffered bytes stay and
  are still delivered (`rx_in_order` holds across it unchanged);
* halt-clear of IN 4: device and host restart with DATA0, buffered bytes stay.  A packet the host had already
  accepted while the device has not seen its ACK (`unconfirmed`) is sent AGAIN as DATA0 and accepted a second
  time: these re-deliveries are exactly the entries of `redone` (each equal to the packet accepted before it), at
  most one per such halt-clear (`ambiguousClears`); everything else the host accepts (`kept`) is the produced
  stream, in order, each byte once;
* bus reset: neither toggles nor buffers change (address and configuration only), the host keeps its bits.
-/
namespace LunaVerif.C57
open LunaVerif LunaVerif.Device LunaVerif.Device.Full

/-- The rx endpoint (OUT 4) and the tx endpoint (IN 4) of a serial device's state. -/
def rxEp (s : FullState) : OutEp := match s.eps with | [_, .sOut b, _] => b | _ => {}
def txEp (s : FullState) : InEp := match s.eps with | [_, _, .sIn d] => d | _ => {}

/-! ## The invariants over the whole device -/

def RxInv57 (s : FullState) (g : Ghost) : Prop := ∃ a b d, Shape s a b d ∧ RxG b g

def Inv57 (s : FullState) (g : Ghost) : Prop := ∃ a b d, Shape s a b d ∧ RxG b g ∧ TxG s.ctl d g

theorem rxInv57_step (c : FullConfig) (hc : IsSerial c) (s : FullState) (g : Ghost) (ae : AEvent)
    (hi : RxInv57 s g) : RxInv57 (Full.step c s ae.ev).1 (ghostStep s g ae (Full.step c s ae.ev).2) := by
  obtain ⟨a, b, d, hs, hrx⟩ := hi
  obtain ⟨b', hb', hrx'⟩ := rx_step c hc s a b d hs g ae hrx
  obtain ⟨a', ha'⟩ := ep3_step a (ctxOf s.ctl ae.ev) ae.ev
  obtain ⟨d', hd'⟩ := in4_step d (ctxOf s.ctl ae.ev) ae.ev
  refine ⟨a', b', d', ?_, hrx'⟩
  unfold Shape
  rw [step_eps c hc s a b d hs, ha', hb', hd']

theorem inv57_step (c : FullConfig) (hc : IsSerial c) (s : FullState) (g : Ghost) (ae : AEvent)
    (hi : Inv57 s g) (hok : ackOk s g ae = true) :
    Inv57 (Full.step c s ae.ev).1 (ghostStep s g ae (Full.step c s ae.ev).2) := by
  obtain ⟨a, b, d, hs, hrx, htx⟩ := hi
  obtain ⟨b', hb', hrx'⟩ := rx_step c hc s a b d hs g ae hrx
  obtain ⟨d', hd', htx'⟩ := tx_step c hc s a b d hs g ae htx hok
  obtain ⟨a', ha'⟩ := ep3_step a (ctxOf s.ctl ae.ev) ae.ev
  refine ⟨a', b', d', ?_, hrx', htx'⟩
  unfold Shape
  rw [step_eps c hc s a b d hs, ha', hb', hd']

theorem rxInv57_run (c : FullConfig) (hc : IsSerial c) (s : FullState) (g : Ghost) (h : List AEvent)
    (hi : RxInv57 s g) : RxInv57 (runG c s g h).1 (runG c s g h).2 := by
  induction h generalizing s g with
  | nil => exact hi
  | cons ae as ih => exact ih _ _ (rxInv57_step c hc s g ae hi)

theorem inv57_run (c : FullConfig) (hc : IsSerial c) (s : FullState) (g : Ghost) (h : List AEvent)
    (hi : Inv57 s g) (hl : acksFrom c s g h = true) : Inv57 (runG c s g h).1 (runG c s g h).2 := by
  induction h generalizing s g with
  | nil => exact hi
  | cons ae as ih =>
    simp only [acksFrom, Bool.and_eq_true] at hl
    exact ih _ _ (inv57_step c hc s g ae hi hl.1) hl.2

theorem inv57_init (c : FullConfig) (hc : IsSerial c) : Inv57 (Full.init c) {} := by
  refine ⟨{}, {}, {}, shape_init c hc, ⟨rfl, rfl⟩, ?_⟩
  refine ⟨?_, fun h => (by cases h), fun h => (by cases h), fun x hx => (by cases hx), Nat.le_refl _⟩
  simp [TxCore, TxCoreV, InEp.rbuf, InEp.wbuf]

/-! ## Host to device -/

/-- **C57 (rx in order, whole-device histories).**  For EVERY event history of the serial device from reset (no
hypothesis: any interleaving of tokens, good / corrupted / retransmitted / overflowing data packets, control
transfers incl. CLEAR_FEATURE(ENDPOINT_HALT) for any endpoint, other endpoints' and other devices' traffic, bus
resets, produce and consume events): the bytes read from the rx stream followed by the bytes still in its FIFO are
exactly the payloads of the data packets for OUT endpoint 4 that the device ACKed with a fresh toggle — in order,
each once (a retransmission is ACKed again but is not fresh); and the endpoint's expected toggle is the sequence bit
the toggle rule prescribes, a halt-clear of OUT 4 restarting it at DATA0 and leaving the buffered bytes alone. -/
theorem rx_in_order (c : FullConfig) (hc : IsSerial c) (h : List AEvent) :
    let r := runG c (Full.init c) {} h
    r.2.delivered ++ bytesOf (rxEp r.1).fifo = r.2.acked ∧ (rxEp r.1).expToggle = r.2.rxBit := by
  have hi : RxInv57 (Full.init c) {} := by
    obtain ⟨a, b, d, hs, hrx, _⟩ := inv57_init c hc
    exact ⟨a, b, d, hs, hrx⟩
  obtain ⟨a, b, d, hs, hrx⟩ := rxInv57_run c hc _ _ h hi
  unfold Shape at hs
  simp only [rxEp, hs]
  exact ⟨hrx.2, hrx.1⟩

/-- What the application has read is a prefix of what the device ACKed (fresh toggles), at every moment. -/
theorem rx_delivered_prefix (c : FullConfig) (hc : IsSerial c) (h : List AEvent) :
    (runG c (Full.init c) {} h).2.delivered <+: (runG c (Full.init c) {} h).2.acked :=
  ⟨_, (rx_in_order c hc h).1⟩

/-! ## Device to host -/

/-- **C57 (tx in order, whole-device histories).**  For EVERY event history of the serial device from reset in
which the host ACKs tx packets only when it has received them: the bytes the host has accepted by the toggle rule
(`kept`: first deliveries), followed by the packet that is still to get across (unless the host already has it) and
the bytes collected for the next packet, are exactly the bytes the tx stream accepted from the producer — nothing
lost, duplicated or reordered, across lost packets, lost ACKs, other devices' ACKs, control transfers and bus
resets.  The only other packets the host accepts are the re-deliveries after a halt-clear of IN 4 that arrived
while the device had not seen the ACK of the last accepted packet: each is that very packet again (`redone`), and
there is at most one per such halt-clear. -/
theorem tx_in_order (c : FullConfig) (hc : IsSerial c) (h : List AEvent) (hl : HostAcksWhatItGot c h = true) :
    let r := runG c (Full.init c) {} h
    r.2.kept ++ (if (txEp r.1).fsm ≠ .waitData ∧ r.2.hostBit = (txEp r.1).pid ∧ r.2.redo = false
                 then (txEp r.1).rbuf else []) ++ (txEp r.1).wbuf = r.2.produced ∧
    (∀ x ∈ r.2.redone, x.1 = x.2) ∧
    r.2.redone.length + (if r.2.redo then 1 else 0) ≤ r.2.ambiguousClears := by
  obtain ⟨a, b, d, hs, _, h1, _, _, h4, h5⟩ := inv57_run c hc _ _ h (inv57_init c hc) hl
  unfold Shape at hs
  simp only [txEp, hs]
  refine ⟨?_, h4, h5⟩
  unfold TxCore at h1
  by_cases hf : d.fsm = .waitData
  · rw [hf] at h1
    obtain ⟨c1, c2, c3, c4, c5⟩ := h1
    simp [hf, c3]
  · rcases (txcV_busy _ _ _ _ _ _ _ _ _ _ hf).1 h1 with ⟨c1, c2, c3, c4⟩ | ⟨c1, c2, c3, c4, c5⟩ | ⟨c1, c2, c3, c4, c5⟩
    · simp [hf, c1, c2, c4]
    · have : ¬ (!d.pid) = d.pid := by cases d.pid <;> simp
      simp [hf, c1, c2, c5, this]
    · simp [hf, c1, c2, c5]

/-- What the host has accepted (first deliveries) is a prefix of what the producer handed over. -/
theorem tx_kept_prefix (c : FullConfig) (hc : IsSerial c) (h : List AEvent) (hl : HostAcksWhatItGot c h = true) :
    (runG c (Full.init c) {} h).2.kept <+: (runG c (Full.init c) {} h).2.produced := by
  have h1 := (tx_in_order c hc h hl).1
  simp only [List.append_assoc] at h1
  exact ⟨_, h1⟩

/-- Without a halt-clear of IN 4 in the ambiguous situation nothing is ever delivered twice: EVERY packet the
host accepts by the toggle rule is in `kept`. -/
theorem tx_exactly_once (c : FullConfig) (hc : IsSerial c) (h : List AEvent) (hl : HostAcksWhatItGot c h = true)
    (hn : (runG c (Full.init c) {} h).2.ambiguousClears = 0) :
    (runG c (Full.init c) {} h).2.redone = [] ∧ (runG c (Full.init c) {} h).2.redo = false := by
  have h3 := (tx_in_order c hc h hl).2.2
  rw [hn] at h3
  constructor
  · exact List.eq_nil_of_length_eq_zero (by omega)
  · cases hr : (runG c (Full.init c) {} h).2.redo
    · rfl
    · rw [hr] at h3; simp at h3

/-! ## What "halt-clear" means in the ghost history -/

theorem dispatch_clearFeature (r : Nat) (h : dispatch r = .clearFeature) : r = REQ_CLEAR_FEATURE := by
  unfold dispatch at h
  repeat' split at h
  all_goals first | assumption | cases h

theorem ctl_inv_reachable (c : FullConfig) (s : FullState) (h : List HostEvent) (hi : Device.Inv s.ctl) :
    Device.Inv (Full.final c s h).ctl := by
  induction h generalizing s with
  | nil => exact hi
  | cons e es ih =>
    apply ih
    rw [step_ctl]
    exact inv_step c.dev s.ctl _ hi

/-- The halt-clear of endpoint `n`, direction `dir`, that `ghostStep` (and the endpoints) react to happens exactly
with a host ACK that arrives while the last token is an IN token for endpoint 0, the latched SETUP packet is a
STANDARD CLEAR_FEATURE request (bRequest 1) whose wIndex names that endpoint (bit 7: direction, bits 3..0: number)
and the standard handler is still handling it — i.e. the ACK of that request's status stage. -/
theorem halt_clear_is_clear_feature (c : FullConfig) (h : List HostEvent) (pid : Nat) (dir : Bool) (n : Nat) :
    let s := (Full.final c (Full.init c) h).ctl
    haltFor (ctxOf s (.handshake pid)) dir n = true ↔
      (pid = PID_ACK ∧ s.tokPid = PID_IN ∧ s.tokEp = 0 ∧ s.setup.type = TYPE_STANDARD ∧
       s.setup.request = REQ_CLEAR_FEATURE ∧ s.hstate = .clearFeature ∧
       (s.setup.index / 128 % 2 == 1) = dir ∧ s.setup.index % 16 = n) := by
  have hinv := ctl_inv_reachable c (Full.init c) h inv_init
  simp only
  generalize (Full.final c (Full.init c) h).ctl = s at hinv
  constructor
  · intro hh
    simp only [haltFor, ctxOf] at hh
    split at hh
    · rename_i d' n' heq
      split at heq
      · rename_i hc
        simp only [ackReachesStd, Bool.and_eq_true, beq_iff_eq] at hc
        obtain ⟨⟨⟨⟨a1, a2⟩, a3⟩, a4⟩, a5⟩ := hc
        injection heq with heq
        injection heq with e1 e2
        simp only [Bool.and_eq_true, beq_iff_eq] at hh
        have hreq : s.setup.request = REQ_CLEAR_FEATURE := by
          rcases hinv.handler a4 with hidle | hd
          · rw [a5] at hidle; cases hidle
          · rw [a5] at hd; exact dispatch_clearFeature _ hd.symm
        refine ⟨a1, a3, a2, a4, hreq, a5, ?_, ?_⟩
        · rw [e1]; exact hh.1
        · rw [e2]; exact hh.2
      · cases heq
    · cases hh
  · rintro ⟨a1, a3, a2, a4, _, a5, e1, e2⟩
    simp [haltFor, ctxOf, ackReachesStd, a1, a2, a3, a4, a5, e1, e2]

/-! ## Non-vacuity: legal host histories with everything in them -/

def ann (l : List HostEvent) : List AEvent := l.map (⟨·, true⟩)

/-- CLEAR_FEATURE(ENDPOINT_HALT) for the endpoint named by `ix` (wIndex), sent to address `a`. -/
def clearHalt (a ix : Nat) : List HostEvent := ctrlWrite a (setupBytes 0x02 1 0 ix 0)

/-- Enumeration, an OUT packet whose ACK the host misses and its retransmission, a corrupted packet, another
device's transaction, halt-clear of OUT 4 (DATA0 is fresh again afterwards), a tx packet that gets across at the
third attempt (ACK lost, packet lost), a bus reset and a new SET_ADDRESS in the middle of the tx stream, halt-clear
of IN 4 with nothing in flight. -/
def demo : List AEvent :=
  ann (enumeration 5) ++
  ann [.token PID_OUT 5 4, .data PID_DATA0 [1, 2, 3] true,
       .token PID_OUT 5 4, .data PID_DATA0 [1, 2, 3] true,
       .consume 4 2,
       .token PID_OUT 5 4, .data PID_DATA1 [4] false,
       .token PID_OUT 7 4, .data PID_DATA1 [9] true,
       .token PID_OUT 5 4, .data PID_DATA1 [4] true] ++
  ann (clearHalt 5 0x04) ++
  ann [.token PID_OUT 5 4, .data PID_DATA0 [5] true,
       .produce 4 [10, 11] true,
       .token PID_IN 5 4] ++
  [⟨.token PID_IN 5 4, false⟩] ++
  ann [.token PID_IN 5 4, .handshake PID_ACK,
       .busReset,
       .produce 4 [12] true] ++
  ann (ctrlWrite 0 (setupBytes 0x00 5 5 0 0)) ++
  ann [.token PID_IN 5 4, .handshake PID_ACK] ++
  ann (clearHalt 5 0x84) ++
  ann [.produce 4 [13] true, .token PID_IN 5 4, .handshake PID_ACK, .consume 4 10]

example : Full.LegalHost acmCfg (demo.map (·.ev)) = true ∧ HostAcksWhatItGot acmCfg demo = true := by decide +kernel

example : (runG acmCfg (Full.init acmCfg) {} demo).2 =
    { rxBit := true, acked := [1, 2, 3, 4, 5], delivered := [1, 2, 3, 4, 5], produced := [10, 11, 12, 13],
      hostBit := true, kept := [10, 11, 12, 13], lastPkt := [13] } := by decide +kernel

/-- The ambiguous halt-clear: the host has accepted [10, 11], the device has not seen the ACK, CLEAR_FEATURE
(ENDPOINT_HALT) for IN 4 — the packet comes again as DATA0 and is accepted again (replayed on the real
`USBSerialDevice`: the gateware does exactly this). -/
def demoRedo : List AEvent :=
  ann (enumeration 5) ++
  ann [.produce 4 [10, 11] true, .token PID_IN 5 4] ++
  ann (clearHalt 5 0x84) ++
  ann [.produce 4 [12] true, .token PID_IN 5 4, .handshake PID_ACK, .token PID_IN 5 4, .handshake PID_ACK]

example : Full.LegalHost acmCfg (demoRedo.map (·.ev)) = true ∧ HostAcksWhatItGot acmCfg demoRedo = true := by
  decide +kernel

example : (runG acmCfg (Full.init acmCfg) {} demoRedo).2 =
    { produced := [10, 11, 12], kept := [10, 11, 12], lastPkt := [12], redone := [([10, 11], [10, 11])],
      ambiguousClears := 1 } := by decide +kernel


/-- The hypothesis of `tx_in_order` is needed and is not trivially true: a host that ACKs a packet it did not
receive makes the endpoint drop it ([1] is gone, [2] comes with the toggle of a retransmission and is discarded):
the endpoint has sent everything it was given and the host has nothing. -/
def demoBadAck : List AEvent :=
  ann (enumeration 5) ++ ann [.produce 4 [1] true] ++ [⟨.token PID_IN 5 4, false⟩] ++
  ann [.handshake PID_ACK, .produce 4 [2] true, .token PID_IN 5 4, .handshake PID_ACK]

example : Full.LegalHost acmCfg (demoBadAck.map (·.ev)) = true ∧ HostAcksWhatItGot acmCfg demoBadAck = false := by
  decide +kernel

example : (runG acmCfg (Full.init acmCfg) {} demoBadAck).2.kept = [] ∧
    (runG acmCfg (Full.init acmCfg) {} demoBadAck).2.produced = [1, 2] ∧
    (txEp (runG acmCfg (Full.init acmCfg) {} demoBadAck).1).fsm = .waitData ∧
    (txEp (runG acmCfg (Full.init acmCfg) {} demoBadAck).1).wbuf = [] := by decide +kernel

end LunaVerif.C57
