import LunaVerif.Lemmas.C25RxErrSeen
/-!
# C25 (receive direction, end to end) — a bit-stuffing violation is reported while the packet is in progress

`stuff_error_seen_by_usb`: same environment as `rx_delivers_to_usb` (every `usb` clock phase, every sampling phase, any
idle state incl. FIFO pointers), a packet whose bit stream after SYNC is `pre ++ 1111111 ++ post` for arbitrary bit lists
`pre`, `post` (correctly stuffed or not): at one of the `usb` clock edges at which `o_pkt_in_progress` (= `rx_active`) is
high, `o_receive_error` (= `rx_error`) is high.  Proof: the end flag is written at least one bit time after the seventh
1, from when on the latched error is high in every cycle (`bad_streams`); the flags FIFO shows it 3 or 4 bit times later
(`fifo_stream`; the payload writes are spaced for arbitrary bits by `pays_spaced_any`), and `o_pkt_in_progress` is still
high at that edge (`err_member`).
-/
set_option linter.unusedSimpArgs false
namespace LunaVerif.FsRxCdc
open LunaVerif.FsRx LunaVerif.FsCodec

/-- the part of a packet with a bit-stuffing violation after SYNC: `pre`, seven 1s, `post`, EOP, `m` idle bit times -/
def badBits (pre post : List Bool) (x : Bool) (m : Nat) : List (Bool × Bool) :=
  fbits (pre ++ List.replicate 7 true ++ post) ++ ([(x, true), (true, true), (false, false)] ++ List.replicate m (true, false))

/-- the tail of `badBits` after the seventh 1 -/
def badTail (post : List Bool) (x : Bool) (m : Nat) : List (Bool × Bool) :=
  fbits post ++ ([(x, true), (true, true), (false, false)] ++ (List.replicate m (true, false) ++ List.replicate 5 (true, false)))

theorem bad_streams (pre post : List Bool) (x : Bool) (m : Nat) :
    let a1 : BB := ⟨6, 1, srInit, false⟩
    let P2 := bitPays a1 (badBits pre post x m)
    let F2 := bitFlgs a1 (badBits pre post x m)
    bitPays a1 (badBits pre post x m ++ List.replicate 5 (true, false)) = P2 ++ List.replicate 5 none ∧
    bitFlgs a1 (badBits pre post x m ++ List.replicate 5 (true, false)) = F2 ++ List.replicate 5 none ∧
    F2 = List.replicate (pre ++ List.replicate 7 true ++ post).length none ++
      (some 1 :: (List.replicate 2 none ++ List.replicate m none)) ∧
    P2.length = pre.length + 7 + post.length + (3 + m) ∧
    SpacedG 5 P2 = true ∧
    badBits pre post x m ++ List.replicate 5 (true, false) = fbits (pre ++ List.replicate 7 true) ++ badTail post x m ∧
    ∃ n2 sr2, bitRun a1 (fbits (pre ++ List.replicate 7 true)) = ⟨6, n2, sr2, true⟩ ∧
      ∀ p ∈ bitSEs ⟨6, n2, sr2, true⟩ (badTail post x m), p = (false, true) := by
  intro a1 P2 F2
  obtain ⟨n1, sr1, e1, hn1, p1⟩ := active_run pre 1 srInit false (by omega)
  obtain ⟨n2, sr2, hn2, p2⟩ := seven_ones_run n1 hn1 sr1 e1
  obtain ⟨n3, sr3, p3, hn3⟩ := err_sticky post n2 sr2
  obtain ⟨⟨c1, hc1, q1⟩, _, q3⟩ := eop_run n3 sr3 x true (hn3 hn2)
  obtain ⟨⟨det2, c2, hd2, hc2, i1⟩, _, i3⟩ := idle_gen m 1 c1 true (by omega) hc1
  obtain ⟨_, _, j3⟩ := idle_gen 5 det2 c2 true hd2 hc2
  have hrun7 : bitRun a1 (fbits (pre ++ List.replicate 7 true)) = ⟨6, n2, sr2, true⟩ := by
    simp only [fbits, List.map_append] at p1 p2 ⊢
    simp only [bitRun_append, a1, p1, p2]
  have hrunD : bitRun a1 (fbits (pre ++ List.replicate 7 true ++ post)) = ⟨6, n3, sr3, true⟩ := by
    have : fbits (pre ++ List.replicate 7 true ++ post) = fbits (pre ++ List.replicate 7 true) ++ fbits post := by
      simp [fbits]
    rw [this, bitRun_append, hrun7, p3]
  have hrun : bitRun a1 (badBits pre post x m) = ⟨det2, c2, srInit, true⟩ := by
    simp only [badBits, bitRun_append, hrunD, q1, i1]
  obtain ⟨s1, s2⟩ := idle_streams 5 det2 c2 srInit true hd2
  obtain ⟨e1p, e1f⟩ := eop_streams n3 sr3 x true
  obtain ⟨r1, r2⟩ := idle_streams m 1 c1 srInit true (by omega)
  have hf := active_flgs (pre ++ List.replicate 7 true ++ post) 1 srInit false
  have hF2 : F2 = List.replicate (pre ++ List.replicate 7 true ++ post).length none ++
      (some 1 :: (List.replicate 2 none ++ List.replicate m none)) := by
    simp only [F2, badBits, bitFlgs_append, a1, hf, hrunD, e1f, q1, r2]
    rfl
  refine ⟨?_, ?_, hF2, ?_, ?_, ?_, n2, sr2, hrun7, ?_⟩
  · rw [bitPays_append, hrun, s1]
  · rw [bitFlgs_append, hrun, s2]
  · simp only [P2, bitPays_length, badBits, List.length_append, fbits, List.length_map, List.length_replicate,
      List.length_cons, List.length_nil]
  · have hd := pays_spaced_any (pre ++ List.replicate 7 true ++ post) 1 srInit false 0 5 rfl (by simp [need])
    have : P2 = (bitPays a1 (fbits (pre ++ List.replicate 7 true ++ post)) ++ List.replicate 3 none) ++
        List.replicate m none := by
      simp only [P2, badBits, bitPays_append, a1, hrunD, e1p, q1, r1]
      simp [List.replicate]
    rw [this]
    exact spacedG_append_nones _ _ _ (spacedG_append_nones _ _ _ hd)
  · simp [badBits, badTail, fbits, List.append_assoc]
  · intro p hp
    simp only [badTail, bitSEs_append, p3, q1, i1] at hp
    rcases List.mem_append.mp hp with hp | hp
    · exact err_sticky_se post n2 sr2 p hp
    rcases List.mem_append.mp hp with hp | hp
    · exact q3 p hp
    rcases List.mem_append.mp hp with hp | hp
    · exact i3 p hp
    · exact j3 p hp

/-- **a bit-stuffing violation is reported while the packet is in progress**: for a packet whose bit stream after SYNC
contains seven consecutive 1s anywhere, the 12 MHz side sees `o_receive_error` high at one of its clock edges at which
`o_pkt_in_progress` is high (same environment as `rx_delivers_to_usb`). -/
theorem stuff_error_seen_by_usb (φ c0 : Nat) (hφ : φ < 4) (hc0 : c0 < 4) (pre post : List Bool)
    (c : Nat) (e : Bool) (hc : c ≤ 6) (pp pf : Nat) (hpp : pp < 8) (hpf : pf < 8) (memp memf : List Nat)
    (hmp : memp.length = 4) (hmf : memf.length = 4) (k m : Nat) :
    EvU.err ∈ evsU (runCdc φ (idleCdc c e pp memp pf memf c0) (rxInput k
      ((nrzi true (syncBits ++ (pre ++ List.replicate 7 true ++ post))).map lvl ++ [.SE0, .SE0, .J]) (m + 4))).2 := by
  have hin : rxInput k ((nrzi true (syncBits ++ (pre ++ List.replicate 7 true ++ post))).map lvl ++ [.SE0, .SE0, .J]) (m + 4) =
      jn k ++ wave (packetWave (pre ++ List.replicate 7 true ++ post) (m + 4)) ++ jn 3 := by
    simp only [rxInput, packetWave, List.append_assoc]
  obtain ⟨hshape, hbits⟩ := packet_shape (pre ++ List.replicate 7 true ++ post) (m + 4)
  obtain ⟨a0c, prefx, ha0, hprel, hquiet, houts⟩ := run_wave_outs c e hc k
    ((nrzi true ([false, false, false, false, false, true] ++ (pre ++ List.replicate 7 true ++ post))).map lvl ++
      [.SE0, .SE0, .J] ++ List.replicate (m + 4) .J)
  rw [← hshape, hbits] at houts
  rw [← hin] at houts
  obtain ⟨qp, qf, _⟩ := quiet_map_pay e prefx hquiet
  let x := !lastLvl true (nrzi true (syncBits ++ (pre ++ List.replicate 7 true ++ post)))
  have hpb : packetBits (pre ++ List.replicate 7 true ++ post) (m + 4) =
      fbits syncBits ++ (badBits pre post x m ++ List.replicate 5 (true, false)) := by
    have : List.replicate (m + 4 + 1) (true, false) = List.replicate m (true, false) ++ List.replicate 5 (true, false) := by
      rw [List.replicate_append_replicate]
    simp only [packetBits, badBits, this, List.append_assoc, x]
  obtain ⟨s1, _, _, _⟩ := sync_run a0c ha0 e
  obtain ⟨y1, y2⟩ := sync_streams a0c ha0 e
  obtain ⟨t1, t2, tF, tPl, tgp, tsplit, n2, sr2, trun7, tse⟩ := bad_streams pre post x m
  obtain ⟨os1, os2⟩ := outs_streams (packetBits (pre ++ List.replicate 7 true ++ post) (m + 4)) ⟨0, a0c, srInit, e⟩ true
  have hWp : bitPays ⟨0, a0c, srInit, e⟩ (packetBits (pre ++ List.replicate 7 true ++ post) (m + 4)) =
      (List.replicate 8 none ++ bitPays ⟨6, 1, srInit, false⟩ (badBits pre post x m)) ++ List.replicate 5 none := by
    rw [hpb, bitPays_append, s1, y1, t1, List.append_assoc]
  have hWf : bitFlgs ⟨0, a0c, srInit, e⟩ (packetBits (pre ++ List.replicate 7 true ++ post) (m + 4)) =
      (List.replicate 7 none ++ [some 2] ++ bitFlgs ⟨6, 1, srInit, false⟩ (badBits pre post x m)) ++ List.replicate 5 none := by
    rw [hpb, bitFlgs_append, s1, y2, t2]; simp only [List.append_assoc]
  have hpayS : (FsRx.run (idleSt c e) (rxInput k ((nrzi true (syncBits ++ (pre ++ List.replicate 7 true ++ post))).map lvl ++
        [.SE0, .SE0, .J]) (m + 4))).2.map payW =
      List.replicate (k + 7) none ++ flat (2 * 1)
        ((List.replicate 8 none ++ bitPays ⟨6, 1, srInit, false⟩ (badBits pre post x m)) ++ List.replicate 5 none) := by
    rw [houts, List.map_append, qp, hprel, os1, hWp]
  have hflgS : (FsRx.run (idleSt c e) (rxInput k ((nrzi true (syncBits ++ (pre ++ List.replicate 7 true ++ post))).map lvl ++
        [.SE0, .SE0, .J]) (m + 4))).2.map flgW =
      List.replicate (k + 7) none ++ flat (2 * 0)
        ((List.replicate 7 none ++ [some 2] ++ bitFlgs ⟨6, 1, srInit, false⟩ (badBits pre post x m)) ++ List.replicate 5 none) := by
    rw [houts, List.map_append, qf, hprel, os2, hWf]
  have hL : (pre ++ List.replicate 7 true ++ post).length = pre.length + 7 + post.length := by simp; omega
  -- spacing
  have hspP : SpacedB ((List.replicate 8 none ++ bitPays ⟨6, 1, srInit, false⟩ (badBits pre post x m)) ++
      List.replicate 5 none) = true := by
    apply spacedB_of_G _ _ 5 (Nat.le_refl _) (Nat.le_refl _)
    rw [spacedG_nones]
    exact spacedG_mono _ _ _ (by omega) tgp
  have hspF : SpacedB ((List.replicate 7 none ++ [some 2] ++ bitFlgs ⟨6, 1, srInit, false⟩ (badBits pre post x m)) ++
      List.replicate 5 none) = true := by
    apply spacedB_of_G _ _ 5 (Nat.le_refl _) (Nat.le_refl _)
    rw [List.append_assoc, spacedG_nones, tF]
    simp only [List.cons_append, List.nil_append, SpacedG, Bool.and_eq_true, decide_eq_true_eq]
    refine ⟨by omega, ?_⟩
    rw [spacedG_nones]
    simp only [SpacedG, Bool.and_eq_true, decide_eq_true_eq]
    refine ⟨by omega, ?_⟩
    rw [spacedG_nones]
    have := spacedG_nones m (0 + 2) []
    simp only [List.append_nil] at this
    rw [this]; rfl
  -- the two FIFOs
  have hc1 : (c0 + (k + 7)) % 4 < 4 := Nat.mod_lt _ (by omega)
  obtain ⟨ip1, ip2⟩ := fifo_idle_run φ hφ pp hpp memp hmp (k + 7) c0 hc0
  obtain ⟨if1, if2⟩ := fifo_idle_run φ hφ pf hpf memf hmf (k + 7) c0 hc0
  obtain ⟨_, fp2⟩ := fifo_stream φ ((c0 + (k + 7)) % 4) 1 hc1 hφ (by omega) _ hspP pp memp hpp hmp
  obtain ⟨_, ff2⟩ := fifo_stream φ ((c0 + (k + 7)) % 4) 0 hc1 hφ (by omega) _ hspF pf memf hpf hmf
  have hlenr : (List.replicate (k + 7) (none : Option Nat)).length = k + 7 := by simp
  have hPay := runFifo_append φ (List.replicate (k + 7) none) (flat (2 * 1)
      ((List.replicate 8 none ++ bitPays ⟨6, 1, srInit, false⟩ (badBits pre post x m)) ++ List.replicate 5 none)) c0
      (settled pp memp) hc0
  rw [hlenr, ip1] at hPay
  have hFlg := runFifo_append φ (List.replicate (k + 7) none) (flat (2 * 0)
      ((List.replicate 7 none ++ [some 2] ++ bitFlgs ⟨6, 1, srInit, false⟩ (badBits pre post x m)) ++ List.replicate 5 none)) c0
      (settled pf memf) hc0
  rw [hlenr, if1] at hFlg
  -- the error samples
  obtain ⟨bb1, _, _⟩ := back_blocks (fbits syncBits) ⟨0, a0c, srInit, e⟩ true
  obtain ⟨bc1, _, _⟩ := back_blocks (fbits (pre ++ List.replicate 7 true)) ⟨6, 1, srInit, false⟩
    (lastD true (fbits syncBits))
  obtain ⟨_, _, bd3⟩ := back_blocks (badTail post x m) ⟨6, n2, sr2, true⟩
    (lastD (lastD true (fbits syncBits)) (fbits (pre ++ List.replicate 7 true)))
  have hOb : outsB (conc ⟨0, a0c, srInit, e⟩ true) (bitBlocks (packetBits (pre ++ List.replicate 7 true ++ post) (m + 4))) =
      outsB (conc ⟨0, a0c, srInit, e⟩ true) (bitBlocks (fbits syncBits)) ++
      (outsB (conc ⟨6, 1, srInit, false⟩ (lastD true (fbits syncBits)))
        (bitBlocks (fbits (pre ++ List.replicate 7 true))) ++
       outsB (conc ⟨6, n2, sr2, true⟩ (lastD (lastD true (fbits syncBits)) (fbits (pre ++ List.replicate 7 true))))
        (bitBlocks (badTail post x m))) := by
    rw [hpb, tsplit, bitBlocks_append, outsB_append, bb1, s1, bitBlocks_append, outsB_append, bc1, trun7]
  have hX3 : ∀ o ∈ outsB (conc ⟨6, n2, sr2, true⟩ (lastD (lastD true (fbits syncBits)) (fbits (pre ++ List.replicate 7 true))))
      (bitBlocks (badTail post x m)), o.rxErr = true := by
    intro o ho
    have : seOf o ∈ bitSEs ⟨6, n2, sr2, true⟩ (badTail post x m) := by
      rw [← bd3]; exact List.mem_map.mpr ⟨o, ho, rfl⟩
    have := tse _ this
    simp only [seOf, Prod.mk.injEq] at this
    exact this.2
  have hl1 : (outsB (conc ⟨0, a0c, srInit, e⟩ true) (bitBlocks (fbits syncBits))).length = 4 * 8 := by
    rw [outsB_length, bitBlocks_length]; rfl
  have hl2 : (outsB (conc ⟨6, 1, srInit, false⟩ (lastD true (fbits syncBits)))
      (bitBlocks (fbits (pre ++ List.replicate 7 true)))).length = 4 * (pre.length + 7) := by
    rw [outsB_length, bitBlocks_length]; simp [fbits]
  have hl3 : (outsB (conc ⟨6, n2, sr2, true⟩ (lastD (lastD true (fbits syncBits)) (fbits (pre ++ List.replicate 7 true))))
      (bitBlocks (badTail post x m))).length = 4 * (post.length + (3 + (m + 5))) := by
    rw [outsB_length, bitBlocks_length]; simp [badTail, fbits]; omega
  have hcc1 : ((c0 + (k + 7)) % 4 + 4 * 8) % 4 = (c0 + (k + 7)) % 4 := by omega
  have hcc2 : ((c0 + (k + 7)) % 4 + 4 * (pre.length + 7)) % 4 = (c0 + (k + 7)) % 4 := by omega
  have hErr : errSamples φ c0 (FsRx.run (idleSt c e) (rxInput k ((nrzi true (syncBits ++
        (pre ++ List.replicate 7 true ++ post))).map lvl ++ [.SE0, .SE0, .J]) (m + 4))).2 =
      errSamples φ c0 prefx ++ (errSamples φ ((c0 + (k + 7)) % 4)
          (outsB (conc ⟨0, a0c, srInit, e⟩ true) (bitBlocks (fbits syncBits))) ++
        (errSamples φ ((c0 + (k + 7)) % 4) (outsB (conc ⟨6, 1, srInit, false⟩ (lastD true (fbits syncBits)))
          (bitBlocks (fbits (pre ++ List.replicate 7 true)))) ++
         List.replicate (post.length + (3 + (m + 5))) true)) := by
    rw [houts, errSamples_append φ _ _ c0 hc0, hprel, hOb, errSamples_append φ _ _ _ hc1, hl1, hcc1,
      errSamples_append φ _ _ _ hc1, hl2, hcc2, errSamples_const φ true _ hX3, hl3, edges_blocks φ hφ _ _ hc1]
  have hE0 : (errSamples φ c0 prefx).length = edges φ c0 (k + 7) := by rw [errSamples_length, hprel]
  have hE1 : (errSamples φ ((c0 + (k + 7)) % 4)
      (outsB (conc ⟨0, a0c, srInit, e⟩ true) (bitBlocks (fbits syncBits)))).length = 8 := by
    rw [errSamples_length, hl1]; exact edges_blocks φ hφ 8 _ hc1
  have hE2 : (errSamples φ ((c0 + (k + 7)) % 4) (outsB (conc ⟨6, 1, srInit, false⟩ (lastD true (fbits syncBits)))
      (bitBlocks (fbits (pre ++ List.replicate 7 true))))).length = pre.length + 7 := by
    rw [errSamples_length, hl2]; exact edges_blocks φ hφ _ _ hc1
  -- feed-forward decomposition; the end flag's sample is taken with the error high and the packet in progress
  obtain ⟨_, sp2⟩ := cdc_split φ (rxInput k ((nrzi true (syncBits ++ (pre ++ List.replicate 7 true ++ post))).map lvl ++
    [.SE0, .SE0, .J]) (m + 4)) (idleCdc c e pp memp pf memf c0) hc0
  simp only [idleCdc] at sp2 ⊢
  rw [sp2, hpayS, hflgS, hPay, hFlg, hErr, usbEv_eq_O]
  simp only [List.map_append, ip2, if2, fp2, ff2]
  have hDf : delay (2 * 0) ((c0 + (k + 7)) % 4) φ = 3 ∨ delay (2 * 0) ((c0 + (k + 7)) % 4) φ = 4 := delay_cases _ _ _
  generalize delay (2 * 0) ((c0 + (k + 7)) % 4) φ = Df at hDf ⊢
  generalize delay (2 * 1) ((c0 + (k + 7)) % 4) φ = Dp
  -- the flags samples
  have hlF : ((List.replicate 7 none ++ [some 2] ++ bitFlgs ⟨6, 1, srInit, false⟩ (badBits pre post x m)) ++
      List.replicate 5 (none : Option Nat)).length =
      (List.replicate 7 none ++ [some 2] ++ bitFlgs ⟨6, 1, srInit, false⟩ (badBits pre post x m)).length + 5 := by
    rw [List.length_append, List.length_replicate]
  have hFT := take_pad Df (by omega) (List.replicate 7 none ++ [some 2] ++ bitFlgs ⟨6, 1, srInit, false⟩ (badBits pre post x m))
  rw [hlF, hFT, tF]
  have hFdec : List.replicate (edges φ c0 (k + 7)) none ++ (List.replicate Df none ++ (List.replicate 7 none ++ [some 2] ++
      (List.replicate (pre ++ List.replicate 7 true ++ post).length none ++
        some 1 :: (List.replicate 2 none ++ List.replicate m none))) ++ List.replicate (5 - Df) none) =
      (List.replicate (edges φ c0 (k + 7)) none ++ (List.replicate Df none ++ (List.replicate 7 none ++ [some 2] ++
        List.replicate (pre ++ List.replicate 7 true ++ post).length none))) ++
      some 1 :: ((List.replicate 2 none ++ List.replicate m none) ++ List.replicate (5 - Df) none) := by
    simp only [List.append_assoc, List.cons_append, List.nil_append]
  rw [hFdec]
  -- the error samples
  have hEdec : errSamples φ c0 prefx ++ (errSamples φ ((c0 + (k + 7)) % 4)
          (outsB (conc ⟨0, a0c, srInit, e⟩ true) (bitBlocks (fbits syncBits))) ++
        (errSamples φ ((c0 + (k + 7)) % 4) (outsB (conc ⟨6, 1, srInit, false⟩ (lastD true (fbits syncBits)))
          (bitBlocks (fbits (pre ++ List.replicate 7 true)))) ++
         List.replicate (post.length + (3 + (m + 5))) true)) =
      (errSamples φ c0 prefx ++ (errSamples φ ((c0 + (k + 7)) % 4)
          (outsB (conc ⟨0, a0c, srInit, e⟩ true) (bitBlocks (fbits syncBits))) ++
        (errSamples φ ((c0 + (k + 7)) % 4) (outsB (conc ⟨6, 1, srInit, false⟩ (lastD true (fbits syncBits)))
          (bitBlocks (fbits (pre ++ List.replicate 7 true)))) ++
         List.replicate (Df + post.length) true))) ++ true :: List.replicate (7 + m - Df) true := by
    have : List.replicate (post.length + (3 + (m + 5))) true =
        List.replicate (Df + post.length) true ++ true :: List.replicate (7 + m - Df) true := by
      have harith : post.length + (3 + (m + 5)) = (Df + post.length) + ((7 + m - Df) + 1) := by omega
      rw [harith, ← List.replicate_succ, List.replicate_append_replicate]
    rw [this]; simp only [List.append_assoc]
  rw [hEdec]
  -- the payload samples: only their number matters
  generalize hPT : List.replicate (edges φ c0 (k + 7)) none ++
    List.take ((List.replicate 8 none ++ bitPays ⟨6, 1, srInit, false⟩ (badBits pre post x m)) ++ List.replicate 5 none).length
      (List.replicate Dp none ++ ((List.replicate 8 none ++ bitPays ⟨6, 1, srInit, false⟩ (badBits pre post x m)) ++
        List.replicate 5 none)) = PS
  have hPSl : PS.length = edges φ c0 (k + 7) + (8 + (pre.length + 7 + post.length + (3 + m)) + 5) := by
    rw [← hPT]
    simp only [List.length_append, List.length_replicate, List.length_take, tPl]
    omega
  have hsplit : PS = PS.take (edges φ c0 (k + 7) + (Df + (8 + (pre.length + 7 + post.length)))) ++
      PS.drop (edges φ c0 (k + 7) + (Df + (8 + (pre.length + 7 + post.length)))) := (List.take_append_drop _ _).symm
  have hdrop : (PS.drop (edges φ c0 (k + 7) + (Df + (8 + (pre.length + 7 + post.length))))).length ≠ 0 := by
    rw [List.length_drop, hPSl]; omega
  match hd : PS.drop (edges φ c0 (k + 7) + (Df + (8 + (pre.length + 7 + post.length)))), hdrop with
  | p :: ps2, _ =>
    rw [hsplit, hd]
    apply err_member
    · simp only [List.length_append, List.length_replicate, List.length_cons, List.length_nil, List.length_take, hPSl, hL]
      omega
    · simp only [List.length_append, List.length_replicate, List.length_take, hPSl, hE0, hE1, hE2]
      omega
    · rw [ipFinalO_nones_left, ipFinalO_nones_left, List.append_assoc, ipFinalO_nones_left]
      have h2 : ipNextO false (some 2) = true := by decide
      simp only [List.cons_append, List.nil_append, ipFinalO, h2]
      have := ipFinalO_nones_left (pre ++ List.replicate 7 true ++ post).length true []
      simp only [List.append_nil] at this
      rw [this]; rfl

end LunaVerif.FsRxCdc
