import LunaVerif.Model.Periph.I2cInitiator
/-!
# C52 — The I2C initiator follows the I2C bus protocol

"SDA driven by the initiator changes while SCL is high only when generating a requested START or
STOP condition; a write clocks out the byte MSB first and reports the target's acknowledge bit, a
read samples eight bits while SCL is high and then drives the requested acknowledge, a target
holding SCL low stretches the clock, and 'busy' is low only when a new operation can be accepted."

Proved in full (all operation sequences, all target behaviours = all values of the pad inputs in
every cycle, every `period_cyc`, both `clk_stretch` settings):
`sda_changes_under_scl_high_only_for_start_stop`, `busy_low_iff_accepting`, `stretch_holds_timer`,
`read_samples_when_scl_high` (where and under which SCL condition the read shift register samples).

The byte-level write statement (`write_msb_first_and_ack`: SCL-high phase of data clock `bitno`
carries bit `7 - bitno` of the latched octet, SDA released during the acknowledge clock, read
acknowledge clock carries `~ack_i`) and the loop invariant `sda_released_for_target_bits` are in
`LunaVerif/Lemmas/I2cWrite.lean` (audited with this module).

The byte-level read statement (`read_returns_sampled_octet`: exactly eight samples, `data_o` = their
value, first bit most significant) is in `LunaVerif/Lemmas/I2cRead.lean` (audited with this module).
-/
namespace LunaVerif.I2c

/-- States in which the initiator moves SDA while it holds SCL low itself. -/
def sdaSetupState : Fsm → Bool
  | .startSdaH | .stopSdaL | .wrDataSdaX | .wrAckSdaH | .rdDataSdaH | .rdAckSdaX => true
  | _ => false

/-- In every SDA set-up state the initiator is pulling SCL low. -/
def SclLowInSetup (s : State) : Prop := sdaSetupState s.fsm = true → s.sclO = false

theorem sclLowInSetup_step (c : Config) (s : State) (i : In) (h : SclLowInSetup s) :
    SclLowInSetup (step c s i) := by
  unfold SclLowInSetup at *
  cases hf : s.fsm <;> simp only [step, hf, sclL, sclH, stbX, id] <;> (repeat' split) <;>
    simp_all [sdaSetupState]

theorem sclLowInSetup_reachable (c : Config) (h : List In) : SclLowInSetup (stateAfter c init h) := by
  suffices ∀ s, SclLowInSetup s → SclLowInSetup (stateAfter c s h) from
    this init (by simp [SclLowInSetup, init, sdaSetupState])
  induction h with
  | nil => intro s hs; exact hs
  | cons i is ih => intro s hs; exact ih _ (sclLowInSetup_step c s i hs)

theorem sda_change_step (c : Config) (s : State) (i : In) (hinv : SclLowInSetup s)
    (hch : (step c s i).sdaO ≠ s.sdaO) :
    s.sclO = false ∨ (s.fsm = .startSdaL ∧ (step c s i).sdaO = false) ∨
      (s.fsm = .stopSdaH ∧ (step c s i).sdaO = true) := by
  unfold SclLowInSetup at hinv
  cases hf : s.fsm <;> simp only [step, hf, sclL, sclH, stbX, id] at hch ⊢ <;>
    (repeat' split at hch) <;> simp_all [sdaSetupState]

/-- **Safety.**  After ANY history of inputs from reset (operation strobes at any time, any
target behaviour on the SCL/SDA pads), if the initiator's SDA drive changes at the next clock edge
then either the initiator is holding SCL low itself, or the FSM is in `START-SDA-L` and SDA goes
low (a START condition), or it is in `STOP-SDA-H` and SDA is released (a STOP condition). -/
theorem sda_changes_under_scl_high_only_for_start_stop (c : Config) (h : List In) (i : In) :
    let s := stateAfter c init h
    (step c s i).sdaO ≠ s.sdaO →
      s.sclO = false ∨ (s.fsm = .startSdaL ∧ (step c s i).sdaO = false) ∨
        (s.fsm = .stopSdaH ∧ (step c s i).sdaO = true) :=
  fun hch => sda_change_step c _ i (sclLowInSetup_reachable c h) hch

/-- SDA and SCL drives never change at the same clock edge (so an SDA change made while SCL is held
low keeps at least one timer period of set-up before SCL is released, and vice versa). -/
theorem sda_and_scl_never_change_together (c : Config) (s : State) (i : In)
    (hch : (step c s i).sdaO ≠ s.sdaO) : (step c s i).sclO = s.sclO := by
  cases hf : s.fsm <;> simp only [step, hf, sclL, sclH, stbX, id] at hch ⊢ <;>
    (repeat' split at hch) <;> simp_all

def startState : Fsm → Bool
  | .startSclL | .startSdaH | .startSclH | .startSdaL => true
  | _ => false
def stopState : Fsm → Bool
  | .stopSclL | .stopSdaL | .stopSclH | .stopSdaH => true
  | _ => false

/-- … and those two states belong to operations that were requested: the START (STOP) states are
entered only from IDLE in a cycle in which `start` (`stop`, without `start`) is asserted. -/
theorem start_stop_states_only_on_request (c : Config) (s : State) (i : In) :
    (startState (step c s i).fsm = true → startState s.fsm = true ∨ (s.fsm = .idle ∧ i.start = true)) ∧
    (stopState (step c s i).fsm = true →
      stopState s.fsm = true ∨ (s.fsm = .idle ∧ i.start = false ∧ i.stop = true)) := by
  cases hf : s.fsm <;> simp only [step, hf, sclL, sclH, stbX, id] <;> (repeat' split) <;>
    simp_all [startState, stopState]

/-- `busy` low implies the FSM is in IDLE. -/
def BusyInv (s : State) : Prop := s.busy = false → s.fsm = .idle

theorem busyInv_step (c : Config) (s : State) (i : In) (h : BusyInv s) : BusyInv (step c s i) := by
  unfold BusyInv at *
  cases hf : s.fsm <;> simp only [step, hf, sclL, sclH, stbX, id] <;> (repeat' split) <;> simp_all

/-- **busy.**  After any history: `busy` low ⇒ the FSM is in IDLE, and in IDLE every strobe is
accepted in that very cycle (priority start > stop > write > read): the FSM leaves IDLE and `busy`
goes high; without a strobe nothing happens and `busy` is (stays) low. -/
theorem busy_low_iff_accepting (c : Config) (h : List In) (i : In) :
    let s := stateAfter c init h
    (s.busy = false → s.fsm = .idle) ∧
    (s.fsm = .idle → (i.start || i.stop || i.write || i.read) = true →
      (step c s i).fsm ≠ .idle ∧ (step c s i).busy = true) ∧
    (s.fsm = .idle → (i.start || i.stop || i.write || i.read) = false →
      (step c s i).fsm = .idle ∧ (step c s i).busy = false ∧
      (step c s i).sclO = s.sclO ∧ (step c s i).sdaO = s.sdaO) := by
  intro s
  refine ⟨?_, ?_, ?_⟩
  · suffices ∀ s0, BusyInv s0 → BusyInv (stateAfter c s0 h) from this init (by simp [BusyInv, init])
    induction h with
    | nil => intro s0 hs; exact hs
    | cons j js ih => intro s0 hs; exact ih _ (busyInv_step c s0 j hs)
  · intro hf hs
    simp only [step, hf]
    by_cases h1 : i.start = true
    · simp only [h1, if_true]
      (repeat' split) <;> simp
    · by_cases h2 : i.stop = true
      · simp only [h1, h2, if_true]
        (repeat' split) <;> simp
      · by_cases h3 : i.write = true
        · simp [h1, h2, h3]
        · have h4 : i.read = true := by simp_all
          simp [h1, h2, h3, h4]
  · intro hf hs
    simp only [Bool.or_eq_false_iff] at hs
    obtain ⟨⟨⟨h1, h2⟩, h3⟩, h4⟩ := hs
    simp [step, hf, h1, h2, h3, h4]

def sclHighState : Fsm → Bool
  | .startSclH | .stopSclH | .wrDataSclH | .wrAckSclH | .rdDataSclH | .rdAckSclH => true
  | _ => false

theorem step_timer (c : Config) (s : State) (i : In) :
    (step c s i).timer =
      (if s.timer == 0 || !s.busy then (c.period / 4) % 2 ^ timerWidth c.period
       else if !c.clkStretch || (s.sclO == s.sclI) then s.timer - 1 else s.timer) := by
  cases hf : s.fsm <;> simp only [step, hf, sclL, sclH, stbX, id] <;> (repeat' split) <;> simp_all

/-- **Clock stretching.**  With `clk_stretch`, while the initiator has released SCL but the
(synchronised) line is still low, the quarter-period timer is frozen; and an FSM state waiting for
SCL to be high does not advance and changes neither line. -/
theorem stretch_holds_timer (c : Config) (s : State) (i : In) (hc : c.clkStretch = true)
    (hb : s.busy = true) (ht : s.timer ≠ 0) (hm : s.sclO = true) (hl : s.sclI = false) :
    (step c s i).timer = s.timer ∧
    (sclHighState s.fsm = true →
      (step c s i).fsm = s.fsm ∧ (step c s i).sclO = s.sclO ∧ (step c s i).sdaO = s.sdaO) := by
  constructor
  · rw [step_timer]
    simp [ht, hb, hc, hm, hl]
  · intro hs
    have hst : stb s = false := by simp [stb, ht]
    cases hf : s.fsm <;> simp only [step, hf, sclL, sclH, stbX, id] <;> simp_all [sclHighState]

/-- **Read sampling.**  The receive shift register changes only in `READ-DATA-SCL-H`, in a cycle
in which the initiator has SCL released and (with `clk_stretch`) the synchronised SCL line is high;
the bit shifted in is the synchronised SDA line. -/
theorem read_samples_when_scl_high (c : Config) (s : State) (i : In)
    (hch : (step c s i).rShreg ≠ s.rShreg) :
    s.fsm = .rdDataSclH ∧ s.sclO = true ∧ (c.clkStretch = false ∨ s.sclI = true) ∧
    (step c s i).rShreg = (if s.sdaI then 1 else 0) + s.rShreg % 128 * 2 := by
  cases hf : s.fsm <;> simp only [step, hf, sclL, sclH, stbX, id] at hch ⊢ <;>
    (repeat' split at hch) <;> simp_all

/-- One-step facts of the write path (the byte-level statements built on them are in Lemmas/I2cWrite.lean): the data bit is put on
SDA in `WRITE-DATA-SDA-X` (SCL held low) and is bit 7 of the shift register, which was loaded from
`data_i` and moves left once per `WRITE-DATA-SCL-H`; `ack_o` changes only in `WRITE-ACK-SCL-H`
with SCL released (and high), to the complement of the synchronised SDA line. -/
theorem write_and_ack_step_facts (c : Config) (s : State) (i : In) :
    (s.fsm = .idle → i.start = false → i.stop = false → i.write = true →
      (step c s i).wShreg = i.dataI % 256 ∧ (step c s i).fsm = .wrDataSclL) ∧
    (s.fsm = .wrDataSdaX → stb s = true →
      (step c s i).sdaO = (s.wShreg / 128 % 2 == 1) ∧ (step c s i).fsm = .wrDataSclH) ∧
    (s.fsm = .wrDataSclH → (step c s i).fsm = .wrDataSdaN → (step c s i).wShreg = s.wShreg * 2 % 256) ∧
    ((step c s i).ackO ≠ s.ackO →
      s.fsm = .wrAckSclH ∧ s.sclO = true ∧ (c.clkStretch = false ∨ s.sclI = true) ∧
      (step c s i).ackO = !s.sdaI) := by
  refine ⟨?_, ?_, ?_, ?_⟩
  · intro hf h1 h2 h3
    simp [step, hf, h1, h2, h3]
  · intro hf hst
    simp [step, hf, stbX, hst]
  · intro hf
    simp only [step, hf, sclH]
    (repeat' split) <;> simp
  · intro hch
    cases hf : s.fsm <;> simp only [step, hf, sclL, sclH, stbX, id] at hch ⊢ <;>
      (repeat' split at hch) <;> simp_all

/-! ## non-vacuity: a START on an idle bus (period 8: quarter = 2) -/
def idleBus (start : Bool) : In := ⟨true, true, start, false, false, false, 0, false⟩
example : (stateAfter ⟨8, true⟩ init ([idleBus false, idleBus false, idleBus true] ++ List.replicate 2 (idleBus false))).fsm
    = .startSdaL := by decide +kernel
example : (stateAfter ⟨8, true⟩ init ([idleBus false, idleBus false, idleBus true] ++ List.replicate 3 (idleBus false))).sdaO
    = false := by decide +kernel
example : (stateAfter ⟨8, true⟩ init ([idleBus false, idleBus false, idleBus true] ++ List.replicate 3 (idleBus false))).sclO
    = true := by decide +kernel

end LunaVerif.I2c
