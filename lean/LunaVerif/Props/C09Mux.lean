import LunaVerif.Props.C09
import LunaVerif.Lemmas.C09Mux
/-!
# C09 — `GetDescriptorHandlerMux` (block-ROM handler for the fixed descriptors + distributed handler
for the runtime descriptors, as `StandardRequestHandler.get_descriptor_handler_submodule` builds it)

The request is served by exactly the handler that owns the descriptor, the mux's answer is that
handler's answer, and the mux STALLs iff both handlers do — from *any* value of the stall latches
(they may still describe the previous request; the repaired code masks them with `~start`).
-/
namespace LunaVerif.Desc

/-- the distributed handler over runtime descriptors (opaque generators: no fixed length known to
the handler, so no ZLP path — the generator is `USBDescriptorStreamGenerator(bytes)`). -/
def distRuntimeOf (coll : Collection) (mps : Nat) : Dist.Config :=
  ⟨coll.map (fun d => ⟨key d, ⟨d.bytes⟩, none⟩), mps⟩

/-- the mux `get_descriptor_handler_submodule` builds: handler 0 = block(fixed), handler 1 = distributed(runtime). -/
def muxOf (fixed runtime : Collection) (mps : Nat) : Mux.Config := ⟨blockOf fixed mps, distRuntimeOf runtime mps⟩

/-- **dist_runtime_packet_exact**: the distributed handler over runtime descriptors, a request
strictly inside the descriptor (`p < min wLength |d|` — a runtime generator cannot be asked for the
position equal to its length, see ASSUMPTIONS) or for an absent descriptor. -/
theorem dist_runtime_packet_exact (coll : Collection) (mps : Nat) (s0 : Dist.State)
    (ty idx l p : Nat) (rs : List Bool)
    (hm : mps = 8 ∨ mps = 16 ∨ mps = 32 ∨ mps = 64)
    (hwf : ∀ d ∈ coll, d.idx < 256)
    (hidx : idx < 256) (hl : l < 65536)
    (h0 : Dist.Quiescent (distRuntimeOf coll mps) s0)
    (hp : ∀ d, descrBytes coll ty idx = some d → p < min l d.length) :
    Dist.run (distRuntimeOf coll mps) s0 (Dist.reqInputs (ty * 256 + idx) l p rs)
      = respTrace (if (descrBytes coll ty idx).isSome then 2 else 0)
          (specResponse (descrBytes coll ty idx) l mps p) rs := by
  have hmps : 0 < mps ∧ mps < 65536 := by omega
  obtain ⟨hz, hlen, hall⟩ := h0
  unfold descrBytes at hp ⊢
  cases hf : find? coll ty idx with
  | some d =>
    have hlt := hp d.bytes (by rw [hf]; rfl)
    obtain ⟨j, hj, hP, hbefore⟩ := find_index coll _ d hf
    have hkey : key d = ty * 256 + idx := by
      simp only [Bool.and_eq_true, beq_iff_eq] at hP
      unfold key; rw [hP.1, hP.2]
    let e : Dist.Entry := ⟨key d, ⟨d.bytes⟩, none⟩
    have hs : Dist.Selects (distRuntimeOf coll mps) (ty * 256 + idx) j e := by
      refine ⟨?_, hkey, ?_⟩
      · show (coll.map _)[j]? = _
        rw [List.getElem?_map, hj]; rfl
      · intro k e' hk hget
        have hget' : (coll.map (fun d => (⟨key d, ⟨d.bytes⟩, none⟩ : Dist.Entry)))[k]? = some e' := hget
        rw [List.getElem?_map] at hget'
        cases hck : coll[k]? with
        | none => rw [hck] at hget'; simp at hget'
        | some d' =>
          rw [hck] at hget'
          simp only [Option.map_some, Option.some.injEq] at hget'
          subst hget'
          exact key_ne_of_not_match d' ty idx hidx (hwf d' (List.mem_of_getElem? hck)) (hbefore k d' hk hck)
    have hjlt : j < s0.gens.length := by
      rw [hlen]; show j < (coll.map _).length
      rw [List.length_map]
      exact (List.getElem?_eq_some_iff.mp hj).1
    obtain ⟨⟨g0, sr⟩, hg⟩ : ∃ g, s0.gens[j]? = some g := ⟨s0.gens[j], List.getElem?_eq_getElem hjlt⟩
    obtain ⟨hgi, hsr⟩ := hall (g0, sr) (List.mem_of_getElem? hg)
    simp only at hgi hsr
    subst hsr
    have hv : Dist.View s0 j g0 false false := ⟨hg, hz⟩
    simp only [Option.map_some, specResponse, Option.isSome_some, if_true]
    rw [if_pos hlt]
    exact Dist.dist_data (distRuntimeOf coll mps) s0 g0 _ l p j e hs hv hgi
      (fun n hn => by simp [e] at hn) hmps.1 hmps.2 hl hlt rs
  | none =>
    simp only [Option.map_none, specResponse, Option.isSome_none, Bool.false_eq_true, if_false]
    apply Dist.dist_stall _ _ _ _ _ _ hz
    intro e' he'
    have he'' : e' ∈ coll.map (fun d => (⟨key d, ⟨d.bytes⟩, none⟩ : Dist.Entry)) := he'
    rw [List.mem_map] at he''
    obtain ⟨d', hd', rfl⟩ := he''
    have := List.find?_eq_none.mp hf d' hd'
    exact key_ne_of_not_match d' ty idx hidx (hwf d' hd') (by simpa using this)

theorem descrBytes_append (a b : Collection) (ty idx : Nat) :
    descrBytes (a ++ b) ty idx = (descrBytes a ty idx).or (descrBytes b ty idx) := by
  unfold descrBytes find?
  rw [List.find?_append]
  cases List.find? (fun d => d.ty == ty && d.idx == idx) a <;> simp

theorem specResponse_some_ne_stall (d : List Nat) (l mps p : Nat) : specResponse (some d) l mps p ≠ .stall := by
  unfold specResponse
  simp only
  split <;> simp

/-- **mux_packet_exact**: `GetDescriptorHandlerMux` over the block handler for the well-formed
collection `fixed` and the distributed handler for the runtime collection `runtime`, no (type, index)
in both.  From any state in which both handlers are idle and for **any** value of the two stall
latches, for every `tx.ready` pattern, an in-order request is answered with the abstract transmitter's
trace of `specResponse` for the descriptor in `fixed ++ runtime`: the answer of the handler that owns
the descriptor (the other one's STALL is swallowed), and a single STALL pulse — in the cycle the
second handler stalls — iff neither owns it. -/
theorem mux_packet_exact (fixed runtime : Collection) (mps : Nat) (s0 : Mux.State)
    (ty idx l p : Nat) (rs : List Bool)
    (hwf : wellFormed fixed = true)
    (hm : mps = 8 ∨ mps = 16 ∨ mps = 32 ∨ mps = 64)
    (hpw : 2 ≤ (Rom.layout fixed).maxLen)
    (hty : ty < 256) (hidx : idx < 256) (hl : l < 65536)
    (hrt : ∀ d ∈ runtime, d.idx < 256)
    (hdisj : descrBytes fixed ty idx = none ∨ descrBytes runtime ty idx = none)
    (h0b : s0.b.fsm = .idle) (h0d : Dist.Quiescent (distRuntimeOf runtime mps) s0.d)
    (hpf : ∀ d, descrBytes fixed ty idx = some d → p ≤ min l d.length)
    (hpr : ∀ d, descrBytes runtime ty idx = some d → p < min l d.length) :
    ∃ lat, 1 ≤ lat ∧ lat ≤ 4 ∧
      Mux.run (muxOf fixed runtime mps) s0 (Block.reqInputs (ty * 256 + idx) l p rs)
        = respTrace lat (specResponse (descrBytes (fixed ++ runtime) ty idx) l mps p) rs := by
  cases rs with
  | nil => exact ⟨1, by omega, by omega, rfl⟩
  | cons r rs =>
    obtain ⟨latB, hB1, hB4, hB⟩ := block_packet_exact fixed mps s0.b ty idx l p (r :: rs) hwf hm hpw hty hidx hl h0b hpf
    have hD := dist_runtime_packet_exact runtime mps s0.d ty idx l p (r :: rs) hm hrt hidx hl h0d hpr
    obtain ⟨n, rfl⟩ : ∃ n, latB = n + 1 := ⟨latB - 1, by omega⟩
    rw [Mux.run_eq, Mux.toDist_reqInputs, Mux.start_reqInputs]
    show ∃ lat, 1 ≤ lat ∧ lat ≤ 4 ∧ Mux.muxTrace (Block.run (blockOf fixed mps) s0.b _)
      (Dist.run (distRuntimeOf runtime mps) s0.d _) _ s0.latch0 s0.latch1 = _
    rw [hB, hD, descrBytes_append]
    cases hf : descrBytes fixed ty idx with
    | some d =>
      have hr : descrBytes runtime ty idx = none := by
        rcases hdisj with h | h
        · rw [hf] at h; simp at h
        · exact h
      rw [hr]
      simp only [Option.isSome_none, Bool.false_eq_true, if_false]
      refine ⟨n + 1, hB1, hB4, ?_⟩
      rw [show specResponse none l mps p = .stall from rfl]
      exact Mux.mux_owner0 n _ (specResponse_some_ne_stall d l mps p) r rs _ _
    | none =>
      cases hr : descrBytes runtime ty idx with
      | some d =>
        simp only [Option.isSome_some, if_true, Option.none_or]
        refine ⟨2, by omega, by omega, ?_⟩
        rw [show specResponse none l mps p = .stall from rfl]
        exact Mux.mux_owner1 n 1 _ (specResponse_some_ne_stall d l mps p) r rs _ _
      | none =>
        simp only [Option.isSome_none, Bool.false_eq_true, if_false, Option.or_none]
        refine ⟨n + 1, hB1, hB4, ?_⟩
        rw [show specResponse none l mps p = .stall from rfl]
        exact Mux.mux_nobody n r rs _ _

/-- **stall iff both stall**: the mux's answer is a STALL exactly when neither handler owns the
descriptor, and then `valid` is never raised. -/
theorem mux_stall_iff_absent (fixed runtime : Collection) (ty idx l mps p : Nat) :
    specResponse (descrBytes (fixed ++ runtime) ty idx) l mps p = .stall
      ↔ (descrBytes fixed ty idx = none ∧ descrBytes runtime ty idx = none) := by
  rw [descrBytes_append]
  cases hf : descrBytes fixed ty idx with
  | some d => simp [specResponse_some_ne_stall]
  | none =>
    cases hr : descrBytes runtime ty idx with
    | some d => simp [specResponse_some_ne_stall]
    | none => simp [specResponse]

/-! ## Non-vacuity -/

theorem Dist.quiescent_init (c : Dist.Config) : Dist.Quiescent c (Dist.init c) := by
  refine ⟨rfl, by simp [Dist.init], ?_⟩
  intro g hg
  simp only [Dist.init, List.mem_map] at hg
  obtain ⟨_, _, rfl⟩ := hg
  exact ⟨rfl, rfl⟩

/-- a runtime string descriptor (index 0xEE, 5 bytes — not a multiple of a packet size). -/
def sampleRuntime : Collection := [⟨3, 0xEE, [5, 3, 88, 0, 89]⟩]

-- hypotheses of `mux_packet_exact` on (sample, sampleRuntime): no key in both, both owners occur
example : (∀ ty ∈ List.range 5, ∀ idx ∈ [0, 1, 0xEE, 0xFE],
      descrBytes sample ty idx = none ∨ descrBytes sampleRuntime ty idx = none)
    ∧ (descrBytes sample 3 0xEE = none ∧ (descrBytes sampleRuntime 3 0xEE).isSome)
    ∧ ((descrBytes sample 3 0xFE).isSome ∧ descrBytes sampleRuntime 3 0xFE = none) := by decide +kernel
-- owner = runtime handler, with both stall latches left set by "the previous request"
set_option maxRecDepth 100000 in
example : Mux.run (muxOf sample sampleRuntime 8) ⟨Block.init, Dist.init (distRuntimeOf sampleRuntime 8), true, true⟩
      (Block.reqInputs (3 * 256 + 0xEE) 255 0 [true, true, false, true, true, true, true, true, true])
    = respTrace 2 (.data [5, 3, 88, 0, 89]) [true, true, false, true, true, true, true, true, true] := by
  decide +kernel
-- owner = block handler
set_option maxRecDepth 100000 in
example : Mux.run (muxOf sample sampleRuntime 8) (Mux.init (muxOf sample sampleRuntime 8))
      (Block.reqInputs (3 * 256 + 0) 2 0 [true, true, false, true, true, true, true, true, true])
    = respTrace 4 (.data [4, 3]) [true, true, false, true, true, true, true, true, true] := by
  decide +kernel
-- owner = nobody: one STALL pulse when the block handler has finished its lookup
set_option maxRecDepth 100000 in
example : Mux.run (muxOf sample sampleRuntime 8) (Mux.init (muxOf sample sampleRuntime 8))
      (Block.reqInputs (3 * 256 + 7) 255 0 [true, true, true, true, true])
    = respTrace 2 .stall [true, true, true, true, true] := by
  decide +kernel

end LunaVerif.Desc
