import LunaVerif.Props.C13Stream
/-!
# C13 — the handshakes at history level
-/
namespace LunaVerif.StreamOutEndpoint
open LunaVerif

/-- some cycle of the run from `s` loses a byte (`data_is_lost`: a byte of a packet with the expected toggle
addressed to the endpoint is presented while the FIFO is full) -/
def anyLost (c : Config) : State → List In → Bool
  | _, [] => false
  | s, i :: is => (comb c s i).dataIsLost || anyLost c (step c s i).1 is

theorem anyLost_append (c : Config) (s : State) (xs ys : List In) :
    anyLost c s (xs ++ ys) = (anyLost c s xs || anyLost c (runState c s xs) ys) := by
  induction xs generalizing s with
  | nil => simp [anyLost, runState]
  | cons x xs ih => simp [anyLost, runState, ih, Bool.or_assoc]

/-- Without a new token the overflow flag is the OR of the bytes lost so far. -/
theorem overflow_run (c : Config) (s : State) (ins : List In) (hn : ∀ i ∈ ins, i.tokNew = false) :
    (runState c s ins).overflow = (s.overflow || anyLost c s ins) := by
  induction ins generalizing s with
  | nil => simp [runState, anyLost]
  | cons i is ih =>
    have h1 := hn i (by simp)
    rw [runState, ih _ (fun j hj => hn j (by simp [hj]))]
    simp only [step, h1, anyLost]
    cases (comb c s i).dataIsLost <;> cases s.overflow <;> simp

/-- the phase and state reached after a legal history (from reset) are related by `Sim` -/
theorem sim_after {c : Config} (hmps : 1 ≤ c.mps) {ins : List In} {p : Phase}
    (h : Phase.run c .idle ins = some p) :
    ∃ w del, Sim c p (runState c init ins) w del ∧
      w.a = acctRun c Acct.init .idle ins (runOuts c init ins) := by
  obtain ⟨w', hsim, _, ha⟩ := sim_run hmps ins (sim_init c) h
  exact ⟨w', _, hsim, ha⟩

theorem run_append {c : Config} {p p' : Phase} {xs ys : List In} (h : Phase.run c p xs = some p') :
    Phase.run c p (xs ++ ys) = Phase.run c p' ys := by
  induction xs generalizing p with
  | nil => simp only [Phase.run, Option.some.injEq] at h; subst h; rfl
  | cons x xs ih =>
    simp only [Phase.run, List.cons_append] at h ⊢
    cases hs : p.step c x with
    | none => simp [hs] at h
    | some p1 => simp only [hs] at h ⊢; exact ih h

theorem runState_append (c : Config) (s : State) (xs ys : List In) :
    runState c s (xs ++ ys) = runState c (runState c s xs) ys := by
  induction xs generalizing s with
  | nil => rfl
  | cons x xs ih => simp [runState, ih]

/-- facts about a response cycle for a packet addressed to the endpoint -/
theorem answered_inv {c : Config} {pk p' : Phase} {i : In} {pid : Nat} {bytes : List Nat} {s : State} {w : WState}
    {del : List Entry} (hsim : Sim c pk s w del) (hs : pk.step c i = some p')
    (ha : pk.answered c i = some (pid, bytes)) :
    (comb c s i).dataRequested = true ∧ (comb c s i).pingRequested = false ∧ i.pidToggle = pid := by
  have hinv := hsim.inv
  cases pk with
  | idle => simp [Phase.answered] at ha
  | tok t => simp [Phase.answered] at ha
  | rx t pid sent now buf => simp [Phase.answered] at ha
  | finByte t pid' sent now ok =>
    obtain ⟨hst, _⟩ := step_finByte_inv hs
    obtain ⟨htok, hpid, _, _⟩ := stable_inv hst
    have hwf : t.wf = true := hinv.2.1.1
    simp only [Phase.answered] at ha
    split at ha
    · rename_i hc
      simp only [Bool.and_eq_true] at hc
      obtain ⟨hping, _⟩ := targets_not_ping hwf hc.2
      simp only [Option.some.injEq, Prod.mk.injEq] at ha
      rw [comb_eq, combG_tok htok hpid]
      simp [hc.1, hc.2, hping, ← ha.1, hpid]
    · simp at ha
  | finStrobe t pid' bytes' ok responded =>
    obtain ⟨hst, _⟩ := step_finStrobe_inv hs
    obtain ⟨htok, hpid, _, _⟩ := stable_inv hst
    have hwf : t.wf = true := hinv.2.1
    simp only [Phase.answered] at ha
    split at ha
    · rename_i hc
      simp only [Bool.and_eq_true] at hc
      obtain ⟨hping, _⟩ := targets_not_ping hwf hc.2
      simp only [Option.some.injEq, Prod.mk.injEq] at ha
      rw [comb_eq, combG_tok htok hpid]
      simp [hc.1, hc.2, hping, ← ha.1, hpid]
    · simp at ha
  | finWait t pid' bytes' =>
    obtain ⟨hst, _⟩ := step_finWait_inv hs
    obtain ⟨htok, hpid, _, _⟩ := stable_inv hst
    have hwf : t.wf = true := hinv.2.1
    simp only [Phase.answered] at ha
    split at ha
    · rename_i hc
      simp only [Bool.and_eq_true] at hc
      obtain ⟨hping, _⟩ := targets_not_ping hwf hc.2
      simp only [Option.some.injEq, Prod.mk.injEq] at ha
      rw [comb_eq, combG_tok htok hpid]
      simp [hc.1, hc.2, hping, ← ha.1, hpid]
    · simp at ha

/-- **nak_iff_cannot_take** (history level).  Let `pre` be any accepted history after which the host has sent
a token (phase `tok`), `mid` the following cycles up to the response request — the data packet, with no
further token — and `i` the cycle in which the response to a packet addressed to the endpoint is requested.
The endpoint answers NAK iff the packet carries the expected data toggle and some byte of it was presented
while the FIFO was full (the packet did not fit); otherwise it answers ACK. -/
theorem nak_iff_cannot_take (c : Config) (hmps : 1 ≤ c.mps) (pre mid : List In) (i : In) (t : Tok) (pk p' : Phase)
    (pid : Nat) (bytes : List Nat)
    (h1 : Phase.run c .idle pre = some (.tok t)) (h2 : Phase.run c (.tok t) mid = some pk)
    (hnt : ∀ j ∈ mid, j.tokNew = false) (h3 : pk.step c i = some p')
    (h4 : pk.answered c i = some (pid, bytes)) :
    let s0 := runState c init pre
    let s := runState c s0 mid
    ((outOf c s i).nak = true ↔ (pid = tn s.expectedToggle ∧ anyLost c s0 (mid ++ [i]) = true)) ∧
    ((outOf c s i).ack = true ↔ ¬(pid = tn s.expectedToggle ∧ anyLost c s0 (mid ++ [i]) = true)) := by
  intro s0 s
  -- the overflow flag is clear after the token
  obtain ⟨w0, _, hsim0, _⟩ := sim_after hmps h1
  have hovf0 : s0.overflow = false := by
    have := hsim0.inv.2.2.2.2.2.1
    have hr := hsim0.regs
    rw [← hr] at this; exact this
  -- the state at the response request
  have hrun : Phase.run c .idle (pre ++ mid) = some pk := by rw [run_append h1]; exact h2
  obtain ⟨w, _, hsim, _⟩ := sim_after hmps hrun
  rw [runState_append] at hsim
  obtain ⟨hd, hp, hpid⟩ := answered_inv hsim h3 h4
  have hovf : s.overflow = anyLost c s0 mid := by
    have := overflow_run c s0 mid hnt
    rw [hovf0] at this; simpa using this
  have hlost : anyLost c s0 (mid ++ [i]) = (s.overflow || (comb c s i).dataIsLost) := by
    rw [anyLost_append, hovf]; simp [anyLost]; rfl
  have hm : (comb c s i).pidMatch = true ↔ pid = tn s.expectedToggle := by
    simp only [comb, ← hpid, tn, beq_iff_eq]
  have hnak := nak_iff_cannot_take_partial c s i hd hp
  have hex : (outOf c s i).ack = !(outOf c s i).nak := by
    simp only [outOf, comb] at hd hp ⊢
    grind
  refine ⟨?_, ?_⟩
  · rw [hnak, hm, hlost]; simp
  · rw [hex, Bool.not_eq_true', ← Bool.not_eq_true, hnak, hm, hlost]; simp

example :
    let c : Config := ⟨2, 4, 7⟩
    let idl := idleIn 2 1 false
    let pre := outPacket 2 0 false [11, 12, 13, 14] 10 ++ [{ idl with tokNew := true }]
    let mid := [idl] ++ [21, 22, 23, 24].map (fun b => { idl with rx := ⟨true, true, b, false, false⟩ }) ++
      [{ idl with rx := ⟨true, false, 0, false, false⟩ }, { idl with rx := ⟨false, false, 0, true, false⟩ }] ++
      List.replicate 9 idl
    let i := { idl with rxReady := true }
    Phase.run c .idle pre = some (.tok ⟨2, true, false⟩) ∧
    Phase.run c (.tok ⟨2, true, false⟩) mid = some (.finWait ⟨2, true, false⟩ 1 [21, 22, 23, 24]) ∧
    mid.all (fun j => !j.tokNew) = true ∧
    (Phase.finWait ⟨2, true, false⟩ 1 [21, 22, 23, 24]).step c i = some .idle ∧
    (Phase.finWait ⟨2, true, false⟩ 1 [21, 22, 23, 24]).answered c i = some (1, [21, 22, 23, 24]) ∧
    anyLost c (runState c init pre) (mid ++ [i]) = true ∧
    (outOf c (runState c (runState c init pre) mid) i).nak = true := by decide +kernel

/-! ## Toggles and delivery -/

theorem runOuts_append (c : Config) (s : State) (xs ys : List In) :
    runOuts c s (xs ++ ys) = runOuts c s xs ++ runOuts c (runState c s xs) ys := by
  induction xs generalizing s with
  | nil => rfl
  | cons x xs ih => simp [runOuts, runState, ih]

theorem runOuts_length (c : Config) (s : State) (xs : List In) : (runOuts c s xs).length = xs.length := by
  induction xs generalizing s with
  | nil => rfl
  | cons x xs ih => simp [runOuts, ih]

theorem expected_append (c : Config) (a : Acct) (p p' : Phase) (xs ys : List In) (ox oy : List Out)
    (hlen : ox.length = xs.length) (h : Phase.run c p xs = some p') :
    expected c a p (xs ++ ys) (ox ++ oy) = expected c a p xs ox ++ expected c (acctRun c a p xs ox) p' ys oy := by
  induction xs generalizing a p ox with
  | nil =>
    simp only [Phase.run, Option.some.injEq] at h; subst h
    cases ox with
    | nil => simp [expected, acctRun]
    | cons o os => simp at hlen
  | cons x xs ih =>
    cases ox with
    | nil => simp at hlen
    | cons o os =>
      simp only [Phase.run] at h
      cases hs : p.step c x with
      | none => simp [hs] at h
      | some p1 =>
        simp only [hs] at h
        simp only [List.cons_append, expected, acctRun, hs, List.append_assoc]
        rw [ih _ _ _ (by simpa using hlen) h]

/-- **out_toggle_tracks_observer**: after every accepted history the endpoint's expected data toggle is the
one the host-side observer computes from the ACKs (it advances exactly on ACKed packets carrying the
expected toggle and is reset by ClearFeature(HALT)). -/
theorem out_toggle_tracks_observer (c : Config) (hmps : 1 ≤ c.mps) (ins : List In) (p : Phase)
    (h : Phase.run c .idle ins = some p) :
    (runState c init ins).expectedToggle = (acctRun c Acct.init .idle ins (runOuts c init ins)).toggle := by
  obtain ⟨w, _, hsim, ha⟩ := sim_after hmps h
  have h1 := hsim.inv.1
  have h2 := hsim.regs
  rw [← ha, ← h1, ← h2]; rfl

/-- **ack_implies_delivered_or_repeat** (history level).  If, in a `LegalHost` history, the response to a
data packet addressed to the endpoint is ACK, then either the packet does not carry the toggle the endpoint
expects (a retransmission whose ACK the host missed: nothing is written, `okay_to_receive` is low) or its
payload, with marks, is a contiguous part of what the consumer receives (transfers so far followed by the
committed entries waiting in the FIFO). -/
theorem ack_implies_delivered_or_repeat (c : Config) (hmps : 1 ≤ c.mps) (pre : List In) (i : In) (post : List In)
    (pk : Phase) (pid : Nat) (bytes : List Nat)
    (hl : LegalHost c (pre ++ i :: post) = true) (hpre : Phase.run c .idle pre = some pk)
    (h4 : pk.answered c i = some (pid, bytes))
    (hack : (outOf c (runState c init pre) i).ack = true) :
    let ins := pre ++ i :: post
    let a := acctRun c Acct.init .idle pre (runOuts c init pre)
    pid ≠ tn (runState c init pre).expectedToggle ∨
    ∃ q : TxnFifo.Queue Nat, TxnFifo.Rel c.depth (runState c init ins).fifo q ∧
      ∃ A B, transfers ins (runOuts c init ins) ++ q.C.map dec = A ++ pktEntries c a.open_ bytes ++ B := by
  intro ins a
  by_cases hm : pid = tn (runState c init pre).expectedToggle
  · right
    obtain ⟨q, hrel, hq⟩ := out_stream_exact c hmps ins hl
    refine ⟨q, hrel, ?_⟩
    rw [hq]
    have htog := out_toggle_tracks_observer c hmps pre pk hpre
    have hstep : ∃ p1, pk.step c i = some p1 := by
      simp only [LegalHost, run_append hpre, Phase.run] at hl
      cases hs : pk.step c i with
      | none => simp [hs] at hl
      | some p1 => exact ⟨p1, rfl⟩
    obtain ⟨p1, hs⟩ := hstep
    have hth : ((step c (runState c init pre) i).2.ack &&
        pid == tn (acctRun c Acct.init .idle pre (runOuts c init pre)).toggle) = true := by
      have h' : (step c (runState c init pre) i).2.ack = true := hack
      rw [h', ← htog, hm]; simp
    have key : ∃ R, expected c Acct.init .idle ins (runOuts c init ins)
        = expected c Acct.init .idle pre (runOuts c init pre) ++ (pktEntries c a.open_ bytes ++ R) := by
      refine ⟨?_, ?_⟩
      rotate_left
      · simp only [ins, runOuts_append]
        rw [expected_append c _ _ _ _ _ _ _ (runOuts_length c init pre) hpre]
        simp only [runOuts, expected, hs, Acct.step, h4, hth, if_true]
        rfl
    obtain ⟨R, key⟩ := key
    exact ⟨_, R, by rw [key, List.append_assoc]⟩
  · left; exact hm

end LunaVerif.StreamOutEndpoint
