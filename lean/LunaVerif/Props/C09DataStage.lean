import LunaVerif.Props.C09Seq
/-!
# C09 — the whole data stage on the handler models

The host reads the data stage in order: the `k`-th IN starts the handler at `start_position = k·mps`
(`stageReqs`), one request per packet of the specification's `dataStage`.  Composition of the
per-request theorems, return-to-idle and `dataStage`: the model's output is the packets of
`dataStage d wLength mps` — full packets, the short packet or the trailing ZLP — one after the other.
-/
namespace LunaVerif.Desc

/-- the output trace consists of the given responses, in order, each over its window of cycles. -/
def Answers (L : Nat) : List (Response × List Bool) → List Beat → Prop
  | [], out => out = []
  | (r, rs) :: t, out => ∃ lat, lat ≤ L ∧ ∃ rest, out = respTrace lat r rs ++ rest ∧ Answers L t rest

theorem answers_of_all (spec : Req → Response) (L : Nat) (qs : List Req) : ∀ out,
    AnswersAll spec L qs out → Answers L (qs.map (fun q => (spec q, q.rs))) out := by
  induction qs with
  | nil => intro out h; exact h
  | cons q qs ih =>
    intro out ⟨lat, hlat, rest, h1, h2⟩
    exact ⟨lat, hlat, rest, h1, ih rest h2⟩

/-- the host's in-order requests from the `k`-th IN on, one per window. -/
def stageReqs (ty idx l mps : Nat) : Nat → List (List Bool) → List Req
  | _, [] => []
  | k, rs :: ws => ⟨ty, idx, l, k * mps, rs⟩ :: stageReqs ty idx l mps (k + 1) ws

theorem stageReqs_mem (ty idx l mps : Nat) (ws : List (List Bool)) : ∀ k, ∀ q ∈ stageReqs ty idx l mps k ws,
    q.ty = ty ∧ q.idx = idx ∧ q.l = l ∧ ∃ j, k ≤ j ∧ j < k + ws.length ∧ q.p = j * mps := by
  induction ws with
  | nil => intro k q hq; simp [stageReqs] at hq
  | cons rs ws ih =>
    intro k q hq
    simp only [stageReqs, List.mem_cons] at hq
    rcases hq with rfl | hq
    · exact ⟨rfl, rfl, rfl, k, by omega, by simp, rfl⟩
    · obtain ⟨h1, h2, h3, j, h4, h5, h6⟩ := ih (k + 1) q hq
      exact ⟨h1, h2, h3, j, by omega, by simp only [List.length_cons]; omega, h6⟩

theorem stageReqs_map (ty idx l mps : Nat) (f : Nat → Response) (ws : List (List Bool)) : ∀ k,
    (stageReqs ty idx l mps k ws).map (fun q => (f q.p, q.rs))
      = ((List.range' k ws.length).map (fun j => f (j * mps))).zip ws := by
  induction ws with
  | nil => intro k; rfl
  | cons rs ws ih =>
    intro k
    simp only [stageReqs, List.map_cons, List.length_cons, List.range'_succ, List.zip_cons_cons, ih]

/-- the in-order offsets of the data stage and what the specification answers at each. -/
theorem stage_specs (d : List Nat) (l mps : Nat) (hm : mps = 8 ∨ mps = 16 ∨ mps = 32 ∨ mps = 64)
    (hl : 0 < l) (hd : 0 < d.length) :
    (∀ j, j < (dataStage d l mps).length → j * mps ≤ min l d.length ∧ j * mps < l)
    ∧ (List.range' 0 (dataStage d l mps).length).map (fun j => specResponse (some d) l mps (j * mps))
        = (dataStage d l mps).map Response.ofPacket := by
  have hmp : 0 < mps := by omega
  have hlen : (dataStage d l mps).length
      = (min l d.length + mps - 1) / mps
        + (if min l d.length ≠ 0 ∧ min l d.length % mps = 0 ∧ min l d.length < l then 1 else 0) := by
    unfold dataStage
    simp only [List.length_append, List.length_map, List.length_range]
    split <;> simp
  constructor
  · intro j hj
    rw [hlen] at hj
    split at hj
    · rename_i hz
      rcases hm with rfl | rfl | rfl | rfl <;> omega
    · rename_i hz
      rcases hm with rfl | rfl | rfl | rfl <;> omega
  · rw [dataStage_map, hlen]
    split
    · rename_i hz
      rw [List.range'_concat, List.map_append]
      congr 1
      · rw [List.map_map]
        apply List.map_congr_left
        intro j hj
        rw [List.mem_range'_1] at hj
        have hlt : j * mps < min l d.length := by rcases hm with rfl | rfl | rfl | rfl <;> omega
        simp only [Function.comp]
        rw [specResponse_lt _ _ _ _ hlt, ofPacket_packetAt _ _ _ _ hlt hmp]
      · unfold zlpPart
        rw [if_pos hz]
        simp only [List.map_cons, List.map_nil, Nat.zero_add, Nat.one_mul]
        rw [specResponse_ge]
        rcases hm with rfl | rfl | rfl | rfl <;> omega
    · rename_i hz
      unfold zlpPart
      rw [if_neg hz, List.append_nil, Nat.add_zero, List.map_map]
      apply List.map_congr_left
      intro j hj
      rw [List.mem_range'_1] at hj
      have hlt : j * mps < min l d.length := by rcases hm with rfl | rfl | rfl | rfl <;> omega
      simp only [Function.comp]
      rw [specResponse_lt _ _ _ _ hlt, ofPacket_packetAt _ _ _ _ hlt hmp]

theorem descrBytes_pos (coll : Collection) (hwf : wellFormed coll = true) (ty idx : Nat) (d : List Nat)
    (h : descrBytes coll ty idx = some d) : 0 < d.length := by
  unfold descrBytes at h
  cases hf : find? coll ty idx with
  | none => rw [hf] at h; simp at h
  | some D =>
    rw [hf] at h
    simp only [Option.map_some, Option.some.injEq] at h
    subst h
    exact (WF.of_wellFormed coll hwf).bne D (Rom.find?_some coll ty idx D hf).1

/-- **block_datastage_exact**: the whole data stage of GET_DESCRIPTOR(ty, idx, wLength = l) for a
descriptor `d` of a well-formed collection on the block handler model: the host's in-order read (one
request per packet of `dataStage d l mps`, at `start_position = k·mps`, each with a window in which
the response is over) produces exactly the packets of `dataStage d l mps` — the first
`min l |d|` bytes in max-packet-size pieces, ending with the short packet or the ZLP —
one after the other, and leaves the handler idle. -/
theorem block_datastage_exact (coll : Collection) (mps : Nat)
    (hwf : wellFormed coll = true)
    (hm : mps = 8 ∨ mps = 16 ∨ mps = 32 ∨ mps = 64)
    (hpw : 2 ≤ (Rom.layout coll).maxLen)
    (ty idx l : Nat) (hty : ty < 256) (hidx : idx < 256) (hl0 : 0 < l) (hl : l < 65536)
    (d : List Nat) (hd : descrBytes coll ty idx = some d)
    (ws : List (List Bool)) (hn : ws.length = (dataStage d l mps).length)
    (hwin : ∀ q ∈ stageReqs ty idx l mps 0 ws, Complete 4 (specResponse (some d) l mps q.p) q.rs)
    (s0 : Block.State) (h0 : s0.fsm = .idle) :
    Answers 4 (((dataStage d l mps).map Response.ofPacket).zip ws)
      (Block.run (blockOf coll mps) s0
        ((stageReqs ty idx l mps 0 ws).flatMap (fun q => Block.reqInputs (q.ty * 256 + q.idx) q.l q.p q.rs)))
    ∧ (Block.final (blockOf coll mps) s0
        ((stageReqs ty idx l mps 0 ws).flatMap (fun q => Block.reqInputs (q.ty * 256 + q.idx) q.l q.p q.rs))).fsm
        = .idle := by
  obtain ⟨hoff, hspecs⟩ := stage_specs d l mps hm hl0 (descrBytes_pos coll hwf ty idx d hd)
  have hok : ∀ q ∈ stageReqs ty idx l mps 0 ws, BlockOk coll mps q := by
    intro q hq
    obtain ⟨rfl, rfl, rfl, j, _, hj, hp⟩ := stageReqs_mem ty idx l mps ws 0 q hq
    have := hoff j (by omega)
    refine ⟨hty, hidx, hl, ?_, ?_⟩
    · intro d' hd'; rw [hd] at hd'; injection hd' with hd'; subst hd'; rw [hp]; exact this.1
    · rw [hd]; exact hwin q hq
  obtain ⟨ha, hf⟩ := block_requests_exact coll mps hwf hm hpw _ s0 h0 hok
  refine ⟨?_, hf⟩
  have h1 := answers_of_all _ 4 _ _ ha
  have h2 : (stageReqs ty idx l mps 0 ws).map
      (fun q => (specResponse (descrBytes coll q.ty q.idx) q.l mps q.p, q.rs))
      = (stageReqs ty idx l mps 0 ws).map (fun q => (specResponse (some d) l mps q.p, q.rs)) := by
    apply List.map_congr_left
    intro q hq
    obtain ⟨rfl, rfl, rfl, _⟩ := stageReqs_mem ty idx l mps ws 0 q hq
    rw [hd]
  rw [h2, stageReqs_map ty idx l mps (fun p => specResponse (some d) l mps p), hn, hspecs] at h1
  exact h1

/-- **dist_datastage_exact**: the same on the distributed (block-RAM-free) handler model. -/
theorem dist_datastage_exact (coll : Collection) (mps : Nat)
    (hm : mps = 8 ∨ mps = 16 ∨ mps = 32 ∨ mps = 64)
    (hwf : ∀ d ∈ coll, d.idx < 256) (hnd : (coll.map key).Nodup)
    (ty idx l : Nat) (hidx : idx < 256) (hl0 : 0 < l) (hl : l < 65536)
    (d : List Nat) (hd : descrBytes coll ty idx = some d) (hdpos : 0 < d.length)
    (ws : List (List Bool)) (hn : ws.length = (dataStage d l mps).length)
    (hwin : ∀ q ∈ stageReqs ty idx l mps 0 ws, Complete 2 (specResponse (some d) l mps q.p) q.rs.dropLast)
    (s0 : Dist.State) (h0 : Dist.Quiescent (distOf coll mps) s0) :
    Answers 2 (((dataStage d l mps).map Response.ofPacket).zip ws)
      (Dist.run (distOf coll mps) s0
        ((stageReqs ty idx l mps 0 ws).flatMap (fun q => Dist.reqInputs (q.ty * 256 + q.idx) q.l q.p q.rs)))
    ∧ Dist.Quiescent (distOf coll mps) (Dist.final (distOf coll mps) s0
        ((stageReqs ty idx l mps 0 ws).flatMap (fun q => Dist.reqInputs (q.ty * 256 + q.idx) q.l q.p q.rs))) := by
  obtain ⟨hoff, hspecs⟩ := stage_specs d l mps hm hl0 hdpos
  have hok : ∀ q ∈ stageReqs ty idx l mps 0 ws, DistOk coll mps q := by
    intro q hq
    obtain ⟨rfl, rfl, rfl, j, _, hj, hp⟩ := stageReqs_mem ty idx l mps ws 0 q hq
    have := hoff j (by omega)
    refine ⟨hidx, hl, ?_, ?_⟩
    · intro d' hd'; rw [hd] at hd'; injection hd' with hd'; subst hd'; rw [hp]; exact this
    · rw [hd]; exact hwin q hq
  obtain ⟨ha, hf⟩ := dist_requests_exact coll mps hm hwf hnd _ s0 h0 hok
  refine ⟨?_, hf⟩
  have h1 := answers_of_all _ 2 _ _ ha
  have h2 : (stageReqs ty idx l mps 0 ws).map
      (fun q => (specResponse (descrBytes coll q.ty q.idx) q.l mps q.p, q.rs))
      = (stageReqs ty idx l mps 0 ws).map (fun q => (specResponse (some d) l mps q.p, q.rs)) := by
    apply List.map_congr_left
    intro q hq
    obtain ⟨rfl, rfl, rfl, _⟩ := stageReqs_mem ty idx l mps ws 0 q hq
    rw [hd]
  rw [h2, stageReqs_map ty idx l mps (fun p => specResponse (some d) l mps p), hn, hspecs] at h1
  exact h1

/-- **mux_datastage_exact**: the same on the mux of the block handler (fixed descriptors) and the
distributed handler (runtime descriptors), for a descriptor of either; for a runtime descriptor the
data stage must not end with a ZLP (its generator cannot be asked for `start_position == length`). -/
theorem mux_datastage_exact (fixed runtime : Collection) (mps : Nat)
    (hwf : wellFormed fixed = true)
    (hm : mps = 8 ∨ mps = 16 ∨ mps = 32 ∨ mps = 64)
    (hpw : 2 ≤ (Rom.layout fixed).maxLen)
    (hrt : ∀ d ∈ runtime, d.idx < 256) (hrn : (runtime.map key).Nodup)
    (ty idx l : Nat) (hty : ty < 256) (hidx : idx < 256) (hl0 : 0 < l) (hl : l < 65536)
    (hdisj : descrBytes fixed ty idx = none ∨ descrBytes runtime ty idx = none)
    (d : List Nat) (hd : descrBytes (fixed ++ runtime) ty idx = some d) (hdpos : 0 < d.length)
    (hnozlp : descrBytes runtime ty idx = some d → ¬ (min l d.length % mps = 0 ∧ min l d.length < l))
    (ws : List (List Bool)) (hn : ws.length = (dataStage d l mps).length)
    (hwin : ∀ q ∈ stageReqs ty idx l mps 0 ws, Complete 4 (specResponse (some d) l mps q.p) q.rs.dropLast)
    (s0 : Mux.State) (h0 : Mux.Idle (muxOf fixed runtime mps) s0) :
    Answers 4 (((dataStage d l mps).map Response.ofPacket).zip ws)
      (Mux.run (muxOf fixed runtime mps) s0
        ((stageReqs ty idx l mps 0 ws).flatMap (fun q => Block.reqInputs (q.ty * 256 + q.idx) q.l q.p q.rs)))
    ∧ Mux.Idle (muxOf fixed runtime mps) (Mux.final (muxOf fixed runtime mps) s0
        ((stageReqs ty idx l mps 0 ws).flatMap (fun q => Block.reqInputs (q.ty * 256 + q.idx) q.l q.p q.rs))) := by
  obtain ⟨hoff, hspecs⟩ := stage_specs d l mps hm hl0 hdpos
  have hmp : 0 < mps := by omega
  have hlen : (dataStage d l mps).length
      = (min l d.length + mps - 1) / mps
        + (if min l d.length ≠ 0 ∧ min l d.length % mps = 0 ∧ min l d.length < l then 1 else 0) := by
    unfold dataStage
    simp only [List.length_append, List.length_map, List.length_range]
    split <;> simp
  have hok : ∀ q ∈ stageReqs ty idx l mps 0 ws, MuxOk fixed runtime mps q := by
    intro q hq
    obtain ⟨rfl, rfl, rfl, j, _, hj, hp⟩ := stageReqs_mem ty idx l mps ws 0 q hq
    have hj' := hoff j (by omega)
    rw [descrBytes_append] at hd
    refine ⟨hty, hidx, hl, hdisj, ?_, ?_, ?_⟩
    · intro d' hd'
      rw [hd'] at hd; injection hd with hd; subst hd; rw [hp]; exact hj'.1
    · intro d' hd'
      have hf : descrBytes fixed q.ty q.idx = none := by
        rcases hdisj with h | h
        · exact h
        · rw [hd'] at h; cases h
      rw [hf, hd'] at hd
      simp only [Option.none_or] at hd
      injection hd with hd; subst hd
      have hz := hnozlp hd'
      rw [hp]
      rw [hlen, if_neg (by intro h; exact hz h.2), Nat.add_zero] at hn
      rcases hm with rfl | rfl | rfl | rfl <;> omega
    · rw [descrBytes_append, hd]; exact hwin q hq
  obtain ⟨ha, hf⟩ := mux_requests_exact fixed runtime mps hwf hm hpw hrt hrn _ s0 h0 hok
  refine ⟨?_, hf⟩
  have h1 := answers_of_all _ 4 _ _ ha
  have h2 : (stageReqs ty idx l mps 0 ws).map
      (fun q => (specResponse (descrBytes (fixed ++ runtime) q.ty q.idx) q.l mps q.p, q.rs))
      = (stageReqs ty idx l mps 0 ws).map (fun q => (specResponse (some d) l mps q.p, q.rs)) := by
    apply List.map_congr_left
    intro q hq
    obtain ⟨rfl, rfl, rfl, _⟩ := stageReqs_mem ty idx l mps ws 0 q hq
    rw [hd]
  rw [h2, stageReqs_map ty idx l mps (fun p => specResponse (some d) l mps p), hn, hspecs] at h1
  exact h1

/-! ## Non-vacuity: the 16-byte configuration descriptor of `sample`, wLength 0xFFFF, mps 8 -/

def sampleCfg : List Nat := [9, 2, 16, 0, 1, 1, 0, 128, 50, 7, 5, 129, 2, 64, 0, 0]
/-- three windows: two for the full packets (one with a stalled cycle), one for the ZLP. -/
def sampleWindows : List (List Bool) :=
  [[true, true, true, true, true, true, true, true, true, true, true, true, true],
   [true, true, true, true, true, false, true, true, true, true, true, true, true, true],
   [true, true, true, true, true, true]]

-- hypotheses of `block_datastage_exact`
set_option maxRecDepth 100000 in
example : descrBytes sample 2 0 = some sampleCfg
    ∧ sampleWindows.length = (dataStage sampleCfg 0xFFFF 8).length
    ∧ ∀ q ∈ stageReqs 2 0 0xFFFF 8 0 sampleWindows, Complete 4 (specResponse (some sampleCfg) 0xFFFF 8 q.p) q.rs := by
  decide +kernel
-- its conclusion, evaluated: two full packets and the ZLP
set_option maxRecDepth 100000 in
example : Block.run (blockOf sample 8) Block.init
      ((stageReqs 2 0 0xFFFF 8 0 sampleWindows).flatMap (fun q => Block.reqInputs (q.ty * 256 + q.idx) q.l q.p q.rs))
    = respTrace 4 (.data [9, 2, 16, 0, 1, 1, 0, 128]) [true, true, true, true, true, true, true, true, true, true, true, true, true]
      ++ respTrace 4 (.data [50, 7, 5, 129, 2, 64, 0, 0]) [true, true, true, true, true, false, true, true, true, true, true, true, true, true]
      ++ respTrace 4 .zlp [true, true, true, true, true, true] := by decide +kernel
example : ((dataStage sampleCfg 0xFFFF 8).map Response.ofPacket).zip sampleWindows
    = [(.data [9, 2, 16, 0, 1, 1, 0, 128], [true, true, true, true, true, true, true, true, true, true, true, true, true]),
       (.data [50, 7, 5, 129, 2, 64, 0, 0], [true, true, true, true, true, false, true, true, true, true, true, true, true, true]),
       (.zlp, [true, true, true, true, true, true])] := by decide +kernel

end LunaVerif.Desc
