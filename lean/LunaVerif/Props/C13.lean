import LunaVerif.Model.Usb2.StreamOutEndpoint
import LunaVerif.Props.C18
/-!
# C13 — Bulk OUT endpoints ACK exactly the data they deliver   (one-step lemmas; history level: `Props/C13Stream.lean`)

"For any host sequence of OUT and PING transactions, including CRC-corrupted packets, retransmissions
with a repeated data toggle and any consumer back-pressure, the endpoint ACKs a packet only if its
payload has been (or, for a repeated toggle, already was) delivered, NAKs when it cannot take a whole
packet, and the output stream carries the payload of every newly accepted packet exactly once, in
order, while corrupted or NAKed packets contribute nothing. A byte is marked last iff it ends a short
packet and marked first iff it starts a transfer."

Three defects of the original code were confirmed by the monitor and repaired (two `fix:` commits):
ACK of an overflowed, already discarded packet when the response request came after the discard
(overflow was cleared by the discard); `first` missing after max-size packet + ZLP; `transfer_active`
following discarded packets.  The model is the repaired endpoint, co-simulated against the gateware.

What is proved here, for every state and every input of the cycle-level model:

* the handshake equations: ACK and NAK are exclusive, are given only on a response request addressed
  to the endpoint, and say exactly what the registers say (`ack_implies_delivered_or_repeat_partial`,
  `nak_iff_cannot_take_partial`, `ping_ack_iff_space`);
* a packet is committed only without overflow and discarded otherwise; commit and discard are never
  requested together, reads are never discarded — so the FIFO is always driven inside the precondition
  of C18's `fifo_refines_queue` (`fifo_inputs_legal`), whatever the host does;
* the overflow flag, once set by a lost byte, stays set until the next token (`overflow_sticky`), so the
  packet is discarded at its completion strobe (`overflowed_packet_discarded`) and NAKed at the
  response request (`overflowed_packet_naked`), however late that comes;
* `transfer_active` changes only when a packet with data is committed or a zero-length packet is
  accepted (`transfer_active_only_on_accept`).

The history-level theorems (`out_stream_exact`, `nak_iff_cannot_take`, `ack_implies_delivered_or_repeat`,
`last_iff_short_packet_end`, `first_iff_transfer_start`, for every `LegalHost` history) are in
`Props/C13Stream.lean` and `Props/C13Handshake.lean` (layers: `Lemmas/C13Host.lean` detector by phase,
`Lemmas/C13Write.lean` / `Lemmas/C13Fin.lean` write-side invariant, C18's `Rel` / `rel_step` for the FIFO).
The three former counterexamples are kernel-evaluated on the model below.
-/
namespace LunaVerif.StreamOutEndpoint
open LunaVerif

/-! ## Handshake decision logic (all states, all inputs) -/

theorem ack_nak_exclusive (c : Config) (s : State) (i : In)
    (htok : ¬(i.tokIsOut = true ∧ i.tokIsPing = true)) :
    ¬((outOf c s i).ack = true ∧ (outOf c s i).nak = true) := by
  simp only [outOf, comb]
  grind

/-- Handshakes are only given in a response-request cycle of a transaction addressed to the endpoint. -/
theorem handshake_only_when_requested (c : Config) (s : State) (i : In)
    (h : (outOf c s i).ack = true ∨ (outOf c s i).nak = true) :
    (i.tokEp == c.epNum) = true ∧ ((i.tokIsOut = true ∧ i.rxReady = true) ∨ (i.tokIsPing = true ∧ i.tokReady = true)) := by
  simp only [outOf, comb] at h
  grind

/-- `ack_implies_delivered_or_repeat` as far as the code supports it: an ACK to a data packet is given
either for a repeated toggle (nothing is written: `okay_to_receive` is false) or when, *at the time of
the response request*, the toggle matches, the overflow flag is clear and no byte is being lost.
(It does not follow that the packet was committed: see `ack_after_overflow_fails`.) -/
theorem ack_implies_delivered_or_repeat_partial (c : Config) (s : State) (i : In)
    (hd : (comb c s i).dataRequested = true) (hp : (comb c s i).pingRequested = false)
    (ha : (outOf c s i).ack = true) :
    ((comb c s i).shouldSkip = true ∧ (comb c s i).writeEn = false) ∨
    ((comb c s i).pidMatch = true ∧ s.overflow = false ∧ (comb c s i).dataIsLost = false) := by
  simp only [outOf, comb] at hd hp ha ⊢
  grind

/-- `nak_iff_cannot_take` as the code has it: a data packet is NAKed iff its toggle is the expected one
and a byte of it was lost (overflow flag) or is being lost right now; a PING is NAKed iff less than
`max_packet_size` space is available. -/
theorem nak_iff_cannot_take_partial (c : Config) (s : State) (i : In)
    (hd : (comb c s i).dataRequested = true) (hp : (comb c s i).pingRequested = false) :
    (outOf c s i).nak = true ↔
      ((comb c s i).pidMatch = true ∧ (s.overflow = true ∨ (comb c s i).dataIsLost = true)) := by
  simp only [outOf, comb] at hd hp ⊢
  grind

theorem ping_ack_iff_space (c : Config) (s : State) (i : In)
    (hp : (comb c s i).pingRequested = true) (hd : (comb c s i).dataRequested = false) :
    ((outOf c s i).ack = true ↔ c.mps ≤ TxnFifo.space c.depth s.fifo) ∧
    ((outOf c s i).nak = true ↔ ¬ c.mps ≤ TxnFifo.space c.depth s.fifo) := by
  simp only [outOf, comb] at hd hp ⊢
  grind

/-! ## Commit / discard -/

/-- Whatever the host and the consumer do, the FIFO is driven inside C18's precondition, provided the
boundary detector does not raise `complete_out` and `invalid_out` together (the receiver reports a
packet either valid or invalid). -/
theorem fifo_inputs_legal (c : Config) (s : State) (i : In)
    (hdet : ¬(s.det.out.completeOut = true ∧ s.det.out.invalidOut = true)) :
    TxnFifo.Legal (fifoIn c s i) := by
  simp only [TxnFifo.Legal, fifoIn, comb]
  grind

/-- A packet is committed only while the overflow flag is clear. -/
theorem commit_only_without_overflow (c : Config) (s : State) (i : In)
    (h : (comb c s i).writeCommit = true) : s.overflow = false := by
  simp only [comb] at h
  cases ho : s.overflow <;> simp_all

/-- Once a byte has been lost the flag stays set until the next token. -/
theorem overflow_sticky (c : Config) (s : State) (i : In) (h : s.overflow = true)
    (hn : i.tokNew = false) : (step c s i).1.overflow = true := by
  simp only [step, h, hn]
  cases (comb c s i).dataIsLost <;> simp

/-- While the flag is set, the packet's completion strobe discards (and does not commit) it. -/
theorem overflowed_packet_discarded (c : Config) (s : State) (i : In) (h : s.overflow = true)
    (ht : (comb c s i).targeting = true) (hc : s.det.out.completeOut = true) :
    (comb c s i).writeDiscard = true ∧ (comb c s i).writeCommit = false := by
  simp only [comb] at ht ⊢
  grind

/-- While the flag is set, a response request for the packet (expected toggle) is answered with NAK. -/
theorem overflowed_packet_naked (c : Config) (s : State) (i : In) (h : s.overflow = true)
    (hd : (comb c s i).dataRequested = true) (hp : (comb c s i).pingRequested = false)
    (hm : (comb c s i).pidMatch = true) : (outOf c s i).nak = true ∧ (outOf c s i).ack = false := by
  simp only [outOf, comb] at hd hp hm ⊢
  grind

/-- `transfer_active` changes only when a packet with data is committed or a ZLP is accepted. -/
theorem transfer_active_only_on_accept (c : Config) (s : State) (i : In)
    (h1 : ((comb c s i).writeCommit && s.packetHasData) = false)
    (h2 : ((comb c s i).dataRequested && (comb c s i).dataAccepted && !s.packetHasData) = false) :
    (step c s i).1.transferActive = s.transferActive := by
  simp only [step, h1]
  grind

/-- A lost byte sets the flag in the same cycle (it has priority over the clearing by commit/discard). -/
theorem lost_byte_sets_overflow (c : Config) (s : State) (i : In) (h : (comb c s i).dataIsLost = true) :
    (step c s i).1.overflow = true := by
  simp only [step, h]; simp

/-- A cycle that loses a byte or follows a loss never commits in the next cycle. -/
theorem lost_byte_never_committed_step (c : Config) (s : State) (i j : In)
    (h : (comb c s i).dataIsLost = true) : (comb c (step c s i).1 j).writeCommit = false := by
  have := lost_byte_sets_overflow c s i h
  cases hcc : (comb c (step c s i).1 j).writeCommit
  · rfl
  · have := commit_only_without_overflow c _ j hcc; simp_all

/-! ## The three former counterexamples, on the repaired model (kernel-evaluated runs) -/

def runOuts (c : Config) : State → List In → List Out
  | _, [] => []
  | s, i :: is => (step c s i).2 :: runOuts c (step c s i).1 is

/-- consumer-side transfers `(payload, first, last)` of a run with the given `ready` inputs -/
def transfers (ins : List In) (outs : List Out) : List (Nat × Bool × Bool) :=
  (ins.zip outs).filterMap (fun (i, o) => if i.ready && o.valid then some (o.data, o.first, o.last) else none)

def idleIn (ep pid : Nat) (ready : Bool) : In :=
  ⟨⟨false, false, 0, false, false⟩, false, pid, ep, true, false, false, false, false, ready⟩

/-- one OUT transaction with a CRC-valid data packet as the receiver presents it (dense): the token
strobe, the bytes, `rx_complete`, the response request `d ≥ 1` cycles later, four idle cycles -/
def outPacket (ep pid : Nat) (ready : Bool) (payload : List Nat) (d : Nat) : List In :=
  [{ idleIn ep pid ready with tokNew := true }, idleIn ep pid ready] ++
  payload.map (fun b => { idleIn ep pid ready with rx := ⟨true, true, b, false, false⟩ }) ++
  [{ idleIn ep pid ready with rx := ⟨true, false, 0, false, false⟩ },
   { idleIn ep pid ready with rx := ⟨false, false, 0, true, false⟩ }] ++
  List.replicate (d - 1) (idleIn ep pid ready) ++
  [{ idleIn ep pid ready with rxReady := true }] ++ List.replicate 4 (idleIn ep pid ready)

/-- a CRC-corrupted packet: `rx_invalid`, no response request -/
def badPacket (ep pid : Nat) (ready : Bool) (payload : List Nat) : List In :=
  [{ idleIn ep pid ready with tokNew := true }, idleIn ep pid ready] ++
  payload.map (fun b => { idleIn ep pid ready with rx := ⟨true, true, b, false, false⟩ }) ++
  [{ idleIn ep pid ready with rx := ⟨true, false, 0, false, false⟩ },
   { idleIn ep pid ready with rx := ⟨false, false, 0, false, true⟩ }] ++ List.replicate 6 (idleIn ep pid ready)

/-- mps 4, buffer 7: transfer 1 = max-size packet + ZLP, transfer 2 = a 2-byte packet: byte 21 starts
transfer 2 and is marked first (the original code delivered it with `first = false`). -/
theorem first_after_zlp_marked :
    let ins := outPacket 2 0 true [11, 12, 13, 14] 2 ++ outPacket 2 1 true [] 2 ++ outPacket 2 0 true [21, 22] 2
                 ++ List.replicate 6 (idleIn 2 1 true)
    transfers ins (runOuts ⟨2, 4, 7⟩ init ins)
      = [(11, true, false), (12, false, false), (13, false, false), (14, false, false),
         (21, true, false), (22, false, true)] := by decide +kernel

/-- A discarded packet no longer moves `transfer_active`: after a complete 1-byte transfer, a corrupted
max-size packet is discarded and the next transfer's first byte keeps its mark. -/
theorem first_after_discarded_packet_marked :
    let ins := outPacket 2 0 true [11] 2 ++ badPacket 2 1 true [66, 79] ++ outPacket 2 1 true [21] 2
                 ++ List.replicate 6 (idleIn 2 0 true)
    transfers ins (runOuts ⟨2, 2, 3⟩ init ins) = [(11, true, true), (21, true, true)] := by decide +kernel

/-- mps 4, buffer 7, consumer stalled, response request 10 cycles after `rx_complete` (full speed at
60 MHz): the second packet overflows the FIFO, is discarded and is now NAKed (the original code ACKed
it); the host's retry after the consumer has drained is ACKed and delivered. -/
theorem overflowed_packet_naked_then_retried :
    let ins := outPacket 2 0 false [11, 12, 13, 14] 10 ++ outPacket 2 1 false [21, 22, 23, 24] 10
                 ++ List.replicate 8 (idleIn 2 1 true) ++ outPacket 2 1 true [21, 22, 23, 24] 10
                 ++ List.replicate 8 (idleIn 2 0 true)
    let outs := runOuts ⟨2, 4, 7⟩ init ins
    ((ins.zip outs).filterMap (fun (i, o) => if i.rxReady then some (o.ack, o.nak) else none),
     (transfers ins outs).map (·.1))
      = ([(true, false), (false, true), (true, false)], [11, 12, 13, 14, 21, 22, 23, 24]) := by decide +kernel

end LunaVerif.StreamOutEndpoint
