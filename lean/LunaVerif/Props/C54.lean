import LunaVerif.Model.Periph.PhyReset
/-!
# C54 — PHY reset controllers produce the configured pulses and always finish

"For any clock frequency and reset/stop durations, a triggered (or power-on) reset asserts the PHY
reset for exactly the configured number of cycles, keeps STP asserted during the reset and for
exactly the configured stop duration afterwards, and then returns to idle, ready for the next
trigger."

The durations enter the gateware as cycle counts (`reset_length_cycles`, `stop_length_cycles`,
computed by Python's float `ceil`); the theorems quantify over **all** counts `≥ 1`, both power-on
modes and **all** trigger histories.  The model is the code *after* the `fix:` commit (counter sized
for the longer interval); `unrepaired_counter_never_finishes` states the defect of the original
sizing (F23) as a theorem about the same step function with the original counter width.
-/
namespace LunaVerif.PhyReset

/-! ## Specification: a single timer
`none` = idle, `some k` = `k` cycles of the pulse have elapsed.  A pulse lasts `reset + stop` cycles;
`phy_reset` is high during the first `reset` of them, `phy_stop` during all of them; a trigger is
looked at only while idle. -/

def timerOut (c : Config) : Option Nat → Out
  | none => ⟨false, false⟩
  | some k => ⟨decide (k < c.resetCycles), true⟩

def timerNext (c : Config) : Option Nat → Bool → Option Nat
  | none, trig => if trig then some 0 else none
  | some k, _ => if k + 1 = c.resetCycles + c.stopCycles then none else some (k + 1)

def timerRun (c : Config) : Option Nat → List Bool → List Out
  | _, [] => []
  | t, x :: xs => timerOut c t :: timerRun c (timerNext c t x) xs

def timerInit (c : Config) : Option Nat := if c.powerOn then some 0 else none

/-- abstraction from the FSM + counter to the timer -/
def abs (c : Config) (s : State) : Option Nat :=
  match s.fsm with
  | .idle => none
  | .resetting => some s.cnt
  | .deferring => some (c.resetCycles + s.cnt)

/-- reachable states -/
def Inv (c : Config) (s : State) : Prop :=
  match s.fsm with
  | .idle => s.cnt = 0
  | .resetting => s.cnt < c.resetCycles
  | .deferring => s.cnt < c.stopCycles

theorem le_two_pow_rangeWidth (n : Nat) : n ≤ 2 ^ rangeWidth n := by
  unfold rangeWidth
  split
  · simp; omega
  · have := Nat.lt_log2_self (n := n - 1); omega

theorem reset_le_modulus (c : Config) : c.resetCycles ≤ modulus c :=
  Nat.le_trans (Nat.le_max_left _ _) (le_two_pow_rangeWidth _)

theorem stop_le_modulus (c : Config) : c.stopCycles ≤ modulus c :=
  Nat.le_trans (Nat.le_max_right _ _) (le_two_pow_rangeWidth _)

theorem inv_init (c : Config) (h1 : 1 ≤ c.resetCycles) : Inv c (init c) := by
  unfold init Inv; cases c.powerOn <;> simp <;> omega

theorem step_inv (c : Config) (h1 : 1 ≤ c.resetCycles) (h2 : 1 ≤ c.stopCycles) (s : State) (x : Bool) (hs : Inv c s) :
    Inv c (step c s x).1 := by
  have hr := reset_le_modulus c
  have hp := stop_le_modulus c
  obtain ⟨f, k⟩ := s
  cases f
  · cases x <;> simp [Inv, step, stepM]; omega
  · have hs : k < c.resetCycles := hs
    by_cases h : k + 1 = c.resetCycles
    · simp [Inv, step, stepM, h]; omega
    · simp only [Inv, step, stepM, h, if_false]; rw [Nat.mod_eq_of_lt (by omega)]; omega
  · have hs : k < c.stopCycles := hs
    by_cases h : k + 1 = c.stopCycles
    · simp [Inv, step, stepM, h]
    · simp only [Inv, step, stepM, h, if_false]; rw [Nat.mod_eq_of_lt (by omega)]; omega

theorem step_abs (c : Config) (h2 : 1 ≤ c.stopCycles) (s : State) (x : Bool) (hs : Inv c s) :
    abs c (step c s x).1 = timerNext c (abs c s) x ∧ (step c s x).2 = timerOut c (abs c s) := by
  have hr := reset_le_modulus c
  have hp := stop_le_modulus c
  obtain ⟨f, k⟩ := s
  cases f
  · cases x <;> simp [step, stepM, abs, timerNext, timerOut, outOf]
  · have hs : k < c.resetCycles := hs
    by_cases h : k + 1 = c.resetCycles
    · have h' : ¬ (k + 1 = c.resetCycles + c.stopCycles) := by omega
      simp [step, stepM, abs, timerNext, timerOut, outOf, h, hs]; omega
    · have h' : ¬ (k + 1 = c.resetCycles + c.stopCycles) := by omega
      simp only [step, stepM, h, if_false, abs, timerNext, h', timerOut, outOf]
      rw [Nat.mod_eq_of_lt (by omega)]; simp [hs]
  · have hs : k < c.stopCycles := hs
    have hnr : ¬ (c.resetCycles + k < c.resetCycles) := by omega
    by_cases h : k + 1 = c.stopCycles
    · have h' : c.resetCycles + k + 1 = c.resetCycles + c.stopCycles := by omega
      simp [step, stepM, abs, timerNext, timerOut, outOf, h, h']
    · have h' : ¬ (c.resetCycles + k + 1 = c.resetCycles + c.stopCycles) := by omega
      simp only [step, stepM, h, if_false, abs, timerNext, h', timerOut, outOf]
      rw [Nat.mod_eq_of_lt (by omega)]; simp [Nat.add_assoc]

/-- **Main theorem.**  For all cycle counts `≥ 1`, from every reachable state and for every trigger
history, the port waveform of the controller is that of the timer specification. -/
theorem run_eq_timer_from (c : Config) (h1 : 1 ≤ c.resetCycles) (h2 : 1 ≤ c.stopCycles) (s : State) (hs : Inv c s)
    (hist : List Bool) : run c s hist = timerRun c (abs c s) hist := by
  induction hist generalizing s with
  | nil => rfl
  | cons x xs ih =>
    simp only [run, timerRun]
    obtain ⟨ha, ho⟩ := step_abs c h2 s x hs
    rw [ho, ih _ (step_inv c h1 h2 s x hs), ha]

theorem run_eq_timer (c : Config) (h1 : 1 ≤ c.resetCycles) (h2 : 1 ≤ c.stopCycles) (hist : List Bool) :
    run c (init c) hist = timerRun c (timerInit c) hist := by
  rw [run_eq_timer_from c h1 h2 _ (inv_init c h1)]
  congr 1
  unfold init abs timerInit; cases c.powerOn <;> rfl

/-! ## The three clauses of the property, stated directly on the controller -/

/-- `n` cycles spent in RESETTING, ending exactly when the counter reaches the reset length. -/
theorem resetting_phase (c : Config) (n k : Nat) (hk : k + n = c.resetCycles) (hn : 0 < n)
    (hist rest : List Bool) (hl : hist.length = n) :
    run c ⟨.resetting, k⟩ (hist ++ rest) = List.replicate n ⟨true, true⟩ ++ run c ⟨.deferring, 0⟩ rest ∧
    runState c ⟨.resetting, k⟩ (hist ++ rest) = runState c ⟨.deferring, 0⟩ rest := by
  have hr := reset_le_modulus c
  induction n generalizing k hist with
  | zero => omega
  | succ n ih =>
    obtain _ | ⟨x, xs⟩ := hist
    · simp at hl
    · simp only [List.length_cons, Nat.add_right_cancel_iff] at hl
      by_cases hlast : k + 1 = c.resetCycles
      · have : n = 0 := by omega
        subst this
        have : xs = [] := List.eq_nil_of_length_eq_zero hl
        subst this
        simp [run, runState, step, stepM, hlast, outOf]
      · have hstep : step c ⟨.resetting, k⟩ x = (⟨.resetting, k + 1⟩, ⟨true, true⟩) := by
          simp only [step, stepM, hlast, if_false, outOf]
          rw [Nat.mod_eq_of_lt (by omega)]; simp
        obtain ⟨i1, i2⟩ := ih (k + 1) (by omega) (by omega) xs hl
        simp only [List.cons_append, run, runState, hstep, i1, i2, List.replicate_succ, and_self]

/-- `n` cycles spent in DEFERRING_STARTUP, ending exactly when the counter reaches the stop length. -/
theorem deferring_phase (c : Config) (n k : Nat) (hk : k + n = c.stopCycles) (hn : 0 < n)
    (hist rest : List Bool) (hl : hist.length = n) :
    run c ⟨.deferring, k⟩ (hist ++ rest) = List.replicate n ⟨false, true⟩ ++ run c ⟨.idle, 0⟩ rest ∧
    runState c ⟨.deferring, k⟩ (hist ++ rest) = runState c ⟨.idle, 0⟩ rest := by
  have hr := stop_le_modulus c
  induction n generalizing k hist with
  | zero => omega
  | succ n ih =>
    obtain _ | ⟨x, xs⟩ := hist
    · simp at hl
    · simp only [List.length_cons, Nat.add_right_cancel_iff] at hl
      by_cases hlast : k + 1 = c.stopCycles
      · have : n = 0 := by omega
        subst this
        have : xs = [] := List.eq_nil_of_length_eq_zero hl
        subst this
        simp [run, runState, step, stepM, hlast, outOf]
      · have hstep : step c ⟨.deferring, k⟩ x = (⟨.deferring, k + 1⟩, ⟨false, true⟩) := by
          simp only [step, stepM, hlast, if_false, outOf]
          rw [Nat.mod_eq_of_lt (by omega)]; simp
        obtain ⟨i1, i2⟩ := ih (k + 1) (by omega) (by omega) xs hl
        simp only [List.cons_append, run, runState, hstep, i1, i2, List.replicate_succ, and_self]

/-- The complete pulse: whatever the trigger input does during it (`during`, any values, length
`reset + stop`), the controller drives `reset` cycles of (phy_reset, phy_stop) = (1, 1), then `stop`
cycles of (0, 1), and continues from the idle state with a cleared counter. -/
theorem power_on_pulse (c : Config) (h1 : 1 ≤ c.resetCycles) (h2 : 1 ≤ c.stopCycles)
    (during rest : List Bool) (hl : during.length = c.resetCycles + c.stopCycles) :
    run c ⟨.resetting, 0⟩ (during ++ rest) =
      List.replicate c.resetCycles ⟨true, true⟩ ++ List.replicate c.stopCycles ⟨false, true⟩
        ++ run c ⟨.idle, 0⟩ rest ∧
    runState c ⟨.resetting, 0⟩ (during ++ rest) = runState c ⟨.idle, 0⟩ rest := by
  have hsplit : during = during.take c.resetCycles ++ during.drop c.resetCycles :=
    (List.take_append_drop _ _).symm
  rw [hsplit, List.append_assoc]
  obtain ⟨a1, a2⟩ := resetting_phase c c.resetCycles 0 (by omega) (by omega)
    (during.take c.resetCycles) (during.drop c.resetCycles ++ rest) (by simp; omega)
  obtain ⟨b1, b2⟩ := deferring_phase c c.stopCycles 0 (by omega) (by omega)
    (during.drop c.resetCycles) rest (by simp; omega)
  rw [a1, a2, b1, b2]; simp

/-- While idle and not triggered the controller stays idle with both outputs low. -/
theorem idle_waits (c : Config) (rest : List Bool) :
    run c ⟨.idle, 0⟩ (false :: rest) = ⟨false, false⟩ :: run c ⟨.idle, 0⟩ rest := by
  simp [run, step, stepM, outOf]

/-- A trigger seen while idle (outputs still low in that cycle) starts the pulse in the next cycle. -/
theorem trigger_starts (c : Config) (rest : List Bool) :
    run c ⟨.idle, 0⟩ (true :: rest) = ⟨false, false⟩ :: run c ⟨.resetting, 0⟩ rest ∧
    runState c ⟨.idle, 0⟩ (true :: rest) = runState c ⟨.resetting, 0⟩ rest := by
  simp [run, runState, step, stepM, outOf]

/-- **reset_pulse_exact**: after a trigger accepted in idle, `phy_reset` is high for exactly
`reset` cycles (then low for the `stop` cycles of the same pulse), for every trigger activity
`during` the pulse. -/
theorem reset_pulse_exact (c : Config) (h1 : 1 ≤ c.resetCycles) (h2 : 1 ≤ c.stopCycles)
    (during : List Bool) (hl : during.length = c.resetCycles + c.stopCycles) :
    (run c ⟨.idle, 0⟩ (true :: during)).map (·.phyReset) =
      false :: (List.replicate c.resetCycles true ++ List.replicate c.stopCycles false) := by
  have := (power_on_pulse c h1 h2 during [] hl).1
  rw [List.append_nil] at this
  rw [(trigger_starts c during).1, this]
  simp [run]

/-- **stop_exact_after_reset**: `phy_stop` is high during the reset and for exactly `stop` cycles
after it, i.e. for `reset + stop` cycles in all. -/
theorem stop_exact_after_reset (c : Config) (h1 : 1 ≤ c.resetCycles) (h2 : 1 ≤ c.stopCycles)
    (during : List Bool) (hl : during.length = c.resetCycles + c.stopCycles) :
    (run c ⟨.idle, 0⟩ (true :: during)).map (·.phyStop) =
      false :: List.replicate (c.resetCycles + c.stopCycles) true := by
  have := (power_on_pulse c h1 h2 during [] hl).1
  rw [List.append_nil] at this
  rw [(trigger_starts c during).1, this]
  simp [run, List.replicate_append_replicate]

/-- **returns_to_idle**: after the `reset + stop` cycles of a pulse (triggered or power-on) the
controller is in exactly the state in which it accepted the trigger (IDLE, counter 0) — so the next
trigger produces the same pulse again, and everything after the pulse is as from a fresh idle. -/
theorem returns_to_idle (c : Config) (h1 : 1 ≤ c.resetCycles) (h2 : 1 ≤ c.stopCycles)
    (during rest : List Bool) (hl : during.length = c.resetCycles + c.stopCycles) :
    runState c ⟨.idle, 0⟩ (true :: during) = ⟨.idle, 0⟩ ∧
    runState c ⟨.resetting, 0⟩ during = ⟨.idle, 0⟩ ∧
    (run c ⟨.idle, 0⟩ (true :: (during ++ rest))).drop (1 + c.resetCycles + c.stopCycles)
      = run c ⟨.idle, 0⟩ rest := by
  have p0 := (power_on_pulse c h1 h2 during [] hl).2
  have p1 := (power_on_pulse c h1 h2 during rest hl).1
  rw [List.append_nil] at p0
  refine ⟨?_, ?_, ?_⟩
  · rw [(trigger_starts c during).2, p0]; rfl
  · rw [p0]; rfl
  · rw [(trigger_starts c (during ++ rest)).1, p1]
    rw [show 1 + c.resetCycles + c.stopCycles = (c.resetCycles + c.stopCycles) + 1 by omega,
      List.drop_succ_cons, List.drop_left']
    simp

/-- every reachable idle state is the one the clauses above start from -/
theorem reachable_idle (c : Config) (s : State) (hs : Inv c s) (hi : s.fsm = .idle) : s = ⟨.idle, 0⟩ := by
  obtain ⟨f, k⟩ := s
  simp only at hi; subst hi
  simp only [Inv] at hs; subst hs; rfl

/-! ## The defect of the original counter sizing (F23), as a theorem
With `cycles_in_reset = Signal(range(0, reset_length_cycles))`, reset = 3 and stop = 9 cycles
(1 MHz, 3 µs / 9 µs), the counter is 2 bits wide, `cycles_in_reset + 1` never reaches 9, and
`phy_stop` stays asserted for ever after power-on, whatever the trigger does. -/

def runUnrepaired (c : Config) : State → List Bool → List Out
  | _, [] => []
  | s, x :: xs => (stepUnrepaired c s x).2 :: runUnrepaired c (stepUnrepaired c s x).1 xs

theorem unrepaired_counter_never_finishes (hist : List Bool) :
    ∀ o ∈ runUnrepaired ⟨3, 9, true⟩ (init ⟨3, 9, true⟩) hist, o.phyStop = true := by
  suffices h : ∀ s : State, (s.fsm ≠ .idle ∧ s.cnt < 4) →
      ∀ o ∈ runUnrepaired ⟨3, 9, true⟩ s hist, o.phyStop = true from h _ (by simp [init])
  induction hist with
  | nil => intro s _ o ho; simp [runUnrepaired] at ho
  | cons x xs ih =>
    intro s hs o ho
    obtain ⟨f, k⟩ := s
    simp only [runUnrepaired, List.mem_cons] at ho
    have hm : (2 : Nat) ^ rangeWidth 3 = 4 := by decide
    rcases ho with ho | ho
    · subst ho
      cases f <;> simp_all [stepUnrepaired, stepM, outOf] <;> split <;> simp
    · refine ih _ ?_ o ho
      cases f
      · simp at hs
      · simp only [stepUnrepaired, stepM, hm]; split <;> simp <;> omega
      · simp only [stepUnrepaired, stepM, hm]
        have : k + 1 ≠ 9 := by simp at hs; omega
        simp [this]; omega

/-! ## Non-vacuity -/
example : run ⟨3, 9, true⟩ (init ⟨3, 9, true⟩) (List.replicate 14 false) =
    List.replicate 3 ⟨true, true⟩ ++ List.replicate 9 ⟨false, true⟩ ++ List.replicate 2 ⟨false, false⟩ := by
  decide
example : (run ⟨2, 5, false⟩ (init ⟨2, 5, false⟩) [false, true, true, false, true, false, true, false, true, true, false]).map
    (fun o => (o.phyReset, o.phyStop)) =
    [(false, false), (false, false), (true, true), (true, true), (false, true), (false, true), (false, true),
     (false, true), (false, true), (false, false), (true, true)] := by decide

end LunaVerif.PhyReset
