import LunaVerif.Model.Usb2.MultibyteIn
/-!
# C29 — Multi-byte IN endpoints serialise words little-endian with correct framing

"Each word accepted from a multi-byte stream is sent as its bytes in little-endian order, exactly once,
with the word's 'first' flag on its first byte and its 'last' flag on its final byte, and words are
accepted only as fast as the underlying byte endpoint can take them."

The statements are about the serialiser in front of the inner byte endpoint, for an ARBITRARY `ready`
schedule of that endpoint (`Shim.step` takes `ready` as an input), every byte width ≥ 1, all word
values and flag patterns.  A byte is *handed over* in a cycle with `byte_stream.valid & ready`; a word
is *accepted* in a cycle with `word_stream.valid & word_stream.ready`.
-/
namespace LunaVerif.MultibyteIn

/-- A byte as the inner endpoint sees it: payload, first, last. -/
abbrev ByteEv := Nat × Bool × Bool

/-- The last `n` bytes of a `bw`-byte word whose not-yet-sent part is `v` (little-endian: low byte
first), with the word's `first` flag on byte 0 of the word and `last` on byte `bw-1`. -/
def restBytes (bw : Nat) (f l : Bool) : Nat → Nat → List ByteEv
  | 0, _ => []
  | n + 1, v => (v % 256, f && (n + 1 == bw), l && (n == 0)) :: restBytes bw f l n (v / 256)

/-- The specification: what an accepted word owes the byte stream. -/
def wordBytes (bw : Nat) (w : WordIn) : List ByteEv :=
  restBytes bw w.first w.last bw (w.payload % 2 ^ (8 * bw))

/-- Bytes of the current word that have not been handed over yet (abstraction map). -/
def pending (bw : Nat) (s : Shim) : List ByteEv :=
  match s.fsm with
  | .idle => []
  | .transmit => restBytes bw s.firstL s.lastL (s.bts + 1) s.shift

/-- What one cycle hands over / accepts. -/
def handed (o : ShimOut) (bReady : Bool) : List ByteEv :=
  if o.bValid && bReady then [(o.bPayload, o.bFirst, o.bLast)] else []
def accepted (bw : Nat) (w : WordIn) (o : ShimOut) : List ByteEv :=
  if w.valid && o.wReady then wordBytes bw w else []

/-- Whole histories: inputs are (word stream, byte-stream ready) pairs. -/
def run (bw : Nat) : Shim → List (WordIn × Bool) → Shim
  | s, [] => s
  | s, (w, r) :: rest => run bw (Shim.step bw s w r).1 rest
def handedAll (bw : Nat) : Shim → List (WordIn × Bool) → List ByteEv
  | _, [] => []
  | s, (w, r) :: rest => handed (Shim.step bw s w r).2 r ++ handedAll bw (Shim.step bw s w r).1 rest
def acceptedAll (bw : Nat) : Shim → List (WordIn × Bool) → List ByteEv
  | _, [] => []
  | s, (w, r) :: rest => accepted bw w (Shim.step bw s w r).2 ++ acceptedAll bw (Shim.step bw s w r).1 rest

theorem beq_congr {a b c d : Nat} (h : a = b ↔ c = d) : (a == b) = (c == d) := by
  rw [Bool.eq_iff_iff]; simp [h]

theorem restBytes_one (bw : Nat) (f l : Bool) (v : Nat) :
    restBytes bw f l 1 v = [(v % 256, f && (1 == bw), l)] := by simp [restBytes]

/-- One cycle: bytes handed over now, followed by what is still pending afterwards, equal what was
pending before followed by the bytes of a word accepted now. -/
theorem step_conserves (bw : Nat) (hb : 1 ≤ bw) (s : Shim) (w : WordIn) (r : Bool) :
    handed (Shim.step bw s w r).2 r ++ pending bw (Shim.step bw s w r).1
      = pending bw s ++ accepted bw w (Shim.step bw s w r).2 := by
  rcases s with ⟨fsm, shift, fl, ll, bts⟩
  cases fsm with
  | idle =>
    cases hv : w.valid <;> cases r <;>
      simp [Shim.step, handed, accepted, pending, hv, Shim.load, wordBytes, Nat.sub_add_cancel hb]
  | transmit =>
    cases r with
    | false => simp [Shim.step, handed, accepted, pending]
    | true =>
      cases bts with
      | zero =>
        have h1 : (0 == bw - 1) = (1 == bw) := beq_congr (by omega)
        cases hv : w.valid <;>
          simp [Shim.step, handed, accepted, pending, hv, Shim.load, wordBytes, restBytes_one,
            Nat.sub_add_cancel hb, h1]
      | succ n =>
        have h1 : (n + 1 == bw - 1) = (n + 1 + 1 == bw) := beq_congr (by omega)
        simp [Shim.step, handed, accepted, pending, restBytes, h1]

/-- **C29, main theorem.**  For every byte width ≥ 1, every word/flag sequence and every `ready`
schedule of the byte endpoint: the bytes handed over so far, followed by the bytes still pending in
the shift register, are exactly the little-endian bytes (with first/last on the word's first/final
byte) of the words accepted so far, in order — nothing lost, duplicated or reordered. -/
theorem bytes_little_endian_once (bw : Nat) (hb : 1 ≤ bw) (ins : List (WordIn × Bool)) :
    handedAll bw Shim.init ins ++ pending bw (run bw Shim.init ins) = acceptedAll bw Shim.init ins := by
  have gen : ∀ (s : Shim), handedAll bw s ins ++ pending bw (run bw s ins)
      = pending bw s ++ acceptedAll bw s ins := by
    induction ins with
    | nil => intro s; simp [handedAll, run, acceptedAll]
    | cons x xs ih =>
      intro s
      obtain ⟨w, r⟩ := x
      simp only [handedAll, run, acceptedAll, List.append_assoc]
      rw [ih, ← List.append_assoc, step_conserves bw hb, List.append_assoc]
  simpa [pending, Shim.init] using gen Shim.init

theorem restBytes_get (bw : Nat) (f l : Bool) (n v k : Nat) (hk : k < n) :
    (restBytes bw f l n v)[k]? = some (v / 256 ^ k % 256, f && (n - k == bw), l && (n - k == 1)) := by
  induction n generalizing v k with
  | zero => omega
  | succ n ih =>
    cases k with
    | zero => simp [restBytes]
    | succ k =>
      simp only [restBytes, List.getElem?_cons_succ]
      rw [ih (v / 256) k (by omega), Nat.div_div_eq_div_mul, Nat.pow_succ, Nat.mul_comm]
      simp

theorem restBytes_length (bw : Nat) (f l : Bool) (n v : Nat) : (restBytes bw f l n v).length = n := by
  induction n generalizing v with
  | zero => rfl
  | succ n ih => simp [restBytes, ih]

/-- **Framing and byte order of the specification.**  An accepted word owes exactly `bw` bytes; byte
`k` is bits `8k..8k+7` of the word (little-endian), carries `first` iff the word has `first` and
`k = 0`, and `last` iff the word has `last` and `k = bw-1`. -/
theorem first_last_placement (bw : Nat) (w : WordIn) :
    (wordBytes bw w).length = bw ∧
    ∀ k, k < bw → (wordBytes bw w)[k]? =
      some (w.payload % 2 ^ (8 * bw) / 256 ^ k % 256, w.first && (k == 0), w.last && (k + 1 == bw)) := by
  refine ⟨restBytes_length _ _ _ _ _, fun k hk => ?_⟩
  unfold wordBytes
  rw [restBytes_get bw w.first w.last bw _ k hk]
  have h1 : (bw - k == bw) = (k == 0) := beq_congr (by omega)
  have h2 : (bw - k == 1) = (k + 1 == bw) := beq_congr (by omega)
  rw [h1, h2]

/-- **Words are accepted only as fast as the byte endpoint takes them.**  Whenever the word stream is
`ready`, everything still pending of the previous word (at most its final byte) is handed over in this
very cycle — so the shift register never holds bytes of two words, and `ready` requires the byte
endpoint's `ready` unless the serialiser is idle. -/
theorem word_ready_only_when_consumable (bw : Nat) (hb : 1 ≤ bw) (s : Shim) (w : WordIn) (r : Bool)
    (h : (Shim.step bw s w r).2.wReady = true) :
    handed (Shim.step bw s w r).2 r = pending bw s ∧ (s.fsm = .transmit → r = true ∧ s.bts = 0) := by
  rcases s with ⟨fsm, shift, fl, ll, bts⟩
  cases fsm with
  | idle => simp [Shim.step, handed, pending]
  | transmit =>
    cases r with
    | false => simp [Shim.step] at h
    | true =>
      cases bts with
      | zero =>
        have h1 : (0 == bw - 1) = (1 == bw) := beq_congr (by omega)
        cases hv : w.valid <;> simp [Shim.step, handed, pending, restBytes_one, hv, h1]
      | succ n => simp [Shim.step] at h

/-- The pending part never exceeds one word. -/
theorem pending_le (bw : Nat) (hb : 1 ≤ bw) (ins : List (WordIn × Bool)) :
    (pending bw (run bw Shim.init ins)).length ≤ bw := by
  have gen : ∀ (s : Shim), (s.fsm = .transmit → s.bts < bw) →
      (pending bw (run bw s ins)).length ≤ bw := by
    induction ins with
    | nil =>
      intro s hs
      rcases s with ⟨fsm, shift, fl, ll, bts⟩
      simp only at hs
      cases fsm <;> simp [run, pending, restBytes_length]
      have := hs rfl; omega
    | cons x xs ih =>
      intro s hs
      obtain ⟨w, r⟩ := x
      simp only [run]
      apply ih
      rcases s with ⟨fsm, shift, fl, ll, bts⟩
      simp only at hs
      cases fsm <;> cases r <;> simp only [Shim.step] <;> (repeat' split) <;>
        simp_all [Shim.load] <;> omega
  exact gen Shim.init (by simp [Shim.init])

/-! ## Non-vacuity: byte width 3, word 0x030201 with first and last, a stalled byte endpoint, then a
back-to-back second word -/
def exW (v : Bool) (p : Nat) (f l : Bool) : WordIn := ⟨v, p, f, l⟩
example : handedAll 3 Shim.init
    [(exW true 0x030201 true true, true), (exW false 0 false false, true), (exW false 0 false false, false),
     (exW false 0 false false, true), (exW true 0x0A0B0C false false, true), (exW false 0 false false, true)]
    = [(1, true, false), (2, false, false), (3, false, true), (0x0C, false, false)] := by decide
example : wordBytes 3 (exW true 0x030201 true true) = [(1, true, false), (2, false, false), (3, false, true)] := by
  decide

end LunaVerif.MultibyteIn
